"""Registry of the exported model classes and a uniform instance format used by the end-to-end
oracles (K5) of several properties.

An instance is a JSON-able dict:
  cls, nodes, edges [[u,v]], flow [[u,v,q]] (edge mode) / node_flow [[v,q]] (node mode), origin, weight_type,
  k, constraints [[[u,v],...]], coverage, ignore (edges or nodes), starts, ends, scaling [[u,v,q]] / [[v,q]], options
"""
import inspect
import networkx as nx
from . import gen
from .common import frac, qstr

DAG_CLASSES = ["kFlowDecomp", "MinFlowDecomp", "kLeastAbsErrors", "kMinPathError", "kPathCover", "MinPathCover"]
CYC_CLASSES = ["kFlowDecompCycles", "MinFlowDecompCycles", "kLeastAbsErrorsCycles", "kMinPathErrorCycles",
               "kPathCoverCycles", "MinPathCoverCycles"]
ALL_CLASSES = DAG_CLASSES + CYC_CLASSES
FLOW_DECOMP = {"kFlowDecomp", "MinFlowDecomp", "kFlowDecompCycles", "MinFlowDecompCycles"}
COVER = {"kPathCover", "MinPathCover", "kPathCoverCycles", "MinPathCoverCycles"}
HAS_K = {"kFlowDecomp", "kLeastAbsErrors", "kMinPathError", "kPathCover", "kFlowDecompCycles",
         "kLeastAbsErrorsCycles", "kMinPathErrorCycles", "kPathCoverCycles"}
ERROR = {"kLeastAbsErrors", "kMinPathError", "kLeastAbsErrorsCycles", "kMinPathErrorCycles"}


def is_cyc(cls):
    return cls in CYC_CLASSES


def route_key(cls):
    return "walks" if is_cyc(cls) else "paths"


def num(q, wint):
    f = frac(q)
    return int(f) if (wint and f.denominator == 1) else float(f)


def graph_of(inst):
    wint = inst.get("weight_type", "int") == "int"
    G = nx.DiGraph()
    if inst.get("id") is not None:
        G.graph["id"] = inst["id"]
    G.add_nodes_from(inst["nodes"])
    for u, v in inst["edges"]:
        G.add_edge(u, v)
    for u, v, q in inst.get("flow", []) or []:
        G[u][v]["flow"] = num(q, wint)
    for v, q in inst.get("node_flow", []) or []:
        G.nodes[v]["flow"] = num(q, wint)
    for u, v, q in inst.get("lengths", []) or []:
        G[u][v]["length"] = num(q, True)
    if inst.get("stale_file_attrs"):
        # what graphutils.read_graph stores on a graph (n, m, w, constraints) - here deliberately stale, as after
        # reading a file and then editing / copying the graph: user-visible metadata must not influence any model
        G.graph.update(inst["stale_file_attrs"])
    return G


def build(fp, inst, G=None, extra_opts=None):
    """construct the real model for an instance (kwargs filtered by the class signature)"""
    cls = getattr(fp, inst["cls"])
    G = G if G is not None else graph_of(inst)
    node = inst.get("origin", "edge") == "node"
    wint = inst.get("weight_type", "int") == "int"
    tup = (lambda x: x) if node else (lambda e: tuple(e))
    cons = [[tuple(e) for e in c] for c in inst.get("constraints", [])]
    kw = {"G": G, "flow_attr": "flow", "k": inst.get("k"),
          "flow_attr_origin": inst.get("origin", "edge"), "cover_type": inst.get("origin", "edge"),
          "weight_type": int if wint else float,
          "subpath_constraints": cons, "subset_constraints": cons,
          "subpath_constraints_coverage": float(frac(inst.get("coverage", "1"))),
          "subset_constraints_coverage": float(frac(inst.get("coverage", "1"))),
          "elements_to_ignore": [tup(e) for e in inst.get("ignore", [])],
          "additional_starts": list(inst.get("starts", [])), "additional_ends": list(inst.get("ends", [])),
          "optimization_options": dict(inst.get("options", {}), **(extra_opts or {})),
          "solver_options": dict(inst.get("solver_options", {"time_limit": 60}))}
    if inst.get("scaling"):
        kw["error_scaling"] = ({x[0]: float(frac(x[1])) for x in inst["scaling"]} if node
                               else {(x[0], x[1]): float(frac(x[2])) for x in inst["scaling"]})
    if inst.get("coverage_length") is not None:
        kw["subpath_constraints_coverage_length"] = float(frac(inst["coverage_length"]))
    if inst.get("lengths"):
        kw["length_attr"] = "length"
    if inst.get("given_weights") is not None:
        kw["solution_weights_superset"] = [num(q, wint) for q in inst["given_weights"]]
    for a, b in (inst.get("ctor_extra") or {}).items():      # further constructor arguments (JSON-able; edges as lists)
        kw[a] = [tuple(x) for x in b] if a == "trusted_edges_for_safety" else b
    sig = inspect.signature(cls.__init__).parameters
    kw = {k: v for k, v in kw.items() if k in sig}
    if inst["cls"] not in HAS_K:
        kw.pop("k", None)
    if not (inst.get("starts") or inst.get("ends")):
        kw.pop("additional_starts", None); kw.pop("additional_ends", None)
    return cls(**kw)


# --------------------------------------------------------------------------- generators

def cyc_graph(rng, max_nodes=6, min_edges=3):
    """digraph (cycles allowed) where every edge lies on a walk from a node without in-edges to one
    without out-edges"""
    if max_nodes >= 5 and min_edges <= 6 and rng.random() < 0.1:
        # "flower": several edge-disjoint closed walks through ONE vertex; the edge leaving the vertex towards the sink is
        # inserted last (a greedy trail pops it first and every closed walk has to be spliced in afterwards)
        names = gen.node_names(rng, max_nodes)
        s_, v, t = names[0], names[1], names[2]
        petals = names[3:3 + rng.randint(2, max(2, min(3, max_nodes - 3)))]
        edges = [(s_, v)]
        for p_ in petals:
            edges += [(v, p_), (p_, v)]
        if rng.random() < 0.3:
            edges.append((v, v))
        edges.append((v, t))
        return [s_, v] + petals + [t], edges
    for _ in range(200):
        nodes, edges = gen.digraph_scc(rng, max_nodes=max_nodes)
        if len(edges) < min_edges:
            continue
        G = nx.DiGraph(); G.add_nodes_from(nodes); G.add_edges_from(edges)
        srcs = [v for v in G if G.in_degree(v) == 0]; snks = [v for v in G if G.out_degree(v) == 0]
        if not srcs or not snks:
            continue
        fw = set().union(*[nx.descendants(G, s) | {s} for s in srcs])
        bw = set().union(*[nx.ancestors(G, t) | {t} for t in snks])
        if all(u in fw and v in bw for u, v in G.edges()) and all(G.degree(v) > 0 for v in G):
            if not nx.is_directed_acyclic_graph(G):
                return nodes, edges
    return ["s", "a", "b", "t"], [("s", "a"), ("a", "b"), ("b", "a"), ("a", "t")]


def walk_flow(rng, nodes, edges, weights=(1, 2, 3)):
    """positive integer flow = superposition of weighted source-to-sink walks covering every edge;
    returns (flow dict, walks, weights)"""
    G = nx.DiGraph(); G.add_nodes_from(nodes); G.add_edges_from(edges)
    srcs = [v for v in G if G.in_degree(v) == 0]
    f = {e: 0 for e in edges}
    left = set(edges)
    walks, ws = [], []
    guard = 0
    while left and guard < 300:
        guard += 1
        v = rng.choice(srcs); w = rng.choice(weights); steps = 0
        walk = [v]
        while G.out_degree(v) > 0 and steps < 60:
            succ = list(G.successors(v))
            pref = [x for x in succ if (v, x) in left]
            x = rng.choice(pref) if pref and rng.random() < 0.85 else rng.choice(succ)
            walk.append(x); v = x; steps += 1
        if G.out_degree(v) == 0:
            used = list(zip(walk[:-1], walk[1:]))
            if set(used) & left or not walks:
                for e in used:
                    f[e] += w
                left -= set(used); walks.append(walk); ws.append(w)
    return f, walks, ws


def node_instance(rng, cls, small=True):
    """a random mostly-valid NODE-weighted instance (flow_attr_origin / cover_type = 'node'): node values are the
    sums of the planted route weights through the node (perturbed for the error models); additional starts/ends
    where the class takes them"""
    base = instance(rng, cls, small=small, features=False)
    nodes, edges = base["nodes"], [tuple(e) for e in base["edges"]]
    wint = base["weight_type"] == "int"
    inst = {"cls": cls, "nodes": nodes, "edges": base["edges"], "origin": "node", "weight_type": base["weight_type"],
            "constraints": [], "coverage": "1", "ignore": [], "starts": [], "ends": [], "options": {}}
    if cls not in COVER:
        # node value = total edge flow entering (or leaving, for sources) the node in the planted edge flow
        f = {(u, v): frac(q) for u, v, q in base["flow"]}
        val = {}
        for v in nodes:
            inn = sum(f[e] for e in edges if e[1] == v)
            out = sum(f[e] for e in edges if e[0] == v)
            val[v] = max(inn, out)
        if cls in ERROR and rng.random() < 0.6:
            for v in nodes:
                if rng.random() < 0.3:
                    val[v] = max(0, val[v] + rng.choice([-1, 1, 2]))
        inst["node_flow"] = [[v, qstr(val[v])] for v in nodes if not (cls in ERROR and rng.random() < 0.1)]
        if not inst["node_flow"]:
            inst["node_flow"] = [[nodes[0], "1"]]
    if "k" in base:
        inst["k"] = base["k"]
    if cls not in FLOW_DECOMP and rng.random() < 0.5:
        # an additional end in the middle of a route / an additional start
        inner = [v for v in nodes if any(e[0] == v for e in edges) and any(e[1] == v for e in edges)]
        if inner:
            if rng.random() < 0.7:
                inst["ends"] = [rng.choice(inner)]
            if rng.random() < 0.5:
                inst["starts"] = [rng.choice(inner)]
    if cls in ERROR | COVER and rng.random() < 0.2:
        inst["ignore"] = [rng.choice(nodes)]
    return inst


def node_drop_instance(rng, cls):
    """node-weighted DAG where the node values drop after an inner node declared as additional end (resp. rise at an
    inner node declared as additional start): the optimum must end (start) a route exactly there"""
    n = rng.randint(4, 6)
    chain = gen.node_names(rng, n)
    edges = list(zip(chain[:-1], chain[1:]))
    extra = []
    if rng.random() < 0.5:                        # a side branch
        b = "zz" + chain[1]
        extra = [(chain[0], b), (b, chain[-1])]
    cut = rng.randint(2, n - 2)                   # the declared end is at least the third node
    hi, lo = rng.choice([4, 5, 7]), rng.choice([1, 2])
    val = {v: (hi if i <= cut else lo) for i, v in enumerate(chain)}
    nodes = list(chain) + ([extra[0][1]] if extra else [])
    if extra:
        val[extra[0][1]] = 1
        val[chain[0]] += 1; val[chain[-1]] += 1
    inst = {"cls": cls, "nodes": nodes, "edges": [list(e) for e in edges + extra], "origin": "node", "weight_type": "int",
            "constraints": [], "coverage": "1", "ignore": [], "starts": [], "ends": [chain[cut]], "options": {},
            "node_flow": [[v, qstr(val[v])] for v in nodes], "k": 2 + (1 if extra else 0)}
    if rng.random() < 0.4:                        # mirrored: additional start
        inst["ends"] = []
        inst["starts"] = [chain[cut]]
        inst["node_flow"] = [[v, qstr((lo if i < cut else hi) + (0 if v not in (chain[0], chain[-1]) or not extra else 1))]
                             for i, v in enumerate(chain)] + ([[extra[0][1], "1"]] if extra else [])
    return inst


def instance(rng, cls, small=True, features=True):
    """a random mostly-valid instance for class `cls` (edge mode)"""
    cyc = is_cyc(cls)
    if cyc:
        nodes, edges = cyc_graph(rng, max_nodes=5 if small else 7)
    else:
        nodes, edges = gen.dag(rng, n=rng.randint(3, 5 if small else 7), min_edges=3)
        if rng.random() < 0.9:      # isolated nodes only occasionally
            touched = {x for e in edges for x in e}
            nodes = [v for v in nodes if v in touched]
    wint = True if cls in ("MinFlowDecompCycles", "kFlowDecompCycles") else rng.random() < 0.7
    inst = {"cls": cls, "nodes": list(nodes), "edges": [list(e) for e in edges], "origin": "edge",
            "weight_type": "int" if wint else "float", "constraints": [], "coverage": "1", "ignore": [],
            "starts": [], "ends": [], "options": {}}
    if cls not in COVER:
        if cyc:
            f, routes, ws = walk_flow(rng, nodes, edges)
        else:
            f, routes, ws = gen.flow_from_paths(rng, nodes, edges, wtype=int)
        if not wint:
            f = {e: v * 0.5 for e, v in f.items()}
        if cls in ERROR and rng.random() < 0.7:      # perturb: error models take arbitrary non-negative weights
            for e in list(f):
                if rng.random() < 0.35:
                    f[e] = max(0, f[e] + rng.choice([-1, 1, 2]) * (1 if wint else 0.5))
            if all(v == 0 for v in f.values()):
                f[next(iter(f))] = 1
        inst["flow"] = [[u, v, qstr(f[(u, v)])] for (u, v) in edges]
        inst["planted_routes"] = len(routes)
    if cls in HAS_K:
        base = inst.get("planted_routes", 2)
        inst["k"] = max(1, min(6, base + rng.choice([0, 0, 1])))
    if features:
        r = rng.random()
        if r < 0.3 and not cyc:
            inst["constraints"] = [[list(e) for e in c] for c in gen.subpaths(rng, nodes, edges)]
        elif r < 0.3 and cyc:
            inst["constraints"] = [[list(e) for e in rng.sample(edges, min(len(edges), rng.randint(1, 2)))]]
        if inst["constraints"] and rng.random() < 0.4:
            inst["coverage"] = rng.choice(["1/2", "3/4"])
        if cls in ERROR and rng.random() < 0.3:
            inst["scaling"] = [[u, v, rng.choice(["0", "1/4", "1/2", "1"])] for (u, v) in edges if rng.random() < 0.4]
        if cls in ERROR | COVER and rng.random() < 0.25:
            inst["ignore"] = [list(e) for e in edges if rng.random() < 0.25][:max(0, len(edges) - 1)]
        # a well-formed instance keeps an edge to explain: not all edges ignored / scaled by 0 (the classes reject that)
        dead = {tuple(e) for e in inst.get("ignore", [])} | {(x[0], x[1]) for x in inst.get("scaling", []) if x[2] == "0"}
        if edges and all(tuple(e) in dead for e in edges):
            keep = next((e for e in edges if list(e) not in inst.get("ignore", [])), edges[0])
            if inst.get("ignore"):
                inst["ignore"] = [e for e in inst["ignore"] if tuple(e) != tuple(keep)]
            if inst.get("scaling"):
                inst["scaling"] = [x for x in inst["scaling"] if (x[0], x[1]) != tuple(keep)]
        if cls not in FLOW_DECOMP and rng.random() < 0.25:
            inner = [v for v in nodes]
            inst["starts"] = rng.sample(inner, 1)
            inst["ends"] = rng.sample(inner, 1)
    return inst


# --------------------------------------------------------------------------- oracles on the user's graph

def route_problems(inst, route, dag):
    """list of reasons why `route` is not an admissible route of the user's graph (property C01)"""
    nodes = set(inst["nodes"]); edges = {tuple(e) for e in inst["edges"]}
    indeg = {v: 0 for v in nodes}; outdeg = {v: 0 for v in nodes}
    for u, v in edges:
        outdeg[u] += 1; indeg[v] += 1
    probs = []
    if len(route) == 0:
        return ["empty route"]
    for v in route:
        if v not in nodes:
            probs.append(f"node {v!r} is not a node of the input graph")
    if probs:
        return probs
    for a, b in zip(route[:-1], route[1:]):
        if (a, b) not in edges:
            probs.append(f"({a!r},{b!r}) is not an edge of the input graph")
    if indeg[route[0]] != 0 and route[0] not in set(inst.get("starts", [])):
        probs.append(f"starts at {route[0]!r} which has incoming edges and is not an additional start")
    if outdeg[route[-1]] != 0 and route[-1] not in set(inst.get("ends", [])):
        probs.append(f"ends at {route[-1]!r} which has outgoing edges and is not an additional end")
    if dag and len(set(route)) != len(route):
        probs.append("path repeats a node")
    return probs
