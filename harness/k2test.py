"""development tool:  /venv/bin/python harness/k2test.py <enc module> [n] [seed]
runs the K2 loop (real LP dump vs Lean driver dump) for one encoder adapter and prints differences"""
import sys, json, random, traceback
sys.path.insert(0, __file__.rsplit("/", 1)[0])
from fpv import common, lpdump
import importlib


def k2_once(fp, driver, mod, cfg):
    """returns None if equal, else a diff dict; raises on constructor errors"""
    m = mod.build_real(fp, cfg)
    sw = mod.solver_of(m) if hasattr(mod, "solver_of") else m.solver
    sw._apply_pending_bound_updates()
    a = lpdump.from_highs(sw.solver)
    b = lpdump.from_driver(driver.call(mod.to_request(cfg)))
    return None if a == b else lpdump.diff(a, b)


if __name__ == "__main__":
    name = sys.argv[1]
    n = int(sys.argv[2]) if len(sys.argv) > 2 else 200
    seed = int(sys.argv[3]) if len(sys.argv) > 3 else 0
    mod = importlib.import_module("enc." + name)
    ok, log = common.lean_build(("fpdriver",))
    if not ok:
        print(log[-3000:]); sys.exit(2)
    fp = common.import_flowpaths()
    d = common.Driver()
    rng = random.Random(seed)
    bad = errs = good = 0
    kinds = {}
    for it in range(n):
        cfg = mod.gen_cfg(rng)
        try:
            df = k2_once(fp, d, mod, cfg)
        except common.Infra:
            raise
        except Exception as e:
            errs += 1
            kinds[type(e).__name__ + ": " + str(e)[:80]] = kinds.get(type(e).__name__ + ": " + str(e)[:80], 0) + 1
            continue
        if df is None:
            good += 1
        else:
            bad += 1
            if bad <= 3:
                print("CFG", json.dumps(cfg)); print(json.dumps(df, indent=1))
    print(f"equal={good} different={bad} constructor_errors={errs}")
    for k, v in sorted(kinds.items(), key=lambda x: -x[1])[:8]:
        print("  ", v, k)
