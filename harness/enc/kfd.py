"""K2 adapter for kFlowDecomp: configuration -> real model (LP read through getLp) and -> driver request."""
import networkx as nx
from fpv import gen
from fpv.common import qstr, frac


def gen_cfg(rng, small=False):
    nodes, edges = gen.dag(rng, max_nodes=5 if small else 7)
    wint = rng.random() < 0.6
    cover = rng.random() < 0.65          # otherwise some edges carry flow 0 (still conserving)
    if wint:
        f, paths, ws = gen.flow_from_paths(rng, nodes, edges, wtype=int, cover=cover, npaths=None if cover else rng.randint(1, 3))
    else:
        f, paths, ws = gen.flow_from_paths(rng, nodes, edges, weights=(0.5, 1.0, 1.5, 2.25, 4.0), wtype=float, cover=cover,
                                           npaths=None if cover else rng.randint(1, 3))
    cfg = {"class": "kfd", "nodes": nodes, "edges": [list(e) for e in edges],
           "flow": [[u, v, qstr(f[(u, v)])] for (u, v) in edges],
           "weight_type": "int" if wint else "float",
           "k": rng.randint(1, 4), "constraints": [], "coverage": "1", "coverage_length": None,
           "lengths": None, "ignore": [], "given_weights": None, "options": {"optimize_with_greedy": False}}
    r = rng.random()
    if r < 0.5:
        cfg["constraints"] = [[list(e) for e in c] for c in gen.subpaths(rng, nodes, edges, contiguous=rng.random() < 0.7)]
        if rng.random() < 0.5:
            cfg["coverage"] = rng.choice(["1/2", "3/4", "1/4"])
        elif rng.random() < 0.4:
            cfg["lengths"] = [[u, v, str(rng.choice([0, 1, 2, 3, 5]))] for (u, v) in edges if rng.random() < 0.8]
            cfg["coverage_length"] = rng.choice(["1", "1/2", "3/4"])
    if rng.random() < 0.3:
        cfg["ignore"] = [list(e) for e in edges if rng.random() < 0.3]
        if len(cfg["ignore"]) == len(edges):
            cfg["ignore"] = cfg["ignore"][1:]
    if rng.random() < 0.25:
        vals = sorted({frac(x[2]) for x in cfg["flow"]} | {frac(1)})
        cfg["given_weights"] = [qstr(v) for v in vals if v > 0][:5]
    for o in ["optimize_with_safe_paths", "optimize_with_safe_sequences", "optimize_with_safe_zero_edges",
              "optimize_with_flow_safe_paths"]:
        if rng.random() < 0.3:
            cfg["options"][o] = rng.random() < 0.5
    return cfg


def num(q, wint):
    f = frac(q)
    return int(f) if wint and f.denominator == 1 else float(f)


def build_graph(cfg, attr="flow"):
    wint = cfg.get("weight_type") == "int"
    G = nx.DiGraph()
    G.add_nodes_from(cfg["nodes"])
    for u, v in cfg["edges"]:
        G.add_edge(u, v)
    for u, v, q in cfg.get("flow", []):
        G[u][v][attr] = num(q, wint)
    if cfg.get("lengths"):
        for u, v, q in cfg["lengths"]:
            G[u][v]["length"] = num(q, True)
    return G


def build_real(fp, cfg):
    """returns the constructed model (its LP is in model.solver.solver)"""
    G = build_graph(cfg)
    wint = cfg["weight_type"] == "int"
    kw = dict(G=G, flow_attr="flow", k=cfg["k"], weight_type=int if wint else float,
              subpath_constraints=[[tuple(e) for e in c] for c in cfg["constraints"]],
              subpath_constraints_coverage=float(frac(cfg["coverage"])),
              elements_to_ignore=[tuple(e) for e in cfg["ignore"]],
              optimization_options=dict(cfg["options"]))
    if cfg.get("coverage_length") is not None:
        kw["subpath_constraints_coverage_length"] = float(frac(cfg["coverage_length"]))
    if cfg.get("lengths") is not None:
        kw["length_attr"] = "length"
    if cfg.get("given_weights") is not None:
        kw["solution_weights_superset"] = [num(q, wint) for q in cfg["given_weights"]]
    return fp.kFlowDecomp(**kw)


def to_request(cfg):
    r = {"op": "lp.kfd", "nodes": cfg["nodes"], "edges": cfg["edges"], "flow": cfg["flow"],
         "ignore": cfg["ignore"], "weight_type": cfg["weight_type"], "k": cfg["k"],
         "constraints": cfg["constraints"], "coverage": cfg["coverage"],
         "coverage_length": cfg["coverage_length"], "lengths": cfg["lengths"],
         "given_weights": cfg["given_weights"], "original_k": cfg["k"]}
    return r


def features(cfg):
    f = []
    if any(frac(x[2]) == 0 for x in cfg["flow"]): f.append("zero-flow edge")
    if cfg["ignore"]: f.append("ignore")
    if cfg["constraints"]: f.append("constraints")
    if cfg["given_weights"] is not None: f.append("given weights")
    f.append(cfg["weight_type"])
    return f
