"""K2 adapter for kFlowDecomp (edge mode, no given weights) with random subsets of the DAG safety optimisations ON."""
from fpv.common import frac
from . import kfd, _path_safety

def gen_cfg(rng):
    cfg = kfd.gen_cfg(rng)
    cfg["class"] = "kfd_safety"
    cfg["given_weights"] = None
    cfg["options"] = {"optimize_with_greedy": False}
    cfg["safety"] = _path_safety.gen_safety(rng)
    s = cfg["safety"]
    # optimize_with_flow_safe_paths (the class default) excludes safe paths / safe sequences (ValueError when the paths are
    # computed, i.e. when nothing is ignored and the flow is conserved): a quarter of the configurations uses it instead
    if rng.random() < 0.25:
        s["safe_paths"] = s["safe_sequences"] = False
    cfg["flow_safe"] = (not s["safe_paths"] and not s["safe_sequences"] and rng.random() < 0.85) or rng.random() < 0.03
    return cfg


def build_real(fp, cfg):
    G = kfd.build_graph(cfg)
    wint = cfg["weight_type"] == "int"
    opts = _path_safety.options(cfg)
    opts["optimize_with_greedy"] = False
    opts["optimize_with_flow_safe_paths"] = bool(cfg["flow_safe"])
    kw = dict(G=G, flow_attr="flow", k=cfg["k"], weight_type=int if wint else float,
              subpath_constraints=[[tuple(e) for e in c] for c in cfg["constraints"]],
              subpath_constraints_coverage=float(frac(cfg["coverage"])),
              elements_to_ignore=[tuple(e) for e in cfg["ignore"]],
              optimization_options=opts)
    if cfg.get("coverage_length") is not None:
        kw["subpath_constraints_coverage_length"] = float(frac(cfg["coverage_length"]))
    if cfg.get("lengths") is not None:
        kw["length_attr"] = "length"
    return _path_safety.build_capturing(fp, cfg, lambda: fp.kFlowDecomp(**kw))


def to_request(cfg):
    return _path_safety.request("lp.kfd.safety", kfd.to_request(cfg), cfg)


def features(cfg):
    return _path_safety.features(cfg) + kfd.features(cfg)
