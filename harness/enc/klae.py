"""K2 adapter for kLeastAbsErrors: configuration -> real model (LP read through getLp) and -> driver request.
`common_cfg` / `common_kwargs` / `common_request` are shared with kMinPathError (enc/kmpe.py)."""
from fpv import gen
from fpv.common import qstr, frac
from enc.kfd import num, build_graph

INT_VALUES = (1, 2, 3, 4, 5, 7, 9)
DYADIC = (0.5, 0.75, 1.0, 1.5, 2.25, 4.0, 6.5)
SCALES = ("0", "1/4", "1/2", "1")


class SkipConfig(Exception):
    """a configuration family that is deliberately not modelled (counted with the constructor errors)"""


def common_cfg(rng, cls):
    nodes, edges = gen.dag(rng, max_nodes=6, min_edges=rng.choice([1, 2, 3]))
    wint = rng.random() < 0.55
    # flow values: conserving superposition of paths, or arbitrary (non-conserving) values;
    # with weight_type=int sometimes fractional values (w_max truncates them)
    frac_in_int = wint and rng.random() < 0.12
    vals = DYADIC if (not wint or frac_in_int) else INT_VALUES
    if rng.random() < 0.4:
        f, _, _ = gen.flow_from_paths(rng, nodes, edges, weights=vals, wtype=float if vals is DYADIC else int)
        if rng.random() < 0.5:      # perturb one edge, zero another
            e = rng.choice(edges); f[e] = f[e] + (1 if wint and not frac_in_int else 0.5)
            e = rng.choice(edges); f[e] = type(f[e])(0)
    else:
        f = gen.arbitrary_flow(rng, edges, values=vals, p_zero=0.15, wtype=float if vals is DYADIC else int)
    cfg = {"class": cls, "nodes": nodes, "edges": [list(e) for e in edges],
           "weight_type": "int" if wint else "float", "k": rng.randint(1, 4),
           "constraints": [], "coverage": "1", "coverage_length": None, "lengths": None,
           "ignore": [], "scaling": [], "starts": [], "ends": [], "given_weights": None, "options": {}}
    # ignored edges (some of them without a flow attribute)
    noflow = set()
    if rng.random() < 0.3:
        ign = [e for e in edges if rng.random() < 0.3]
        if len(ign) == len(edges) and rng.random() < 0.8:
            ign = ign[1:]
        cfg["ignore"] = [list(e) for e in ign]
        noflow = {e for e in ign if rng.random() < 0.4}
    cfg["flow"] = [[u, v, qstr(f[(u, v)])] for (u, v) in edges if (u, v) not in noflow]
    # additional starts / ends
    if rng.random() < 0.35:
        cfg["starts"] = rng.sample(nodes, rng.randint(0, min(2, len(nodes))))
        cfg["ends"] = rng.sample(nodes, rng.randint(0, min(2, len(nodes))))
    # error scaling
    if rng.random() < 0.4:
        cfg["scaling"] = [[u, v, rng.choice(SCALES)] for (u, v) in edges if rng.random() < 0.5]
    # lengths (with or without constraints), subpath constraints, coverage
    if rng.random() < 0.3:
        cfg["lengths"] = [[u, v, rng.choice(["0", "1", "2", "3", "5", "1/2"])] for (u, v) in edges if rng.random() < 0.8]
    if rng.random() < 0.45:
        cfg["constraints"] = [[list(e) for e in c] for c in gen.subpaths(rng, nodes, edges, contiguous=rng.random() < 0.7)]
        r = rng.random()
        if r < 0.4:
            cfg["coverage"] = rng.choice(["1/2", "3/4", "1/4"])
        elif r < 0.75:
            if cfg["lengths"] is None:
                cfg["lengths"] = [[u, v, rng.choice(["0", "1", "2", "3", "5"])] for (u, v) in edges if rng.random() < 0.8]
            cfg["coverage_length"] = rng.choice(["1", "1/2", "3/4"])
    # given weights (k = len(weights), allow_empty_paths forced)
    if rng.random() < 0.25:
        pool = sorted({frac(x[2]) for x in cfg["flow"]} | {frac(1)} | ({frac(12)} if rng.random() < 0.2 else set()))
        pool = [v for v in pool if v > 0 and (not wint or v.denominator == 1)]
        ws = [rng.choice(pool) for _ in range(rng.randint(1, 5))]
        cfg["given_weights"] = [qstr(v) for v in ws]
        # given weights + constraints of full coverage make the constructor append the safe sequences of the
        # constraints to the constraints themselves (optimize_with_safety_as_subpath_constraints is forced):
        # not modelled; a small share is kept to show the family being skipped
        full = cfg["coverage"] == "1" and cfg["coverage_length"] in (None, "1")
        if cfg["constraints"] and full and rng.random() < 0.9:
            if cfg["coverage_length"] == "1":
                cfg["coverage_length"] = rng.choice(["1/2", "3/4"])
            else:
                cfg["coverage"] = rng.choice(["1/2", "3/4"])
    # optimization options
    r = rng.random()
    if r < 0.3:
        cfg["options"]["allow_empty_paths"] = True
    elif r < 0.4:
        cfg["options"]["allow_empty_paths"] = False
    r = rng.random()
    if r < 0.12:
        cfg["options"]["optimize_with_safe_paths"] = False
    elif r < 0.22:
        cfg["options"]["optimize_with_safe_paths"] = False
        cfg["options"]["optimize_with_safe_sequences"] = True
    elif r < 0.25:
        cfg["options"]["optimize_with_safe_sequences"] = True      # conflict with the default safe paths
    if rng.random() < 0.15:
        cfg["options"]["optimize_with_safe_zero_edges"] = rng.random() < 0.5
    if rng.random() < 0.1:
        cfg["options"]["optimize_with_subpath_constraints_as_safe_sequences"] = rng.random() < 0.5
    return cfg


def gen_cfg(rng):
    return common_cfg(rng, "klae")


def common_kwargs(cfg):
    wint = cfg["weight_type"] == "int"
    kw = dict(G=build_graph(cfg), flow_attr="flow", k=cfg["k"], weight_type=int if wint else float,
              subpath_constraints=[[tuple(e) for e in c] for c in cfg["constraints"]],
              subpath_constraints_coverage=float(frac(cfg["coverage"])),
              elements_to_ignore=[tuple(e) for e in cfg["ignore"]],
              error_scaling={(u, v): float(frac(q)) for u, v, q in cfg["scaling"]},
              additional_starts=list(cfg["starts"]), additional_ends=list(cfg["ends"]),
              optimization_options=dict(cfg["options"]))
    if cfg.get("coverage_length") is not None:
        kw["subpath_constraints_coverage_length"] = float(frac(cfg["coverage_length"]))
    if cfg.get("lengths") is not None:
        kw["length_attr"] = "length"
    if cfg.get("given_weights") is not None:
        kw["solution_weights_superset"] = [num(q, wint) for q in cfg["given_weights"]]
    return kw


def check_unmodelled(model, cfg):
    """the only way the safety options reach the LP: safe lists appended to the subpath constraints"""
    if model.subpath_constraints != [[tuple(e) for e in c] for c in cfg["constraints"]]:
        raise SkipConfig("safe lists appended to the subpath constraints (not modelled)")
    if model.edges_set_to_zero or model.edges_set_to_one:
        raise SkipConfig("edge variables fixed by safety (not modelled)")
    cfg["_k"] = model.k
    cfg["_original_k"] = model.original_k
    cfg["_wmax"] = qstr(model.w_max)


def build_real(fp, cfg):
    m = fp.kLeastAbsErrors(**common_kwargs(cfg))
    check_unmodelled(m, cfg)
    return m


def common_request(cfg, op):
    given = cfg["given_weights"]
    return {"op": op, "nodes": cfg["nodes"], "edges": cfg["edges"], "flow": cfg["flow"],
            "ignore": cfg["ignore"], "starts": cfg["starts"], "ends": cfg["ends"],
            "scaling": cfg["scaling"], "weight_type": cfg["weight_type"],
            # k as chosen by the constructor when k=None (width); for given weights Lean uses len(weights)
            "k": cfg["_original_k"] if cfg["k"] is None else cfg["k"],
            "allow_empty": bool(cfg["options"].get("allow_empty_paths", False)),
            "constraints": cfg["constraints"], "coverage": cfg["coverage"],
            "coverage_length": cfg["coverage_length"], "lengths": cfg["lengths"],
            "given_weights": given, "original_k": cfg["_original_k"]}


def to_request(cfg):
    return common_request(cfg, "lp.klae")


def features(cfg):
    """branch labels of a configuration (for the coverage histogram)"""
    fs = ["int" if cfg["weight_type"] == "int" else "float", f"k={cfg['k']}" if cfg["k"] is not None else "k=None(width)"]
    if cfg["given_weights"] is not None: fs.append("given_weights")
    if cfg["scaling"]: fs.append("scaling")
    if any(frac(x[2]) == 0 for x in cfg["scaling"]): fs.append("scaling=0")
    if cfg["ignore"]: fs.append("ignore")
    if len(cfg["flow"]) < len(cfg["edges"]): fs.append("ignored_edge_without_flow")
    if cfg["starts"] or cfg["ends"]: fs.append("starts/ends")
    if cfg["constraints"]: fs.append("constraints")
    if cfg["constraints"] and cfg["coverage"] != "1": fs.append("coverage<1")
    if cfg["constraints"] and cfg["coverage_length"] is not None: fs.append("coverage_length")
    if cfg["lengths"] is not None: fs.append("length_attr")
    if cfg["options"].get("allow_empty_paths"): fs.append("allow_empty")
    if any(frac(x[2]) == 0 for x in cfg["flow"]): fs.append("zero_flow")
    if cfg["weight_type"] == "int" and any(frac(x[2]).denominator != 1 for x in cfg["flow"]): fs.append("int_with_fractional_flow")
    if cfg.get("path_length_factors"): fs.append("path_length_factors")
    if cfg["given_weights"] is not None and cfg["constraints"]: fs.append("given_weights+constraints")
    if cfg["given_weights"] is not None and cfg.get("path_length_factors"): fs.append("given_weights+path_length_factors")
    dead = {tuple(e) for e in cfg["ignore"]} | {(u, v) for u, v, q in cfg["scaling"] if frac(q) == 0}
    if all(tuple(e) in dead for e in cfg["edges"]): fs.append("all_edges_ignored")
    if "_wmax" in cfg:
        wm = frac(cfg["_wmax"])
        if wm == 0: fs.append("w_max=0")
        if cfg["given_weights"] is not None and wm == max(frac(w) for w in cfg["given_weights"]):
            fs.append("w_max_attained_by_given_weight")
        if cfg.get("path_length_factors"):
            ub = wm * max(frac(x) for x in cfg["path_length_factors"])
            fs.append("product_ub_fractional" if ub.denominator != 1 else "product_ub_integer")
            if max(frac(x) for x in cfg["path_length_factors"]) < 1: fs.append("all_factors<1")
    return fs
