"""K2 adapter for kPathCover (cover_type="edge") with random subsets of the DAG safety optimisations ON."""
from fpv.common import frac
from . import kcover, _path_safety
from .kfd import build_graph

def gen_cfg(rng):
    cfg = kcover.gen_cfg(rng)
    cfg["class"] = "kcover_safety"
    ae = cfg["options"].get("allow_empty_paths")
    cfg["options"] = {} if ae is None else {"allow_empty_paths": ae}
    cfg["safety"] = _path_safety.gen_safety(rng)
    cfg["flow_safe"] = False
    return cfg


def build_real(fp, cfg):
    kw = dict(G=build_graph(cfg), k=cfg["k"], cover_type="edge",
              subpath_constraints=[[tuple(e) for e in c] for c in cfg["constraints"]],
              subpath_constraints_coverage=float(frac(cfg["coverage"])),
              elements_to_ignore=[tuple(e) for e in cfg["ignore"]],
              additional_starts=list(cfg["starts"]), additional_ends=list(cfg["ends"]),
              optimization_options=_path_safety.options(cfg))
    if cfg.get("coverage_length") is not None:
        kw["subpath_constraints_coverage_length"] = float(frac(cfg["coverage_length"]))
    if cfg.get("lengths") is not None:
        kw["length_attr"] = "length"
    return _path_safety.build_capturing(fp, cfg, lambda: fp.kPathCover(**kw))


def to_request(cfg):
    return _path_safety.request("lp.kcover.safety", kcover.to_request(cfg), cfg)


def features(cfg):
    return _path_safety.features(cfg) + kcover.features(cfg)
