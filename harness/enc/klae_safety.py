"""K2 adapter for kLeastAbsErrors (no given weights) with random subsets of the DAG safety optimisations ON; the
user-supplied `trusted_edges_for_safety` is a random subset of the edges."""
from fpv.common import qstr
from . import klae, _path_safety


def gen_cfg(rng, cls="klae_safety"):
    cfg = klae.common_cfg(rng, cls)
    cfg["given_weights"] = None
    ae = cfg["options"].get("allow_empty_paths")
    cfg["options"] = {} if ae is None else {"allow_empty_paths": ae}
    cfg["safety"] = _path_safety.gen_safety(rng)
    cfg["flow_safe"] = False
    cfg["trusted"] = [e for e in cfg["edges"] if rng.random() < 0.6] if rng.random() < 0.7 else None
    return cfg


def kwargs(cfg):
    kw = klae.common_kwargs(cfg)
    kw["optimization_options"] = _path_safety.options(cfg)
    return kw


def record(m, cfg):
    cfg["_k"] = m.k
    cfg["_original_k"] = m.original_k
    cfg["_wmax"] = qstr(m.w_max)


def build_real(fp, cfg):
    kw = kwargs(cfg)
    if cfg["trusted"] is not None:
        kw["trusted_edges_for_safety"] = [tuple(e) for e in cfg["trusted"]]
    m = _path_safety.build_capturing(fp, cfg, lambda: fp.kLeastAbsErrors(**kw))
    record(m, cfg)
    return m


def to_request(cfg):
    return _path_safety.request("lp.klae.safety", klae.common_request(cfg, "lp.klae"), cfg)


def features(cfg):
    return _path_safety.features(cfg) + klae.features(cfg) + (["user_trusted_edges"] if cfg.get("trusted") else [])
