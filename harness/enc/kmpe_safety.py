"""K2 adapter for kMinPathError (no given weights) with random subsets of the DAG safety optimisations ON."""
from . import klae, kmpe, klae_safety, _path_safety


def gen_cfg(rng):
    cfg = klae_safety.gen_cfg(rng, "kmpe_safety")
    base = kmpe.gen_cfg(rng)               # only for the path-length parameters (and the k=None case)
    cfg["path_length_ranges"] = base["path_length_ranges"] if cfg["weight_type"] == "int" else []
    cfg["path_length_factors"] = base["path_length_factors"] if cfg["weight_type"] == "int" else []
    cfg["trusted"] = None
    return cfg


def build_real(fp, cfg):
    kw = klae_safety.kwargs(cfg)
    kw["path_length_ranges"] = [list(r) for r in cfg["path_length_ranges"]]
    kw["path_length_factors"] = [kmpe.fnum(q) for q in cfg["path_length_factors"]]
    m = _path_safety.build_capturing(fp, cfg, lambda: fp.kMinPathError(**kw))
    klae_safety.record(m, cfg)
    return m


def to_request(cfg):
    r = klae.common_request(cfg, "lp.kmpe")
    r["path_length_ranges"] = [[str(a), str(b)] for a, b in cfg["path_length_ranges"]]
    r["path_length_factors"] = cfg["path_length_factors"]
    return _path_safety.request("lp.kmpe.safety", r, cfg)


def features(cfg):
    return _path_safety.features(cfg) + klae.features(cfg)
