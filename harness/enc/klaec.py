"""K2 adapter for kLeastAbsErrorsCycles (edge mode, safety optimisations off)."""
from fpv.common import qstr, frac
from . import _walk


def gen_cfg(rng):
    cfg = _walk.base_cfg(rng, "klaec")
    edges = [tuple(e) for e in cfg["edges"]]
    f, walks = _walk.error_flow(rng, cfg)
    if "deep_tail" in cfg.get("graph_tags", []) and rng.random() < 0.8:
        # the largest value sits at the far end of the tail (or of the way in)
        heads = {v for _, v in edges}; tails = {u for u, _ in edges}
        far = [e for e in edges if e[1] not in tails] if rng.random() < 0.7 else [e for e in edges if e[0] not in heads]
        if far:
            f[far[0]] = max(f.values()) + rng.choice([1, 2, 5, 9])
    _walk.add_ignore(rng, cfg)
    ign = {tuple(e) for e in cfg["ignore"]}
    for e in ign:                                     # ignored edges escape the non-negativity check
        if rng.random() < 0.1:
            f[e] = -f[e] - 1
    cfg["flow"] = [[u, v, qstr(f[(u, v)])] for (u, v) in edges if not ((u, v) in ign and rng.random() < 0.3)]
    _walk.add_scaling(rng, cfg)
    _walk.add_constraints(rng, cfg, walks)
    if rng.random() < 0.12:
        cfg["k"] = None                               # the class takes the width
    return cfg


def build_real(fp, cfg):
    G = _walk.build_graph(cfg)
    wint = cfg["weight_type"] == "int"
    m = fp.kLeastAbsErrorsCycles(G=G, flow_attr="flow", k=cfg["k"], weight_type=int if wint else float,
                                 error_scaling={(u, v): float(frac(q)) for u, v, q in cfg["scaling"]},
                                 **_walk.common_kwargs(cfg))
    cfg["_k"] = m.k
    return m


def to_request(cfg):
    return _walk.request("lp.klaec", cfg)


def branches(cfg, m):
    t = _walk.core_branches(cfg, m)
    qs = [q for _, _, q in cfg["scaling"]]
    if "0" in qs:
        t.append("scaling=0(edge ignored)")
    if any(q in ("1/4", "1/2") for q in qs):
        t.append("scaling_fractional")
    if "1" in qs:
        t.append("scaling=1_explicit")
    if not qs:
        t.append("no_scaling")
    if any(u == "zz_no" for u, _, _ in cfg["scaling"]):
        t.append("scaling_key_not_an_edge")
    have = {(u, v) for u, v, _ in cfg["flow"]}
    if any(tuple(e) not in have for e in cfg["edges"]):
        t.append("ignored_edge_without_attr(weight 0 in max-reachable)")
    ign = {tuple(e) for e in cfg["ignore"]} | {(u, v) for u, v, q in cfg["scaling"] if q == "0"}
    fl = {(u, v): frac(q) for u, v, q in cfg["flow"]}
    act = [fl[e] for e in fl if e not in ign]
    if any(fl[e] > max(act) for e in fl if e in ign):
        t.append("ignored_edge_flow_above_active_max(enters caps)")
    if cfg["weight_type"] == "int" and any(frac(q).denominator != 1 for _, _, q in cfg["flow"]):
        t.append("int_type_over_float_flow(floor)")
    if any(frac(q) == 0 for _, _, q in cfg["flow"]):
        t.append("zero_flow_edge")
    if any(frac(q) < 0 for _, _, q in cfg["flow"]):
        t.append("negative_flow_on_ignored_edge")
    t.append("k=None(width)" if cfg["k"] is None else "k_given")
    return t
