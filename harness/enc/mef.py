"""K2 adapter for MinErrorFlow (edge mode).

Stage 1 (the LP at the first `optimize`) is built by the constructor. When `few_flow_values_epsilon` is given
the adapter runs `solve()` with `SolverWrapper.optimize` wrapped: the first call is executed (its objective
value is recorded), the second call is aborted with a private exception, which leaves the freshly built
second-stage LP in `model.solver`. The recorded float objective value travels to the Lean generator as an
exact rational; `nvals` is `len(model.all_flow_values_indexes)`. If the float product `(1 + eps) * objective`
is not exact, the float actually used is handed over as `bound_float`."""
import atexit
from collections import Counter
from fractions import Fraction
import networkx as nx
from fpv import gen
from fpv.common import qstr, frac

HIST = Counter()
atexit.register(lambda: HIST and print("branches:", dict(sorted(HIST.items()))))


class _Stop(Exception):
    pass


def gen_cfg(rng):
    cyc = rng.random() < 0.45
    if cyc:
        nodes, edges = gen.digraph_scc(rng, max_nodes=6)
    else:
        nodes, edges = gen.dag(rng, max_nodes=6)
    edges = [list(e) for e in edges]
    wint = rng.random() < 0.5
    vals = list(range(0, 10)) if wint else [0.0, 0.5, 1.0, 1.5, 2.25, 3.0, 4.0, 6.5, 8.0]
    mode = rng.random()
    if mode < 0.3 and not cyc:
        # a conserving flow, perturbed on a few edges
        f, _, _ = gen.flow_from_paths(rng, nodes, [tuple(e) for e in edges], wtype=int if wint else float,
                                      weights=(1, 2, 3, 5) if wint else (0.5, 1.0, 1.5, 2.25))
        flow = {tuple(e): f[tuple(e)] for e in edges}
        for e in flow:
            if rng.random() < 0.4:
                flow[e] = flow[e] + rng.choice(vals[1:4])
    else:
        flow = {tuple(e): rng.choice(vals) for e in edges}
    if rng.random() < 0.04:
        e = tuple(rng.choice(edges)); flow[e] = -flow[e] - 1      # a negative observation (not checked by the class)
    ignore = []
    if rng.random() < 0.35:
        ignore = [list(e) for e in edges if rng.random() < 0.3]
    missing = [list(e) for e in ignore if rng.random() < 0.5]      # ignored edges may lack the attribute
    if rng.random() < 0.03:
        missing.append(list(rng.choice(edges)))                     # ValueError unless ignored
    scaling = []
    if rng.random() < 0.35:
        scaling = [[e[0], e[1], qstr(rng.choice([0, 0.25, 0.5, 1, 0.75]))] for e in edges if rng.random() < 0.4]
        if rng.random() < 0.15:
            scaling.append([nodes[0], nodes[0] + "_nowhere", "0"])  # key that is not an edge
        if rng.random() < 0.04 and scaling:
            scaling[0][2] = "3/2"                                   # out of range: ValueError
    starts = ends = []
    if rng.random() < 0.35:
        starts = [v for v in nodes if rng.random() < 0.25]
        ends = [v for v in nodes if rng.random() < 0.25]
    lam = "0"
    if rng.random() < (0.35 if not cyc else 0.04):
        lam = qstr(rng.choice([0.5, 1, 2, 0.25, -1]))
    eps = None
    if rng.random() < 0.45:
        # 0.1 is not dyadic: `1 + eps` rounds, which exercises the `bound_float` hand-over
        eps = qstr(rng.choice([0.25, 0.5, 1, 2, 0.25, 0.5, 0.125, 0, 0.1]))
    return {"class": "mef", "nodes": nodes, "edges": edges,
            "flow": [[u, v, qstr(flow[(u, v)])] for u, v in edges if [u, v] not in missing],
            "weight_type": "int" if wint else "float", "ignore": ignore, "scaling": scaling,
            "starts": starts, "ends": ends, "lambda": lam, "epsilon": eps}


def num(q, wint):
    f = frac(q)
    return int(f) if wint and f.denominator == 1 else float(f)


def build_real(fp, cfg):
    wint = cfg["weight_type"] == "int"
    G = nx.DiGraph()
    G.add_nodes_from(cfg["nodes"])
    for u, v in cfg["edges"]:
        G.add_edge(u, v)
    for u, v, q in cfg["flow"]:
        G[u][v]["flow"] = num(q, wint)
    lam = frac(cfg["lambda"])
    kw = dict(G=G, flow_attr="flow", flow_attr_origin="edge", weight_type=int if wint else float,
              sparsity_lambda=int(lam) if lam.denominator == 1 else float(lam),
              elements_to_ignore=[tuple(e) for e in cfg["ignore"]],
              error_scaling={(u, v): num(q, False) if frac(q).denominator != 1 else int(frac(q))
                             for u, v, q in cfg["scaling"]},
              additional_starts=list(cfg["starts"]), additional_ends=list(cfg["ends"]))
    if cfg["epsilon"] is not None:
        kw["few_flow_values_epsilon"] = float(frac(cfg["epsilon"]))
    m = fp.MinErrorFlow(**kw)
    cfg["_stage"] = 1
    cfg["_acyclic"] = bool(m.is_acyclic)
    if cfg["epsilon"] is None:
        return m
    SW = fp.utils.solverwrapper.SolverWrapper
    orig = SW.optimize
    state = {"n": 0}

    def wrapped(self):
        state["n"] += 1
        if state["n"] >= 2:
            raise _Stop()
        r = orig(self)
        state["status"] = self.get_model_status()
        if state["status"] == "kOptimal":
            state["obj"] = self.get_objective_value()
        return r

    SW.optimize = wrapped
    try:
        try:
            m.solve()
            cfg["_why1"] = ("eps==0" if frac(cfg["epsilon"]) == 0 else
                            "objective 0" if state.get("obj") == 0 else "status " + str(state.get("status")))
        except _Stop:
            cfg["_stage"] = 2
            obj = state["obj"]
            cfg["_objective_value"] = qstr(obj)
            cfg["_nvals"] = len(m.all_flow_values_indexes)
            used = (1 + float(frac(cfg["epsilon"]))) * obj
            exact = (1 + frac(cfg["epsilon"])) * frac(obj)
            cfg["_bound_float"] = None if frac(used) == exact else qstr(used)
    finally:
        SW.optimize = orig
    return m


def to_request(cfg):
    ac = cfg["_acyclic"]
    HIST["acyclic (stDAG)" if ac else "cyclic (raw graph)"] += 1
    HIST["weight_type=" + cfg["weight_type"]] += 1
    if cfg["ignore"]:
        HIST["elements_to_ignore"] += 1
    if len(cfg["flow"]) < len(cfg["edges"]):
        HIST["ignored edge without attribute"] += 1
    if cfg["scaling"]:
        HIST["error_scaling"] += 1
        if any(frac(q) == 0 for _, _, q in cfg["scaling"]):
            HIST["error_scaling with a 0 factor"] += 1
    if cfg["starts"] or cfg["ends"]:
        HIST["additional starts/ends, " + ("acyclic" if ac else "cyclic (dropped)")] += 1
    lam = frac(cfg["lambda"])
    if lam > 0:
        HIST["sparsity_lambda > 0"] += 1
    elif lam < 0:
        HIST["sparsity_lambda < 0 (acyclic: silently no term)"] += 1
    if any(frac(q) < 0 for _, _, q in cfg["flow"]):
        HIST["negative flow value"] += 1
    if any(u == v for u, v in cfg["edges"]):
        HIST["self loop"] += 1
    if cfg["epsilon"] is not None:
        if cfg["_stage"] == 2:
            HIST["stage 2 LP compared"] += 1
            HIST["stage 2 nvals=%d" % min(cfg["_nvals"], 6)] += 1
            if cfg["_bound_float"] is not None:
                HIST["stage 2 bound needed the float product"] += 1
            if Fraction(cfg["_objective_value"]).denominator not in (1, 2, 4, 8):
                HIST["stage 2 objective value not a small dyadic"] += 1
        else:
            HIST["epsilon given but stage 1 only: " + cfg["_why1"]] += 1
    HIST["stage 1 LP compared"] += cfg["_stage"] == 1
    r = {"op": "lp.mef", "nodes": cfg["nodes"], "edges": cfg["edges"], "flow": cfg["flow"],
         "ignore": cfg["ignore"], "scaling": cfg["scaling"], "starts": cfg["starts"], "ends": cfg["ends"],
         "weight_type": cfg["weight_type"], "lambda": cfg["lambda"], "stage": cfg["_stage"]}
    if cfg["_stage"] == 2:
        r.update(epsilon=cfg["epsilon"], objective_value=cfg["_objective_value"], nvals=cfg["_nvals"],
                 bound_float=cfg["_bound_float"])
    return r
