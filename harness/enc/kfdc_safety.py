"""K2 adapter for kFlowDecompCycles (edge mode) with random subsets of the safety optimisations ON."""
from fpv import gen
from fpv.common import qstr, frac
from . import _walk, _safety


def gen_cfg(rng):
    cfg = _walk.base_cfg(rng, "kfdc_safety")
    cfg["k"] = rng.randint(1, 4)
    edges = [tuple(e) for e in cfg["edges"]]
    wint = cfg["weight_type"] == "int"
    if wint or rng.random() < 0.4:
        f, walks, ws = gen.walk_flow_cyc(rng, cfg["nodes"], edges, cfg["starts"], cfg["ends"], weights=(1, 2, 3), wtype=int)
    else:
        f, walks, ws = gen.walk_flow_cyc(rng, cfg["nodes"], edges, cfg["starts"], cfg["ends"], weights=_walk.DYADIC, wtype=float)
    if rng.random() < 0.15:                           # perturbed flow: zero-flow edges leave the trusted set
        e = rng.choice(edges); f[e] = 0
    _walk.add_ignore(rng, cfg, p=0.25)
    ign = {tuple(e) for e in cfg["ignore"]}
    cfg["flow"] = [[u, v, qstr(f[(u, v)])] for (u, v) in edges if not ((u, v) in ign and rng.random() < 0.4)]
    _walk.add_constraints(rng, cfg, walks)
    cfg["safety"] = _safety.gen_safety(rng)
    s = cfg["safety"]
    if not s["safe_sequences"] and not s["as_subset"] and rng.random() < 0.5:   # what MinFlowDecompCycles does
        n = rng.randint(1, cfg["k"])
        pool = [frac(x) for x in (ws or [1])] + [frac(1), frac(2)]
        cfg["given_weights"] = [qstr(rng.choice(pool)) for _ in range(n)]
    return cfg


def build_real(fp, cfg):
    G = _walk.build_graph(cfg)
    wint = cfg["weight_type"] == "int"
    kw = _safety.kwargs(cfg)
    if cfg.get("given_weights") is not None:
        kw["optimization_options"]["given_weights"] = [_walk.num(q, wint) for q in cfg["given_weights"]]
    return _safety.build_capturing(fp, cfg, lambda: fp.kFlowDecompCycles(
        G=G, flow_attr="flow", k=cfg["k"], weight_type=int if wint else float, **kw))


def to_request(cfg):
    return _safety.request("lp.kfdc.safety", cfg)


def features(cfg):
    return _safety.features(cfg)
