"""K2 adapter for kFlowDecompCycles (edge mode, safety optimisations off)."""
from fpv import gen
from fpv.common import qstr, frac
from . import _walk


def gen_cfg(rng):
    cfg = _walk.base_cfg(rng, "kfdc")
    edges = [tuple(e) for e in cfg["edges"]]
    wint = cfg["weight_type"] == "int"
    r = rng.random()
    if wint or r < 0.4:
        f, walks, ws = gen.walk_flow_cyc(rng, cfg["nodes"], edges, cfg["starts"], cfg["ends"], weights=(1, 2, 3), wtype=int)
    else:
        f, walks, ws = gen.walk_flow_cyc(rng, cfg["nodes"], edges, cfg["starts"], cfg["ends"], weights=_walk.DYADIC, wtype=float)
    if wint and rng.random() < 0.08:                 # int weight type over float data: w_max = k * int(max)
        e = rng.choice(edges); f[e] = f[e] + 0.5
    _walk.add_ignore(rng, cfg)
    ign = {tuple(e) for e in cfg["ignore"]}
    # ignored edges may lack the attribute (their cap is then w_max)
    for e in ign:                                     # ignored edges escape the non-negativity check
        if rng.random() < 0.1:
            f[e] = -f[e] - 1
    cfg["flow"] = [[u, v, qstr(f[(u, v)])] for (u, v) in edges if not ((u, v) in ign and rng.random() < 0.4)]
    _walk.add_constraints(rng, cfg, walks)
    if rng.random() < 0.3:
        n = rng.randint(1, cfg["k"])
        pool = [frac(x) for x in (ws or [1])] + [frac(1), frac(2)]
        cfg["given_weights"] = [qstr(rng.choice(pool)) for _ in range(n)]
    return cfg


def build_real(fp, cfg):
    G = _walk.build_graph(cfg)
    wint = cfg["weight_type"] == "int"
    kw = _walk.common_kwargs(cfg)
    if cfg.get("given_weights") is not None:
        kw["optimization_options"]["given_weights"] = [_walk.num(q, wint) for q in cfg["given_weights"]]
    return fp.kFlowDecompCycles(G=G, flow_attr="flow", k=cfg["k"], weight_type=int if wint else float, **kw)


def to_request(cfg):
    return _walk.request("lp.kfdc", cfg)


def branches(cfg, m):
    t = _walk.core_branches(cfg, m)
    t.append("given_weights" if cfg.get("given_weights") is not None else "no_given_weights")
    have = {(u, v) for u, v, _ in cfg["flow"]}
    if any(tuple(e) not in have for e in cfg["edges"]):
        t.append("ignored_edge_without_attr(cap=w_max)")
    if cfg["weight_type"] == "int" and any(frac(q).denominator != 1 for _, _, q in cfg["flow"]):
        t.append("int_type_over_float_flow(floor)")
    if any(frac(q) == 0 for _, _, q in cfg["flow"]):
        t.append("zero_flow_edge")
    if any(frac(q) < 0 for _, _, q in cfg["flow"]):
        t.append("negative_flow_on_ignored_edge")
    return t
