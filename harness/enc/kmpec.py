"""K2 adapter for kMinPathErrorCycles (edge mode, safety optimisations off, no percentiles).
`k = None` lets the class choose k (the width); the adapter reads `model.k` and passes it to the Lean side."""
from fpv.common import qstr, frac
from . import _walk
from . import klaec as _klaec


def gen_cfg(rng):
    cfg = _klaec.gen_cfg(rng)
    cfg["class"] = "kmpec"
    if rng.random() < 0.25:
        cfg["k"] = None
    return cfg


def build_real(fp, cfg):
    G = _walk.build_graph(cfg)
    wint = cfg["weight_type"] == "int"
    m = fp.kMinPathErrorCycles(G=G, flow_attr="flow", k=cfg["k"], weight_type=int if wint else float,
                               error_scaling={(u, v): float(frac(q)) for u, v, q in cfg["scaling"]},
                               **_walk.common_kwargs(cfg))
    cfg["_k"] = m.k
    return m


def to_request(cfg):
    return _walk.request("lp.kmpec", cfg)


def branches(cfg, m):
    return _klaec.branches(cfg, m)
