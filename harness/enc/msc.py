"""K2 adapter for MinSetCover (`_encode_set_cover`, built by the constructor).

Elements travel as strings; on the python side digit strings become ints (so that the universe mixes ints and
strs), subsets are handed over as lists, sets or tuples. `subset_weights=None` (the documented default,
unit weights since fix 3364d5e) is sent to the Lean generator as `null`."""
import atexit
from collections import Counter
from fpv.common import qstr, frac

HIST = Counter()
atexit.register(lambda: HIST and print("branches:", dict(sorted(HIST.items()))))
POOL = ["1", "2", "3", "4", "5", "a", "b", "c", "x.0", "n1"]


def gen_cfg(rng):
    pool = rng.sample(POOL, rng.randint(1, 8))
    universe = [rng.choice(pool) for _ in range(rng.choice([0, 1, 2, 3, 4, 5, 6, 3, 4, 5]))]
    if rng.random() < 0.7:
        universe = list(dict.fromkeys(universe))             # mostly without duplicates
    subsets = []
    for _ in range(rng.choice([0, 1, 2, 3, 4, 5, 6, 3, 4])):
        s = [x for x in pool if rng.random() < 0.45]
        if rng.random() < 0.15 and s:
            s.append(s[0])                                    # duplicate inside a list
        rng.shuffle(s)
        subsets.append(s)
    if rng.random() < 0.1 and subsets:
        subsets.append(list(subsets[0]))                      # repeated subset
    mode = rng.random()
    if mode < 0.15:
        weights = None
    elif mode < 0.5:
        weights = [qstr(rng.randint(1, 9)) for _ in subsets]
    elif mode < 0.8:
        weights = [qstr(rng.choice([0.5, 1.0, 1.5, 2.25, 4.0, 0.125])) for _ in subsets]
    else:
        weights = [qstr(rng.choice([0, -1, -2.5, 1, 3, 0.0])) for _ in subsets]
    if weights is not None and rng.random() < 0.08:
        weights = weights + ["7"]                             # longer than needed: the tail is never read
    return {"class": "msc", "universe": universe, "subsets": subsets, "weights": weights,
            "containers": [rng.choice(["list", "set", "tuple"]) for _ in subsets]}


def el(x):
    return int(x) if x.isdigit() else x


def num(q):
    f = frac(q)
    return int(f) if f.denominator == 1 else float(f)


def build_real(fp, cfg):
    conv = {"list": list, "set": set, "tuple": tuple}
    subsets = [conv[c]([el(x) for x in s]) for s, c in zip(cfg["subsets"], cfg["containers"])]
    kw = dict(universe=[el(x) for x in cfg["universe"]], subsets=subsets)
    if cfg["weights"] is not None:
        kw["subset_weights"] = [num(q) for q in cfg["weights"]]
    return fp.MinSetCover(**kw)


def to_request(cfg):
    u, ss = cfg["universe"], cfg["subsets"]
    HIST["weights=None (unit weights)" if cfg["weights"] is None else "explicit weights"] += 1
    if not u:
        HIST["empty universe"] += 1
    if not ss:
        HIST["no subsets"] += 1
    if len(set(u)) < len(u):
        HIST["duplicate universe entries"] += 1
    if any(all(x not in s for s in ss) for x in u):
        HIST["uncovered element (empty row)"] += 1
    if cfg["weights"] and any(frac(w) == 0 for w in cfg["weights"][:len(ss)]):
        HIST["zero weight"] += 1
    if cfg["weights"] and any(frac(w) < 0 for w in cfg["weights"][:len(ss)]):
        HIST["negative weight"] += 1
    if cfg["weights"] and any(frac(w).denominator != 1 for w in cfg["weights"][:len(ss)]):
        HIST["fractional weight"] += 1
    if cfg["weights"] and len(cfg["weights"]) > len(ss):
        HIST["more weights than subsets"] += 1
    if any(len(set(s)) < len(s) for s in ss):
        HIST["subset with repeated element"] += 1
    return {"op": "lp.msc", "universe": u, "subsets": ss, "weights": cfg["weights"]}
