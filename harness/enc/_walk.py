"""shared parts of the K2 adapters of the cyclic (walk) models: kfdc, kcoverc, klaec, kmpec.

Configuration (JSON-able): nodes/edges in networkx insertion order, `flow` = [[u, v, q], ...] for the edges that
carry the attribute (exact rationals as strings), `ignore`, `starts`, `ends`, `weight_type`, `k` (None = let the
class choose), `constraints`, `coverage`, `allow_empty`, `scaling` = [[u, v, q], ...], `given_weights`.
The three safety optimisations are always passed as False (the only configuration the Lean model covers)."""
import networkx as nx
from fpv import gen
from fpv.common import qstr, frac

SAFETY_OFF = {"optimize_with_safe_sequences": False,
              "optimize_with_safety_as_subset_constraints": False,
              "optimize_with_max_safe_antichain_as_subset_constraints": False}

DYADIC = (0.5, 1.0, 1.5, 2.25, 4.0)


def base_cfg(rng, cls, max_nodes=6):
    nodes, edges, starts, ends, tags = gen.digraph_cyc(rng, max_nodes=max_nodes)
    if rng.random() < 0.15:
        # a cycle followed by a tail of three or four edges (condensation depth >= 3 below the SCC): the cap of the cycle
        # edges is the largest value anywhere downstream / upstream, not just next to the SCC
        d = rng.randint(3, 4)
        names = gen.node_names(rng, 3 + d + rng.randint(0, 1))
        s_, a, b, tail = names[0], names[1], names[2], names[3:3 + d]
        edges = [(s_, a), (a, b), (b, a), (b, tail[0])] + list(zip(tail[:-1], tail[1:]))
        if len(names) > 3 + d:
            edges = [(names[-1], s_)] + edges          # ... and a longer way in
        if rng.random() < 0.3:
            edges.append((a, a))
        rng.shuffle(edges)
        nodes = list(names); rng.shuffle(nodes)
        starts, ends, tags = [], [], ["deep_tail"]
    cfg = {"class": cls, "nodes": nodes, "edges": [list(e) for e in edges], "starts": starts, "ends": ends,
           "graph_tags": tags, "k": rng.randint(1, 3), "weight_type": "int" if rng.random() < 0.5 else "float",
           "constraints": [], "coverage": "1", "ignore": [], "scaling": [], "flow": [], "given_weights": None,
           "allow_empty": rng.random() < 0.35}
    return cfg


def add_constraints(rng, cfg, walks=()):
    if rng.random() < 0.5:
        edges = [tuple(e) for e in cfg["edges"]]
        cfg["constraints"] = [[list(e) for e in c] for c in gen.subset_constraints_cyc(rng, edges, walks)]
        cfg["coverage"] = rng.choice(["1", "1", "1/4", "1/2", "3/4"])


def add_ignore(rng, cfg, p=0.35):
    """random ignore set that leaves at least one edge"""
    edges = cfg["edges"]
    if rng.random() < p and len(edges) > 1:
        keep = rng.randrange(len(edges))
        cfg["ignore"] = [list(e) for i, e in enumerate(edges) if i != keep and rng.random() < 0.3]
        cfg["_keep"] = edges[keep]


def num(q, wint):
    f = frac(q)
    return int(f) if wint and f.denominator == 1 else float(f)


def build_graph(cfg, attr="flow"):
    wint = cfg.get("weight_type") == "int"
    G = nx.DiGraph()
    G.add_nodes_from(cfg["nodes"])
    for u, v in cfg["edges"]:
        G.add_edge(u, v)
    for u, v, q in cfg.get("flow", []):
        G[u][v][attr] = num(q, wint)
    return G


def common_kwargs(cfg):
    opts = dict(SAFETY_OFF)
    opts["allow_empty_walks"] = bool(cfg["allow_empty"])
    return dict(subset_constraints=[[tuple(e) for e in c] for c in cfg["constraints"]],
                subset_constraints_coverage=float(frac(cfg["coverage"])),
                elements_to_ignore=[tuple(e) for e in cfg["ignore"]],
                additional_starts=list(cfg["starts"]), additional_ends=list(cfg["ends"]),
                optimization_options=opts)


def request(op, cfg):
    return {"op": op, "nodes": cfg["nodes"], "edges": cfg["edges"], "flow": cfg["flow"], "ignore": cfg["ignore"],
            "starts": cfg["starts"], "ends": cfg["ends"], "weight_type": cfg["weight_type"],
            "k": cfg["k"] if cfg.get("k") is not None else cfg.get("_k"),
            "constraints": cfg["constraints"], "coverage": cfg["coverage"], "allow_empty": cfg["allow_empty"],
            "scaling": cfg["scaling"], "given_weights": cfg.get("given_weights")}


def error_flow(rng, cfg):
    """arbitrary non-negative flow (ints, or dyadic floats in float mode), zeros included; sometimes a walk
    superposition perturbed on a few edges"""
    edges = [tuple(e) for e in cfg["edges"]]
    wint = cfg["weight_type"] == "int"
    r = rng.random()
    walks = []
    if r < 0.5:
        f, walks, _ = gen.walk_flow_cyc(rng, cfg["nodes"], edges, cfg["starts"], cfg["ends"],
                                        weights=(1, 2, 3) if wint else DYADIC, wtype=int if wint else float)
        for e in edges:
            if rng.random() < 0.25:
                f[e] = max(0, f[e] + rng.choice([-2, -1, 1, 3]))
    else:
        pool = (0, 0, 1, 2, 3, 5, 8) if (wint or rng.random() < 0.3) else (0, 0.5, 0.75, 1.5, 2.0, 2.25, 4.0, 6.5)
        f = {e: rng.choice(pool) for e in edges}
    if wint and rng.random() < 0.08:                 # int weight type over float data: w_max = k * int(max)
        e = rng.choice(edges); f[e] = f[e] + 0.5
    return f, walks


def add_scaling(rng, cfg, p=0.45):
    if rng.random() < p:
        keep = tuple(cfg.get("_keep") or cfg["edges"][0])
        for (u, v) in cfg["edges"]:
            if rng.random() < 0.4:
                q = rng.choice(["0", "1/4", "1/2", "1"])
                if q == "0" and (u, v) == keep:
                    q = "1/2"
                cfg["scaling"].append([u, v, q])
        if rng.random() < 0.1:
            cfg["scaling"].append(["zz_no", "zz_edge", rng.choice(["0", "1/2"])])   # a key that is not an edge


def core_branches(cfg, m):
    """tags of the encoder branches a configuration exercises (for the histogram)"""
    t = ["k=%d" % m.k, "weight_" + cfg["weight_type"], "allow_empty" if cfg["allow_empty"] else "nonempty_walks"]
    t += ["graph:" + x for x in cfg.get("graph_tags", [])]
    cons = cfg["constraints"]
    if cons:
        t.append("subset_constraints")
        t.append("coverage=" + cfg["coverage"])
        if any(len(set(map(tuple, c))) < len(c) for c in cons):
            t.append("constraint_with_duplicates")
        sets = [set(map(tuple, c)) for c in cons]
        if any(sets[i] & sets[j] for i in range(len(sets)) for j in range(i + 1, len(sets))):
            t.append("overlapping_constraints")
    else:
        t.append("no_subset_constraints")
    if cfg["ignore"]:
        t.append("ignore_set")
    ub = m.edge_upper_bounds
    scc = {e: m.G.is_scc_edge(*e) for e in m.G.edges()}
    if any(scc.values()):
        t.append("has_scc_edge")
    if any(scc[e] and ub[e] == 0 for e in ub):
        t.append("scc_edge_cap=0")
    if any(scc[e] and ub[e] == 1 for e in ub):
        t.append("scc_edge_cap=1")
    if any(scc[e] and ub[e] > 1 for e in ub):
        t.append("scc_edge_cap>1")
    if any(scc[e] and ub[e] != int(ub[e]) for e in ub):
        t.append("scc_edge_cap_fractional")          # cannot occur since fix fcfd0b0 (the caps of SCC edges are floored)
    flow = {(u, v): frac(q) for u, v, q in cfg.get("flow", [])}
    if any(scc[e] and e in flow and flow[e].denominator != 1 for e in ub):
        t.append("scc_edge_flow_fractional(cap_floored)")
    if any(scc[e] and e[0] == e[1] for e in ub):
        t.append("self_loop_is_scc_edge")
    if any(not scc[e] for e in ub if e not in m.G.source_sink_edges):
        t.append("non_scc_base_edge(cap:=1)")
    if hasattr(m, "w_max"):
        w = m.w_max
        if w == 0:
            t.append("w_max=0(zero_bits)")
        elif w != int(w):
            t.append("w_max_fractional(numBitsRat)")
        else:
            t.append("w_max_integer")
    return t
