"""shared parts of the K2 adapters of the DAG (path) models with the safety optimisations ON (kfd_safety, kcover_safety,
klae_safety, kmpe_safety).

The configuration of the option-free adapter plus `safety` = {flag: bool} for the six flags of AbstractPathModelDAG
(and `flow_safe` for kFlowDecomp's optimize_with_flow_safe_paths). `build_real` builds the REAL model with these flags
— the constructors exactly as they are in /repo — and captures what the Lean side takes as parameters (cfg["_cap"]): the
iteration order of the python set `trusted_edges_for_safety`, the flow-safe paths handed over as
`external_safe_paths` (a copy taken when they are computed: __init__ aliases and extends the list) and the paths of the
greedy decomposition they were computed from (the driver re-computes the scan on them and refuses the request if a
captured list is missing or if edges are ignored: the hypothesis `kfdExternalOK` of the kFlowDecomp theorem).

On this tree `create_solver_and_paths` never calls `_apply_safety_optimizations`: no row is added, nothing is fixed, and
the Lean generators (`kfdLPS`, `kcoverLPS`, ... with `pathSafetyPipeline`) only extend the subpath constraints under
`optimize_with_safety_as_subpath_constraints`. All six flags are sampled, so the tie breaks (rows `safe_list_*` /
`*_fix0`, simplified product rows) should the routine ever be wired in; `_cap` records `paths_to_fix` / `fix_rows` /
`zero` / `one` for the histogram."""
from fpv import lpdump

FLAGS = {"safe_paths": "optimize_with_safe_paths",
         "safe_sequences": "optimize_with_safe_sequences",
         "constraint_sequences": "optimize_with_subpath_constraints_as_safe_sequences",
         "zero_edges": "optimize_with_safe_zero_edges",
         "as_subpath": "optimize_with_safety_as_subpath_constraints",
         "largest_antichain": "optimize_with_safety_from_largest_antichain"}


def gen_safety(rng, conflicts=0.04):
    """random subset of the flags; safe paths and safe sequences exclude each other (ValueError) except in a few
    configurations that exercise the rejection"""
    s = {k: False for k in FLAGS}
    r = rng.random()
    if r < 0.42:
        s["safe_paths"] = True
    elif r < 0.80:
        s["safe_sequences"] = True
    elif r < 0.80 + conflicts:
        s["safe_paths"] = s["safe_sequences"] = True
    s["constraint_sequences"] = rng.random() < 0.5
    s["zero_edges"] = rng.random() < 0.5
    s["as_subpath"] = rng.random() < 0.45
    s["largest_antichain"] = rng.random() < 0.35
    return s


def options(cfg):
    opts = {FLAGS[k]: bool(v) for k, v in cfg["safety"].items()}
    if cfg["options"].get("allow_empty_paths") is not None:
        opts["allow_empty_paths"] = bool(cfg["options"]["allow_empty_paths"])
    return opts


def build_capturing(fp, cfg, ctor):
    """run `ctor()` (the real constructor); fill cfg['_cap']"""
    ren = lpdump.rename
    stdag = fp.stdag.stDAG
    sfd = fp.kflowdecomp.sfd
    orig_ac = stdag.compute_max_edge_antichain
    orig_fs = sfd.compute_flow_decomp_safe_paths
    rec = {"antichain_calls": 0, "external": None, "decomp_paths": None, "in_fs": False}
    orig_dec = stdag.decompose_using_max_bottleneck

    def dec(self, flow_attr):
        r = orig_dec(self, flow_attr)
        if rec["in_fs"]:
            rec["decomp_paths"] = [[ren(str(v)) for v in p] for p in r[0]]
        return r

    def ac(self, get_antichain=False, weight_function=None):
        if get_antichain and weight_function is not None:      # only `_get_paths_to_fix_from_safe_lists` calls it so
            rec["antichain_calls"] += 1
        return orig_ac(self, get_antichain=get_antichain, weight_function=weight_function)

    def fs(*a, **kw):
        rec["in_fs"] = True
        try:
            r = orig_fs(*a, **kw)
        finally:
            rec["in_fs"] = False
        rec["external"] = [[[ren(str(u)), ren(str(v))] for (u, v) in p] for p in r]
        return r
    stdag.compute_max_edge_antichain = ac
    stdag.decompose_using_max_bottleneck = dec
    sfd.compute_flow_decomp_safe_paths = fs
    try:
        m = ctor()
    finally:
        stdag.compute_max_edge_antichain = orig_ac
        stdag.decompose_using_max_bottleneck = orig_dec
        sfd.compute_flow_decomp_safe_paths = orig_fs
    rows = []
    if getattr(m, "solver", None) is not None:
        lp = m.solver.solver.getLp()
        rows = list(lp.row_names_)
    cfg["_cap"] = {
        "X": [[ren(str(u)), ren(str(v))] for (u, v) in m.trusted_edges_for_safety],
        "external": rec["external"], "decomp_paths": rec["decomp_paths"],
        "antichain_calls": rec["antichain_calls"],
        "safe_lists": len(getattr(m, "safe_lists", []) or []),
        "appended": len(m.subpath_constraints) - len(cfg["constraints"]),
        "paths_to_fix": len(getattr(m, "paths_to_fix", []) or []) if hasattr(m, "paths_to_fix") else None,
        "zero": len(m.edges_set_to_zero), "one": len(m.edges_set_to_one),
        "fix_rows": sum(1 for n in rows if n.startswith("safe_list_") or n.endswith("_fix0")),
    }
    return m


def request(op, base_request, cfg):
    req = dict(base_request, op=op)
    cap = cfg.get("_cap") or {"X": [], "external": None}
    req.update(safety=cfg["safety"], X=cap["X"], external=cap["external"], decomp_paths=cap.get("decomp_paths") or [])
    return req


def features(cfg):
    t = ["flag:" + k for k, v in sorted(cfg["safety"].items()) if v] or ["flags:none"]
    if cfg.get("flow_safe"):
        t.append("flag:flow_safe_paths")
        if cfg.get("_cap"):
            t.append("external:" + ("none" if cfg["_cap"]["external"] is None else "lists"))
    cap = cfg.get("_cap")
    if cap:
        t.append("safe_lists=%d" % min(cap["safe_lists"], 4))
        t.append("appended>0" if cap["appended"] else "appended=0")
        t.append("paths_to_fix:" + ("absent" if cap["paths_to_fix"] is None else str(min(cap["paths_to_fix"], 4))))
        t.append("zero>0" if cap["zero"] else "zero=0")
        t.append("one>0" if cap["one"] else "one=0")
        t.append("fix_rows>0" if cap["fix_rows"] else "fix_rows=0")
        t.append("antichain_calls>0" if cap["antichain_calls"] else "antichain_calls=0")
    if cfg["constraints"]:
        t.append("user_subpath_constraints")
    return t
