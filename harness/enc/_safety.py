"""shared parts of the K2 adapters with the safety optimisations ON (kcoverc_safety, kfdc_safety).

The configuration of `_walk` plus `safety` = {flag: bool} for the six flags of `_apply_safety_optimizations`.
`build_real` builds the REAL model with these flags and captures from the real run the three things the Lean side
takes as parameters: the iteration order of the python set `trusted_edges_for_safety`, the SCC numbering
`nx.condensation(G).graph["mapping"]` and the antichain returned by `compute_max_edge_antichain` of the expanded
condensation (as `K1.longest_incompatible` of props/c06.py). They are stored in cfg["_cap"]."""
from collections import deque
from fpv import lpdump
from fpv.common import Infra
from . import _walk

FLAGS = {"safe_sequences": "optimize_with_safe_sequences",
         "allow_geq": "optimize_with_safe_sequences_allow_geq_constraints",
         "via_bounds": "optimize_with_safe_sequences_fix_via_bounds",
         "fix_zero": "optimize_with_safe_sequences_fix_zero_edges",
         "as_subset": "optimize_with_safety_as_subset_constraints",
         "antichain_subset": "optimize_with_max_safe_antichain_as_subset_constraints"}


def gen_safety(rng):
    """random subset of the flags; at least one of the three main flags is on in 9 of 10 configurations"""
    r = rng.random()
    s = {k: False for k in FLAGS}
    if r < 0.55:
        s["safe_sequences"] = True
    elif r < 0.72:
        s["antichain_subset"] = True
    elif r < 0.85:
        s["as_subset"] = True
    elif r < 0.92:                                    # several main flags at once (the code's priority order decides)
        for k in ("safe_sequences", "as_subset", "antichain_subset"):
            s[k] = rng.random() < 0.6
    for k in ("allow_geq", "via_bounds", "fix_zero"):
        s[k] = rng.random() < 0.5
    return s


def options(cfg):
    opts = {FLAGS[k]: bool(v) for k, v in cfg["safety"].items()}
    opts["allow_empty_walks"] = bool(cfg["allow_empty"])
    return opts


def kwargs(cfg):
    kw = _walk.common_kwargs(cfg)
    kw["optimization_options"] = options(cfg)
    return kw


def t6_contracts(G, antichain):
    """the hypotheses of FP.Props.C05.*_full / C06.incompatible_sound about the two captured oracle parameters, by direct
    search on the real stDiGraph `G`: the numbering is an SCC numbering (else Infra: a networkx value), and the members
    of the antichain are pairwise unreachable in the expanded condensation (rebuilt from the numbering). Returns
    "ok" or "VIOLATED"."""
    nodes = list(G.nodes()); edges = list(G.edges()); lab = G._condensation.graph["mapping"]

    def reach(adj, a):
        seen = {a}; dq = deque([a])
        while dq:
            x = dq.popleft()
            for y in adj.get(x, []):
                if y not in seen:
                    seen.add(y); dq.append(y)
        return seen
    out = {}
    for (u, v) in edges:
        out.setdefault(u, []).append(v)
    R = {v: reach(out, v) for v in nodes}
    for u in nodes:
        for v in nodes:
            if (lab[u] == lab[v]) != (v in R[u] and u in R[v]):
                raise Infra(f"nx.condensation mapping is not an SCC numbering at {u},{v}")
    nontrivial = {lab[u] for (u, v) in edges if lab[u] == lab[v]}
    cadj = {}
    for (u, v) in edges:
        a, b = lab[u], lab[v]
        ce = ((f"{a}_expanded" if a in nontrivial else str(a)), str(b)) if a != b else (str(a), f"{a}_expanded")
        cadj.setdefault(ce[0], []).append(ce[1])
    anti = [(str(a), str(b)) for (a, b) in antichain]
    for a in anti:
        Ra = reach(cadj, a[1])
        if any(b != a and b[0] in Ra for b in anti):
            return "VIOLATED"
    return "ok"


def build_capturing(fp, cfg, ctor):
    """run `ctor()` (the real constructor) with `stDAG.compute_max_edge_antichain` wrapped; fill cfg['_cap']"""
    stdag = fp.stdag.stDAG
    orig = stdag.compute_max_edge_antichain
    rec = {"antichain": []}

    def wrapped(self, get_antichain=False, weight_function=None):
        r = orig(self, get_antichain=get_antichain, weight_function=weight_function)
        if get_antichain and weight_function is not None:
            rec["antichain"] = [[lpdump.rename(str(a)), lpdump.rename(str(b))] for (a, b) in r[1]]
            rec["raw"] = list(r[1])
        return r
    stdag.compute_max_edge_antichain = wrapped
    try:
        m = ctor()
    finally:
        stdag.compute_max_edge_antichain = orig
    ren = lpdump.rename
    cfg["_cap"] = {
        "X": [[ren(u), ren(v)] for (u, v) in m.trusted_edges_for_safety],
        "mapping": [[ren(v), int(c)] for v, c in m.G._condensation.graph["mapping"].items()],
        "antichain": rec["antichain"],
        "safe_lists": len(getattr(m, "safe_lists", []) or []),
        "walks_to_fix": len(getattr(m, "walks_to_fix", []) or []),
        "zero": len(m.edges_set_to_zero), "one": len(m.edges_set_to_one),
        "t6": t6_contracts(m.G, rec.get("raw", [])),
    }
    return m


def request(op, cfg):
    req = _walk.request(op, cfg)
    cap = cfg.get("_cap") or {"X": [], "mapping": [], "antichain": []}
    req.update(safety=cfg["safety"], X=cap["X"], mapping=cap["mapping"], antichain=cap["antichain"])
    return req


def features(cfg):
    t = ["flag:" + k for k, v in sorted(cfg["safety"].items()) if v] or ["flags:none"]
    cap = cfg.get("_cap")
    if cap:
        t.append("safe_lists=%d" % min(cap["safe_lists"], 4))
        t.append("walks_to_fix=%d" % min(cap["walks_to_fix"], 4))
        t.append("zero>0" if cap["zero"] else "zero=0")
        t.append("one>0" if cap["one"] else "one=0")
        t.append("t6_contracts:" + cap.get("t6", "unchecked"))
    if cfg["constraints"]:
        t.append("user_subset_constraints")
    if cfg.get("given_weights") is not None:
        t.append("given_weights")
    return t
