"""K2 adapter for kMinPathError: configuration -> real model (LP read through getLp) and -> driver request."""
from fpv import gen
from fpv.common import qstr, frac
from enc.kfd import num
from enc import klae
from enc.klae import features, SkipConfig  # noqa: F401  (features is used by the histogram tool)


def gen_cfg(rng):
    cfg = klae.common_cfg(rng, "kmpe")
    cfg["path_length_ranges"] = []
    cfg["path_length_factors"] = []
    # path_length_factors are only allowed with weight_type=int (a few float ones show the ValueError)
    if rng.random() < (0.4 if cfg["weight_type"] == "int" else 0.04):
        ranges, factors = gen.length_ranges(rng)
        cfg["path_length_ranges"] = ranges
        cfg["path_length_factors"] = [qstr(x) for x in factors]
    # k=None: the constructor takes the width of the graph (the adapter reads model.k back)
    if rng.random() < 0.1:
        cfg["k"] = None
    return cfg


def fnum(q):
    f = frac(q)
    return int(f) if f.denominator == 1 else float(f)


def build_real(fp, cfg):
    kw = klae.common_kwargs(cfg)
    kw["path_length_ranges"] = [list(r) for r in cfg["path_length_ranges"]]
    kw["path_length_factors"] = [fnum(q) for q in cfg["path_length_factors"]]
    m = fp.kMinPathError(**kw)
    klae.check_unmodelled(m, cfg)
    return m


def to_request(cfg):
    r = klae.common_request(cfg, "lp.kmpe")
    r["path_length_ranges"] = [[str(a), str(b)] for a, b in cfg["path_length_ranges"]]
    r["path_length_factors"] = cfg["path_length_factors"]
    return r
