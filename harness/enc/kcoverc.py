"""K2 adapter for kPathCoverCycles (cover_type="edge", safety optimisations off)."""
from . import _walk


def gen_cfg(rng):
    cfg = _walk.base_cfg(rng, "kcoverc")
    cfg["weight_type"] = "int"
    _walk.add_ignore(rng, cfg)
    _walk.add_constraints(rng, cfg)
    return cfg


def build_real(fp, cfg):
    G = _walk.build_graph(cfg)
    return fp.kPathCoverCycles(G=G, k=cfg["k"], cover_type="edge", **_walk.common_kwargs(cfg))


def to_request(cfg):
    return _walk.request("lp.kcoverc", cfg)


def branches(cfg, m):
    t = _walk.core_branches(cfg, m)
    if cfg["constraints"] and cfg["coverage"] == "1":
        t.append("coverage=1_with_constraints(dead_skip_branch)")
    return t
