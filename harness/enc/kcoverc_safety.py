"""K2 adapter for kPathCoverCycles (cover_type="edge") with random subsets of the safety optimisations ON."""
from . import _walk, _safety


def gen_cfg(rng):
    cfg = _walk.base_cfg(rng, "kcoverc_safety")
    cfg["weight_type"] = "int"
    cfg["k"] = rng.randint(1, 4)
    _walk.add_ignore(rng, cfg, p=0.25)
    _walk.add_constraints(rng, cfg)
    cfg["safety"] = _safety.gen_safety(rng)
    return cfg


def build_real(fp, cfg):
    G = _walk.build_graph(cfg)
    return _safety.build_capturing(fp, cfg, lambda: fp.kPathCoverCycles(G=G, k=cfg["k"], cover_type="edge", **_safety.kwargs(cfg)))


def to_request(cfg):
    return _safety.request("lp.kcoverc.safety", cfg)


def features(cfg):
    return _safety.features(cfg)
