"""K2 adapter for MinGenSet: the LP of `_create_solver(k)` (called directly for a chosen k) and the constructor's
preprocessing of `numbers`.

The order of `model.numbers` after `list(set(..) - set(..))` is hash order: it is read back from the real object
(`numbers_after`) and handed to the Lean generator, which uses it only if it is a permutation of its own
preprocessing result. The result of the preprocessing is compared as a multiset through pseudo columns `pre<i>`
(fixed at the i-th smallest number) that are appended on both sides."""
import atexit
from collections import Counter
from fpv.common import qstr, frac

HIST = Counter()
atexit.register(lambda: HIST and print("branches:", dict(sorted(HIST.items()))))


def _split(rng, total, parts, step):
    """`parts` non-negative multiples of `step` adding up to `total` (a multiple of step)"""
    units = int(frac(total) / frac(step))
    cuts = sorted(rng.randint(0, units) for _ in range(parts - 1))
    xs = [b - a for a, b in zip([0] + cuts, cuts + [units])]
    return [frac(step) * x for x in xs]


def gen_cfg(rng):
    dy = rng.random() < 0.3                      # dyadic (float) data
    step = frac("1/4") if dy else frac(1)
    r = rng.random()
    if r < 0.06:
        total = frac(rng.randint(0, 1))
    elif dy:
        total = frac(rng.randint(4, 60)) * step
    else:
        total = frac(rng.randint(2, 20))
    k0 = rng.randint(2, 5)
    base = _split(rng, total, k0, step)          # a hidden generating set
    numbers = []
    for _ in range(rng.choice([0, 1, 2, 3, 4, 5, 6, 7, 8, 4, 5, 6])):
        c = rng.random()
        if c < 0.6:
            numbers.append(sum(rng.sample(base, rng.randint(1, k0 - 1)), frac(0)))
        elif c < 0.72 and numbers:
            numbers.append(total - rng.choice(numbers))        # a complement
        elif c < 0.82 and numbers:
            numbers.append(rng.choice(numbers))                # a duplicate
        elif c < 0.87:
            numbers.append(total)
        elif c < 0.9:
            numbers.append(frac(0))
        else:
            numbers.append(frac(rng.randint(0, 12)) * step)
    mm = 1 if rng.random() < 0.6 else rng.randint(2, 4)
    part = None
    if rng.random() < (0.5 if mm == 1 else 0.04):
        if rng.random() < 0.08:
            part = []
        else:
            part = [_split(rng, total, rng.randint(1, 4), step) for _ in range(rng.randint(1, 3))]
            if rng.random() < 0.04:
                part[0][0] += step                               # sum != total: ValueError
    wint = rng.random() < 0.5
    return {"class": "mgs", "numbers": [qstr(x) for x in numbers], "total": qstr(total),
            "float_data": dy, "weight_type": "int" if wint else "float", "max_multiplicity": mm,
            "partition": None if part is None else [[qstr(x) for x in c] for c in part],
            "remove_complement": rng.random() < 0.8, "remove_sums_of_two": rng.random() < 0.3,
            "k": rng.randint(1, 5)}


def num(q, as_float):
    f = frac(q)
    return float(f) if as_float or f.denominator != 1 else int(f)


def build_real(fp, cfg):
    fl = cfg["float_data"]
    kw = dict(numbers=[num(q, fl) for q in cfg["numbers"]], total=num(cfg["total"], fl),
              weight_type=int if cfg["weight_type"] == "int" else float,
              max_multiplicity=cfg["max_multiplicity"],
              remove_complement_values=cfg["remove_complement"], remove_sums_of_two=cfg["remove_sums_of_two"])
    if cfg["partition"] is not None:
        kw["partition_constraints"] = [[num(q, fl) for q in c] for c in cfg["partition"]]
    m = fp.MinGenSet(**kw)
    m._create_solver(cfg["k"])
    cfg["_numbers_after"] = [qstr(x) for x in m.numbers]
    srt = sorted(float(x) for x in m.numbers)
    m.solver.add_variables(list(range(len(srt))), name_prefix="pre", lb=srt, ub=list(srt), var_type="continuous")
    return m


def to_request(cfg):
    n_in, n_out = len(cfg["numbers"]), len(cfg.get("_numbers_after", []))
    HIST["mult=1 (binary products)" if cfg["max_multiplicity"] == 1 else "mult>1 (integer products)"] += 1
    HIST["weight_type=" + cfg["weight_type"]] += 1
    HIST["data=" + ("dyadic floats" if cfg["float_data"] else "ints")] += 1
    HIST["remove_complement=" + str(cfg["remove_complement"])] += 1
    if cfg["remove_complement"] and cfg["max_multiplicity"] > 1:
        HIST["remove_complement with mult>1 (only 0/total/duplicates dropped)"] += 1
    if cfg["remove_complement"] and n_out < n_in:
        HIST["preprocessing removed something"] += 1
    if n_out == 0:
        HIST["no numbers left"] += 1
    if cfg["partition"] is None:
        HIST["partition=None"] += 1
    elif not cfg["partition"]:
        HIST["partition=[]"] += 1
    else:
        HIST["partition constraints"] += 1
        if len({len(c) for c in cfg["partition"]}) > 1:
            HIST["partition constraints of different lengths"] += 1
    if cfg["max_multiplicity"] > 1 and frac(cfg["total"]).denominator != 1:
        HIST["mult>1 with non-integer total"] += 1
    if n_out > 0 and sorted(cfg["_numbers_after"], key=frac) != cfg["_numbers_after"]:
        HIST["python list order is not the sorted order"] += 1
    HIST["k=%d" % cfg["k"]] += 1
    if cfg["k"] >= 3:
        HIST["symmetry rows (k>=3)"] += 1
    return {"op": "lp.mgs", "numbers": cfg["numbers"], "numbers_after": cfg.get("_numbers_after"),
            "total": cfg["total"], "weight_type": cfg["weight_type"], "max_multiplicity": cfg["max_multiplicity"],
            "partition": cfg["partition"], "remove_complement": cfg["remove_complement"], "k": cfg["k"]}
