"""K2 adapter for kPathCover (cover_type="edge"): configuration -> real model and -> driver request."""
from fpv import gen
from fpv.common import frac
from enc.kfd import build_graph
from enc.klae import SkipConfig


def gen_cfg(rng):
    nodes, edges = gen.dag(rng, max_nodes=7)
    cfg = {"class": "kcover", "nodes": nodes, "edges": [list(e) for e in edges], "flow": [],
           "weight_type": "int", "k": rng.randint(1, 4),
           "constraints": [], "coverage": "1", "coverage_length": None, "lengths": None,
           "ignore": [], "starts": [], "ends": [], "options": {}}
    if rng.random() < 0.35:
        ign = [e for e in edges if rng.random() < 0.3]
        cfg["ignore"] = [list(e) for e in ign]
    if rng.random() < 0.35:
        cfg["starts"] = rng.sample(nodes, rng.randint(0, min(2, len(nodes))))
        cfg["ends"] = rng.sample(nodes, rng.randint(0, min(2, len(nodes))))
    if rng.random() < 0.25:
        cfg["lengths"] = [[u, v, rng.choice(["0", "1", "2", "3", "5", "1/2"])] for (u, v) in edges if rng.random() < 0.8]
    if rng.random() < 0.55:
        cfg["constraints"] = [[list(e) for e in c] for c in gen.subpaths(rng, nodes, edges, contiguous=rng.random() < 0.7)]
        r = rng.random()
        if r < 0.35:
            cfg["coverage"] = rng.choice(["1/2", "3/4", "1/4"])
        elif r < 0.65:
            if cfg["lengths"] is None:
                cfg["lengths"] = [[u, v, rng.choice(["0", "1", "2", "3", "5"])] for (u, v) in edges if rng.random() < 0.8]
            cfg["coverage_length"] = rng.choice(["1", "1/2", "3/4"])
    r = rng.random()
    if r < 0.3:
        cfg["options"]["allow_empty_paths"] = True
    elif r < 0.4:
        cfg["options"]["allow_empty_paths"] = False
    r = rng.random()
    if r < 0.12:
        cfg["options"]["optimize_with_safe_paths"] = False
    elif r < 0.22:
        cfg["options"]["optimize_with_safe_paths"] = False
        cfg["options"]["optimize_with_safe_sequences"] = True
    elif r < 0.25:
        cfg["options"]["optimize_with_safe_sequences"] = True      # conflict with the default safe paths
    if rng.random() < 0.15:
        cfg["options"]["optimize_with_safe_zero_edges"] = rng.random() < 0.5
    if rng.random() < 0.1:
        cfg["options"]["optimize_with_subpath_constraints_as_safe_sequences"] = rng.random() < 0.5
    return cfg


def build_real(fp, cfg):
    kw = dict(G=build_graph(cfg), k=cfg["k"], cover_type="edge",
              subpath_constraints=[[tuple(e) for e in c] for c in cfg["constraints"]],
              subpath_constraints_coverage=float(frac(cfg["coverage"])),
              elements_to_ignore=[tuple(e) for e in cfg["ignore"]],
              additional_starts=list(cfg["starts"]), additional_ends=list(cfg["ends"]),
              optimization_options=dict(cfg["options"]))
    if cfg.get("coverage_length") is not None:
        kw["subpath_constraints_coverage_length"] = float(frac(cfg["coverage_length"]))
    if cfg.get("lengths") is not None:
        kw["length_attr"] = "length"
    m = fp.kPathCover(**kw)
    if m.subpath_constraints != [[tuple(e) for e in c] for c in cfg["constraints"]]:
        raise SkipConfig("safe lists appended to the subpath constraints (not modelled)")
    if m.edges_set_to_zero or m.edges_set_to_one:
        raise SkipConfig("edge variables fixed by safety (not modelled)")
    return m


def to_request(cfg):
    return {"op": "lp.kcover", "nodes": cfg["nodes"], "edges": cfg["edges"], "flow": [],
            "ignore": cfg["ignore"], "starts": cfg["starts"], "ends": cfg["ends"],
            "weight_type": "int", "k": cfg["k"],
            "allow_empty": bool(cfg["options"].get("allow_empty_paths", False)),
            "constraints": cfg["constraints"], "coverage": cfg["coverage"],
            "coverage_length": cfg["coverage_length"], "lengths": cfg["lengths"]}


def features(cfg):
    fs = [f"k={cfg['k']}"]
    if cfg["ignore"]: fs.append("ignore")
    if cfg["starts"] or cfg["ends"]: fs.append("starts/ends")
    if cfg["constraints"]: fs.append("constraints")
    if cfg["constraints"] and cfg["coverage"] == "1": fs.append("constraints_with_coverage=1")
    if cfg["constraints"] and cfg["coverage"] != "1": fs.append("coverage<1")
    if cfg["constraints"] and cfg["coverage_length"] is not None: fs.append("coverage_length")
    if cfg["lengths"] is not None: fs.append("length_attr")
    if cfg["options"].get("allow_empty_paths"): fs.append("allow_empty")
    return fs
