"""development tool:  /venv/bin/python harness/k2hist.py <enc module> [n] [seed ...]
runs the K2 loop of k2test.py for several seeds and prints, next to the outcome counts, a histogram of the
encoder branches (the adapter's `features(cfg)`) over the configurations whose LPs compared equal"""
import sys, random, importlib
sys.path.insert(0, __file__.rsplit("/", 1)[0])
from fpv import common
from k2test import k2_once

if __name__ == "__main__":
    name = sys.argv[1]
    n = int(sys.argv[2]) if len(sys.argv) > 2 else 300
    seeds = [int(s) for s in sys.argv[3:]] or [0]
    mod = importlib.import_module("enc." + name)
    ok, log = common.lean_build(("fpdriver",))
    if not ok:
        print(log[-3000:]); sys.exit(2)
    fp = common.import_flowpaths()
    d = common.Driver()
    hist, errs_by_kind = {}, {}
    tot = {"equal": 0, "different": 0, "constructor_errors": 0}
    for seed in seeds:
        rng = random.Random(seed)
        c = {"equal": 0, "different": 0, "constructor_errors": 0}
        for _ in range(n):
            cfg = mod.gen_cfg(rng)
            try:
                df = k2_once(fp, d, mod, cfg)
            except common.Infra:
                raise
            except Exception as e:
                c["constructor_errors"] += 1
                key = type(e).__name__ + ": " + str(e)[:70]
                errs_by_kind[key] = errs_by_kind.get(key, 0) + 1
                continue
            if df is None:
                c["equal"] += 1
                for f in mod.features(cfg):
                    hist[f] = hist.get(f, 0) + 1
            else:
                c["different"] += 1
        print(f"seed={seed}: " + " ".join(f"{k}={v}" for k, v in c.items()))
        for k in tot:
            tot[k] += c[k]
    print("total: " + " ".join(f"{k}={v}" for k, v in tot.items()))
    for k, v in sorted(errs_by_kind.items(), key=lambda x: -x[1]):
        print("   ", v, k)
    print("branch histogram over equal cases:")
    for k, v in sorted(hist.items()):
        print(f"    {k:32s} {v}")
