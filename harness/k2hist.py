"""development tool:  /venv/bin/python harness/k2hist.py <enc module> [n] [seed] [--mutate]
K2 loop as k2test.py, plus (a) a histogram of the encoder branches exercised (`mod.branches(cfg, model)`) and
(b) with --mutate a sensitivity check: the *request* sent to the Lean driver is perturbed in one parameter
(the real model is left alone) and the tool counts how often the comparison notices."""
import sys, json, random, copy
sys.path.insert(0, __file__.rsplit("/", 1)[0])
from fpv import common, lpdump
import importlib


def mutations(req, rng):
    """yield (name, mutated request) pairs that should change the LP"""
    out = []
    r = copy.deepcopy(req); r["allow_empty"] = not r["allow_empty"]; out.append(("allow_empty", r))
    r = copy.deepcopy(req); r["k"] = r["k"] + 1; out.append(("k", r))
    if req["constraints"]:
        r = copy.deepcopy(req); r["coverage"] = {"1": "1/2"}.get(r["coverage"], "1"); out.append(("coverage", r))
        r = copy.deepcopy(req); r["constraints"] = r["constraints"][:-1]; out.append(("drop_constraint", r))
    if req["flow"] and req["op"] != "lp.kcoverc":
        r = copy.deepcopy(req); i = rng.randrange(len(r["flow"]))
        r["flow"][i][2] = str(common.frac(r["flow"][i][2]) + 1); out.append(("flow+1", r))
        r = copy.deepcopy(req); r["weight_type"] = "float" if r["weight_type"] == "int" else "int"; out.append(("weight_type", r))
    if req["starts"]:
        r = copy.deepcopy(req); r["starts"] = r["starts"][1:]; out.append(("drop_start", r))
    if req["ends"]:
        r = copy.deepcopy(req); r["ends"] = r["ends"][1:]; out.append(("drop_end", r))
    if req["ignore"]:
        r = copy.deepcopy(req); r["ignore"] = r["ignore"][1:]; out.append(("drop_ignore", r))
    if req["scaling"]:
        r = copy.deepcopy(req); r["scaling"] = r["scaling"][1:]; out.append(("drop_scaling", r))
    if req.get("given_weights"):
        r = copy.deepcopy(req); r["given_weights"] = None; out.append(("drop_given_weights", r))
    # a back edge turns non-SCC edges into SCC edges (caps); reversing an edge changes the graph
    r = copy.deepcopy(req); e = r["edges"][rng.randrange(len(r["edges"]))]
    if e[0] != e[1] and [e[1], e[0]] not in r["edges"]:
        r["edges"].append([e[1], e[0]]); out.append(("add_back_edge", r))
    return out


if __name__ == "__main__":
    args = [a for a in sys.argv[1:] if not a.startswith("--")]
    mutate = "--mutate" in sys.argv
    name = args[0]
    n = int(args[1]) if len(args) > 1 else 200
    seed = int(args[2]) if len(args) > 2 else 0
    mod = importlib.import_module("enc." + name)
    ok, log = common.lean_build(("fpdriver",))
    if not ok:
        print(log[-3000:]); sys.exit(2)
    fp = common.import_flowpaths()
    d = common.Driver()
    rng = random.Random(seed)
    mrng = random.Random(seed + 7)
    good = bad = errs = 0
    hist, kinds, sizes = {}, {}, []
    mut = {}
    for it in range(n):
        cfg = mod.gen_cfg(rng)
        try:
            m = mod.build_real(fp, cfg)
        except Exception as e:
            errs += 1
            k = type(e).__name__ + ": " + str(e)[:80]
            kinds[k] = kinds.get(k, 0) + 1
            continue
        m.solver._apply_pending_bound_updates()
        a = lpdump.from_highs(m.solver.solver)
        req = mod.to_request(cfg)
        b = lpdump.from_driver(d.call(req))
        sizes.append(len(a))
        if a == b:
            good += 1
            for t in mod.branches(cfg, m):
                hist[t] = hist.get(t, 0) + 1
        else:
            bad += 1
            if bad <= 3:
                print("CFG", json.dumps(cfg)); print(json.dumps(lpdump.diff(a, b), indent=1))
        if mutate:
            for mn, r in mutations(req, mrng):
                try:
                    b2 = lpdump.from_driver(d.call(r))
                except common.Infra as e:
                    b2 = ["<driver error>"]
                s = mut.setdefault(mn, [0, 0])
                s[0] += 1
                s[1] += (a != b2)
    print(f"equal={good} different={bad} constructor_errors={errs}  lp_items(min/median/max)="
          f"{min(sizes)}/{sorted(sizes)[len(sizes)//2]}/{max(sizes)}")
    for k, v in sorted(kinds.items(), key=lambda x: -x[1])[:8]:
        print("  ", v, k)
    print("branch histogram (equal cases):")
    for k, v in sorted(hist.items()):
        print(f"  {v:5d}  {k}")
    if mutate:
        print("request mutations noticed / tried:")
        for k, (t, c) in sorted(mut.items()):
            print(f"  {k:22s} {c}/{t}")
