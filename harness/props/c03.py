"""C03 — MinFlowDecomp (DAG) always finds a decomposition and it has the fewest paths.

Proof: FP/Props/C03.lean — the kFlowDecomp MILP for k is feasible iff a k-path decomposition exists
(kfd_complete / kfd_sound / kfd_feasible_iff, subpath constraints at coverage 1 and both weight types included),
the box w <= w_max loses nothing (decomp_bound_wlog), k -> k+1 (decomp_monotone), the stop-search returns the
minimum when the lower bound is valid (mfd_search_minimal / mfd_search_finds / mfd_solve_returns_min), the
log2 and antichain lower bounds are valid (lb_log_valid, lb_antichain_valid, lowerboundK_valid), and a conserving
non-negative flow always has a decomposition into at most |E| paths - |E| + #constraints with subpath constraints
(flow_decomposition_exists, mfd_total, mfd_total_constraints) -, so the modelled solve(), searching
range(lb, |E| + #constraints + 1), succeeds with the minimum (mfd_solve_succeeds).
Tie:
  K1  get_lowerbound_k() of the real class vs the Lean op `mfd.lowerbound` (width captured from the real
      stDAG.get_width call - made with ignored + synthetic edges; log term over non-ignored values, max, range end
      computed by Lean) + the antichain the code
      itself extracts certifies the captured width (|A| = width, pairwise on no common path);
  K1.greedy  the kFlowDecomp constructor's greedy shortcut (fired or not, stored paths and weights, solved flag), built
      directly for a k around the number of greedy paths and inside MinFlowDecomp.solve(), vs the Lean op `greedy.shortcut`;
  K2  the LP of every kFlowDecomp model built inside MinFlowDecomp.solve equals Lean's kfdLP(inp.withK k);
  K3  search traces of MinFlowDecomp under injected solver statuses (machinery of props/c13.py);
  K5  brute-force minimum flow decomposition (independent oracle, exact arithmetic) vs solve()/get_solution()
      and vs get_lowerbound_k(), over option combinations, subpath constraints, ignored elements, node weights.
"""
import itertools, json, math, random
from fractions import Fraction
import networkx as nx
from fpv import gen, models, lpdump, inject
from fpv.common import frac, qstr
from props import c13

THEOREMS = ["FP.Props.C03.kfd_complete", "FP.Props.C03.kfd_sound", "FP.Props.C03.kfd_feasible_iff",
            "FP.Props.C03.decomp_weights_le_wmax", "FP.Props.C03.decomp_bound_wlog",
            "FP.Props.C03.decomp_monotone", "FP.Props.C03.mfd_search_minimal", "FP.Props.C03.mfd_search_finds",
            "FP.Props.C03.lb_log_valid", "FP.Props.C03.lb_log_subset_sums", "FP.Props.C03.lb_antichain_valid",
            "FP.Props.C03.lowerboundK_valid", "FP.Props.C03.mfd_solve_returns_min",
            "FP.Props.C03.flow_decomposition_exists", "FP.Props.C03.mfd_total",
            "FP.Props.C03.mfd_total_constraints", "FP.Props.C03.coverable_necessary", "FP.Props.C03.mfd_solve_succeeds",
            "FP.Props.C03.lb_constraints_valid", "FP.Props.C03.search_range_too_small_witness",
            "FP.Props.C03.search_range_regression", "FP.Props.C03.ignored_values_witness",
            "FP.Props.C03.mingenset_exit_witness",
            "FP.Props.C03.greedy_shortcut_sound", "FP.Props.C03.greedy_shortcut_minimal",
            "FP.Props.C03.shortcut_agrees_with_search", "FP.Props.C03.greedy_shortcut_constraints", "FP.Props.C17.greedy_exact",
            "FP.Props.C02.kfd_exact", "FP.Props.C13.search_sound", "FP.Props.C13.search_complete"]
IMPORTS = ["FP.Props.C03", "FP.Props.C02", "FP.Props.C13", "FP.Props.C17", "FP.Model.GreedyShortcut", "FP.Proofs.GreedyShortcut"]
RULE = ("K5: random DAGs with 2-6 nodes and <= 7 edges (plus single edges, stars, several sources/sinks, occasionally "
        "isolated nodes, graphs whose optimum is |E|), flows = superpositions of weighted source-to-sink paths (weights from "
        "{1,2,3,5,8} or dyadic floats), optionally subpath constraints (coverage 1), ignored edges with arbitrary flow, node "
        "weights with missing attributes / ignored nodes; every instance is solved under several option combinations; a case "
        "= (instance, options); non-trivial iff the brute-force minimum is >= 2. K1: same generators up to 8 nodes; "
        "non-trivial iff the bound exceeds 1 or a non-default option is active. K1.greedy: the edge-weighted generators "
        "(constraints, coverage 1 / 0.75 / 0.5 / 0.25, ignored edges, optimize_with_greedy off in 15%), a case = (instance, k) "
        "with k = #greedy paths + {-1,0,1,2} or a whole MinFlowDecomp.solve(); non-trivial iff the shortcut fired or a feature is "
        "present. K3: a case = (instance, fault plan).")
MODEL_SCOPE = ("modelled and proven: the plain route of MinFlowDecomp.solve (lower bound as a function of its ingredients, "
               "range(lb, |E|+1), stop-search over kFlowDecomp MILPs, k-model feasibility <-> existence of a k-path "
               "decomposition); modelled as opaque inputs: stDAG.get_width (certified per run by the code's own antichain), "
               "MinGenSet, subgraph scanning; the greedy shortcut of the kFlowDecomp constructor (guard: optimize_with_greedy, "
               "no ignored edges, conservation; greedy peeling of C17; empty result; subpath-constraint coverage test; "
               "len(paths) <= k, padding with paths[0] / weight 0) is modelled on edge-weighted input (greedyShortcut) and "
               "proven to return a k-path decomposition that is minimum when k is a valid lower bound; not modelled: "
               "given-weights shortcut (covered by the end-to-end oracle only), the shortcut on node-weighted input "
               "(condensation of the internal paths), node expansion (C11), relaxed coverage in the MILP")
TRUSTED = ["HiGHS reports kOptimal/kInfeasible truthfully on these small MILPs (the end-to-end oracle re-checks every answer "
           "against an exact brute-force minimum)",
           "greedy_shortcut_minimal takes the validity of the lower bound k (width) as a hypothesis: discharged by lb_antichain_valid "
           "+ the per-run antichain certificate of K1; the topological order max_bottleneck_path iterates in is captured "
           "from the real call and checked against the IsTopo contract by the driver"]
ASSUMPTIONS = ["float weights: dyadic flow values, so the exact-arithmetic oracle and the floating-point model see the same instance",
               "lowerbound_k, when passed by the caller, is a valid lower bound (the harness passes values <= the true minimum)"]

INT_W = (1, 2, 3, 5, 8)
FLT_W = (0.5, 1.0, 1.5, 0.25, 2.75, 4.0)


# =====================================================================================================
#  independent oracle: brute-force minimum flow decomposition (written against the property text)
# =====================================================================================================

def enum_paths(nodes, edges, starts=(), ends=()):
    """all source-to-sink paths of the DAG (source: no in-edge or a declared additional start, sink: no out-edge or a declared
    additional end); an isolated node is a one-node path"""
    succ = {v: [] for v in nodes}
    indeg = {v: 0 for v in nodes}
    for u, v in edges:
        succ[u].append(v); indeg[v] += 1
    out = []

    def rec(p):
        if not succ[p[-1]] or p[-1] in ends:
            out.append(tuple(p))
        for w in succ[p[-1]]:
            rec(p + [w])
    for s in nodes:
        if indeg[s] == 0 or s in starts:
            rec([s])
    return out


def oracle_data(inst):
    """(active elements, target value per element) of the part of the input that has to be explained"""
    if inst.get("origin", "edge") == "node":
        ign = set(inst.get("ignore", []))
        tgt = {v: frac(q) for v, q in inst["node_flow"] if v not in ign}
    else:
        ign = {tuple(e) for e in inst.get("ignore", [])}
        tgt = {(u, v): frac(q) for u, v, q in inst["flow"] if (u, v) not in ign}
    return list(tgt), tgt


def elements_of(path, origin):
    return set(path) if origin == "node" else set(zip(path[:-1], path[1:]))


def solve_weights(cols, active, tgt, wint):
    """non-negative weights (integers if wint) with sum_j w_j [el in cols[j]] = tgt[el] for every active element, or None.
    Exact Gauss-Jordan over Fractions; dependent columns: integer case enumerates the free weights inside their
    bounds, rational case declines (a basic solution on fewer columns exists and is found there)."""
    n = len(cols)
    rows = [[Fraction(1 if el in c else 0) for c in cols] + [tgt[el]] for el in active]
    piv, r = [], 0
    for c in range(n):
        pr = next((i for i in range(r, len(rows)) if rows[i][c] != 0), None)
        if pr is None:
            continue
        rows[r], rows[pr] = rows[pr], rows[r]
        pv = rows[r][c]
        rows[r] = [x / pv for x in rows[r]]
        for i in range(len(rows)):
            if i != r and rows[i][c] != 0:
                fac = rows[i][c]
                rows[i] = [a - fac * b for a, b in zip(rows[i], rows[r])]
        piv.append(c); r += 1
    if any(rows[i][n] != 0 for i in range(r, len(rows))):
        return None
    free = [c for c in range(n) if c not in piv]

    def ok(w):
        return all(x >= 0 for x in w) and (not wint or all(x.denominator == 1 for x in w))
    if not free:
        w = [None] * n
        for i, c in enumerate(piv):
            w[c] = rows[i][n]
        return w if ok(w) else None
    if not wint:
        return None
    bounds = [int(min(tgt[el] for el in cols[c])) for c in free]
    for vals in itertools.product(*[range(b + 1) for b in bounds]):
        w = [None] * n
        for c, v in zip(free, vals):
            w[c] = Fraction(v)
        for i, c in enumerate(piv):
            w[c] = rows[i][n] - sum(rows[i][fc] * Fraction(v) for fc, v in zip(free, vals))
        if ok(w):
            return w
    return None


def min_cover(uncovered, covers, npaths):
    """fewest additional paths such that every constraint index in `uncovered` is contained in one of them"""
    if not uncovered:
        return 0, ()
    for size in range(1, len(uncovered) + 1):
        for S in itertools.combinations(range(npaths), size):
            if all(any(covers[c][j] for j in S) for c in uncovered):
                return size, S
    return None, None


def brute_min(inst):
    """minimum number of weighted source-to-sink paths (weights >= 0 of the requested type) explaining every
    non-ignored element exactly and containing every subpath constraint in some path; None if there is none"""
    origin = inst.get("origin", "edge")
    wint = inst["weight_type"] == "int"
    nodes, edges = inst["nodes"], [tuple(e) for e in inst["edges"]]
    paths = enum_paths(nodes, edges, set(inst.get("starts", [])), set(inst.get("ends", [])))
    active, tgt = oracle_data(inst)
    aset = set(active)
    cols = [elements_of(p, origin) & aset for p in paths]
    pedges = [set(zip(p[:-1], p[1:])) for p in paths]
    cons = [[tuple(e) for e in c] for c in inst.get("constraints", [])]
    covers = [[all(e in pedges[j] for e in c) for j in range(len(paths))] for c in cons]
    if any(not any(cv) for cv in covers):
        return None
    useful = [j for j in range(len(paths)) if cols[j]]
    best = None
    for size in range(0, len(useful) + 1):
        if best is not None and size >= best["k"]:
            break
        for T in itertools.combinations(useful, size):
            w = solve_weights([cols[j] for j in T], active, tgt, wint)
            if w is None:
                continue
            unc = [c for c in range(len(cons)) if not any(covers[c][j] for j in T)]
            extra, S = min_cover(unc, covers, len(paths))
            if extra is None:
                continue
            if best is None or size + extra < best["k"]:
                best = {"k": size + extra, "paths": [list(paths[j]) for j in T] + [list(paths[j]) for j in S],
                        "weights": [qstr(x) for x in w] + ["0"] * extra}
    return best


# =====================================================================================================
#  generators
# =====================================================================================================

def small_dag(rng, max_edges=7):
    r = rng.random()
    if r < 0.08:                                   # single edge
        nodes = gen.node_names(rng, 2); return nodes, [(nodes[0], nodes[1])]
    if r < 0.2:                                    # star: optimum = |E|
        n = rng.randint(3, 6); nodes = gen.node_names(rng, n)
        c, leaves = nodes[0], nodes[1:]
        kind = rng.choice(["out", "in", "mixed"])
        edges = [(c, x) if kind == "out" or (kind == "mixed" and i % 2) else (x, c) for i, x in enumerate(leaves)]
        rng.shuffle(nodes); return nodes, edges
    if r < 0.28:                                   # disjoint pieces: several sources and sinks, optimum = |E| for matchings
        n = rng.choice([4, 6]); nodes = gen.node_names(rng, n)
        edges = [(nodes[i], nodes[i + 1]) for i in range(0, n, 2)]
        if rng.random() < 0.5 and n == 6:
            edges.append((nodes[0], nodes[3]))
        return nodes, edges
    for _ in range(100):
        nodes, edges = gen.dag(rng, n=rng.choice([2, 3, 4, 4, 5, 5, 6, 6]), p=rng.choice([0.3, 0.45, 0.6, 0.8]),
                               min_edges=rng.choice([1, 3, 4]))
        if len(edges) <= max_edges:
            break
    else:
        edges = edges[:max_edges]
    if rng.random() < 0.85:                        # isolated nodes only occasionally
        touched = {x for e in edges for x in e}
        nodes = [v for v in nodes if v in touched]
    return nodes, edges


def planted_flow(rng, nodes, edges, wint, element="edge"):
    """superposition of weighted source-to-sink paths covering every edge (and every node, for node weights)"""
    allp = [list(p) for p in enum_paths(nodes, edges)]
    chosen, left_e = [], set(edges)
    left_n = set(nodes) if element == "node" else set()
    pool = list(allp); rng.shuffle(pool)
    for p in pool:
        pe = set(zip(p[:-1], p[1:]))
        if (pe & left_e) or (set(p) & left_n) or not chosen:
            if element == "edge" and not pe:
                continue
            chosen.append(p); left_e -= pe; left_n -= set(p)
    for _ in range(rng.choice([0, 0, 1, 2])):
        p = rng.choice(allp)
        if element == "node" or len(p) > 1:
            chosen.append(p)
    W = INT_W if wint else FLT_W
    ws = [rng.choice(W) for _ in chosen]
    fe = {e: 0 for e in edges}; fn = {v: 0 for v in nodes}
    for p, w in zip(chosen, ws):
        for e in zip(p[:-1], p[1:]):
            fe[e] += w
        for v in p:
            fn[v] += w
    return fe, fn, chosen, ws


def edge_instance(rng, features=True, allow_isolated=True):
    nodes, edges = small_dag(rng)
    if not allow_isolated:
        touched = {x for e in edges for x in e}
        nodes = [v for v in nodes if v in touched]
    wint = rng.random() < 0.65
    fe, _, planted, ws = planted_flow(rng, nodes, edges, wint)
    inst = {"cls": "MinFlowDecomp", "nodes": list(nodes), "edges": [list(e) for e in edges], "origin": "edge",
            "weight_type": "int" if wint else "float", "constraints": [], "coverage": "1", "ignore": [],
            "flow": [[u, v, qstr(fe[(u, v)])] for (u, v) in edges], "planted": len(planted)}
    if features:
        r = rng.random()
        if r < 0.3:
            inst["constraints"] = [[list(e) for e in c] for c in
                                   gen.subpaths(rng, nodes, edges, contiguous=rng.random() < 0.7) if c]
        elif r < 0.42:
            # extra ignored edges (shortcuts in topological order) carrying fresh distinct values: the ignored part
            # must not influence the answer
            order = list(nx.topological_sort(nx.DiGraph(list(edges)))) if edges else []
            cand = [(order[i], order[j]) for i in range(len(order)) for j in range(i + 1, len(order))
                    if (order[i], order[j]) not in edges]
            rng.shuffle(cand)
            extra = cand[:rng.randint(1, 4)]
            base = max(frac(q) for _, _, q in inst["flow"])
            for t, e in enumerate(extra):
                inst["edges"].append(list(e)); inst["ignore"].append(list(e))
                inst["flow"].append([e[0], e[1], qstr(base + (t + 1) * (1 if wint else frac(0.5)))])
        elif r < 0.6 and len(edges) >= 2:
            ig = rng.sample(edges, rng.randint(1, max(1, len(edges) // 3)))
            inst["ignore"] = [list(e) for e in ig]
            # the flow on ignored edges is arbitrary
            bump = [1, 2, 7] if wint else [0.5, 1.0, 3.25]
            inst["flow"] = [[u, v, (qstr(frac(q) + frac(rng.choice(bump))) if (u, v) in ig and rng.random() < 0.7 else q)]
                            for u, v, q in inst["flow"]]
    if rng.random() < 0.3:
        # the graph "was read from a file and then edited": stale n / m / w / constraints metadata
        inst["stale_file_attrs"] = {"n": len(inst["nodes"]) + rng.randint(0, 3), "m": len(inst["edges"]) + rng.randint(0, 4),
                                    "w": rng.randint(1, 6), "constraints": []}
    return inst


def detour_instance(rng):
    """two planted paths: one takes the detour u -> x -> v, the other the shortcut u -> v; the subpath constraint runs from the
    first path's entry edge through the shortcut, so no path of the greedy / unconstrained minimum contains it and the
    constrained minimum needs one more path"""
    w1, w2 = rng.sample([1, 2, 3, 5], 2)
    fl = {("a", "u"): w1, ("u", "x"): w1, ("x", "v"): w1, ("b", "u"): w2, ("u", "v"): w2, ("v", "t"): w1 + w2}
    if rng.random() < 0.5:                       # a tail behind the junction
        fl[("t", "z")] = w1 + w2
    edges = list(fl); nodes = sorted({x for e in edges for x in e})
    rng.shuffle(edges); rng.shuffle(nodes)
    wint = rng.random() < 0.7
    return {"cls": "MinFlowDecomp", "nodes": nodes, "edges": [list(e) for e in edges], "origin": "edge",
            "weight_type": "int" if wint else "float", "constraints": [[["a", "u"], ["u", "v"]]], "coverage": "1", "ignore": [],
            "flow": [[u, v, qstr(frac(fl[(u, v)]) * (1 if wint else frac(0.5)))] for (u, v) in edges], "planted": 2}


def node_instance(rng):
    for _ in range(50):
        nodes, edges = small_dag(rng)
        if len(nodes) <= 6:
            break
    wint = rng.random() < 0.7
    _, fn, planted, ws = planted_flow(rng, nodes, edges, wint, element="node")
    inst = {"cls": "MinFlowDecomp", "nodes": list(nodes), "edges": [list(e) for e in edges], "origin": "node",
            "weight_type": "int" if wint else "float", "constraints": [], "coverage": "1", "ignore": [],
            "node_flow": [[v, qstr(fn[v])] for v in nodes], "planted": len(planted)}
    r = rng.random()
    if r < 0.35 and len(nodes) >= 2:               # nodes without the attribute
        drop = set(rng.sample(nodes, rng.randint(1, max(1, len(nodes) // 3))))
        inst["node_flow"] = [x for x in inst["node_flow"] if x[0] not in drop]
        inst["missing_attr"] = sorted(drop)
    elif r < 0.6 and len(nodes) >= 2:              # explicitly ignored nodes, arbitrary value on them
        ig = rng.sample(nodes, rng.randint(1, max(1, len(nodes) // 3)))
        inst["ignore"] = list(ig)
        bump = [1, 2, 7] if wint else [0.5, 3.25]
        inst["node_flow"] = [[v, (qstr(frac(q) + frac(rng.choice(bump))) if v in ig and rng.random() < 0.7 else q)]
                             for v, q in inst["node_flow"]]
    elif r < 0.8 and edges:
        inst["constraints"] = [[list(e) for e in c] for c in gen.subpaths(rng, nodes, edges, contiguous=True) if c]
    if not inst["node_flow"] or all(v in inst["ignore"] for v, _ in inst["node_flow"]):
        inst["ignore"] = []
        inst["node_flow"] = [[v, qstr(fn[v])] for v in nodes]
    return inst


def node_ends_instance(rng):
    """node-weighted input in which one planted path stops (or begins) at an inner node that is declared as an additional end
    (start): only a path ending (starting) there explains the values"""
    for _ in range(200):
        nodes, edges = small_dag(rng)
        if len(nodes) > 6 or not edges:
            continue
        wint = rng.random() < 0.7
        _, _, chosen, ws = planted_flow(rng, nodes, edges, wint, element="node")
        cand = [j for j, p in enumerate(chosen) if len(p) >= 2]
        if not cand:
            continue
        j = rng.choice(cand); p = chosen[j]
        cut = rng.randint(1, len(p) - 1)
        starts, ends = [], []
        if rng.random() < 0.6:
            chosen[j] = p[:cut]; ends = [p[cut - 1]]
        else:
            chosen[j] = p[cut:]; starts = [p[cut]]
        if rng.random() < 0.3:                      # a declared node that no planted path needs
            (starts if rng.random() < 0.5 else ends).append(rng.choice(nodes))
        fn = {v: 0 for v in nodes}
        for q, w in zip(chosen, ws):
            for v in q:
                fn[v] += w
        if any(fn[v] == 0 for v in nodes):
            continue
        return {"cls": "MinFlowDecomp", "nodes": list(nodes), "edges": [list(e) for e in edges], "origin": "node",
                "weight_type": "int" if wint else "float", "constraints": [], "coverage": "1", "ignore": [],
                "starts": sorted(set(starts)), "ends": sorted(set(ends)),
                "node_flow": [[v, qstr(fn[v])] for v in nodes], "planted": len(chosen)}
    return node_instance(rng)


def many_paths_instance():
    """directed: the complete DAG on 6 nodes without (v0,v5),(v0,v4),(v1,v5) has 12 edges and 13 source-to-sink paths;
    every path is a subpath constraint and carries weight 1, so a decomposition exists and every decomposition
    satisfying the constraints needs 13 > |E| paths"""
    nodes = [f"v{i}" for i in range(6)]
    drop = {(0, 5), (0, 4), (1, 5)}
    edges = [(nodes[i], nodes[j]) for i in range(6) for j in range(i + 1, 6) if (i, j) not in drop]
    paths = enum_paths(nodes, edges)
    f = {e: 0 for e in edges}
    for p in paths:
        for e in zip(p[:-1], p[1:]):
            f[e] += 1
    return {"cls": "MinFlowDecomp", "nodes": nodes, "edges": [list(e) for e in edges], "origin": "edge",
            "weight_type": "int", "constraints": [[list(e) for e in zip(p[:-1], p[1:])] for p in paths],
            "coverage": "1", "ignore": [], "flow": [[u, v, qstr(f[(u, v)])] for (u, v) in edges], "planted": len(paths)}


def option_sets(rng, kmin, thorough):
    base = [{}, {"optimize_with_greedy": False}]
    more = [{"use_min_gen_set_lowerbound": True},
            {"use_min_gen_set_lowerbound": True, "optimize_with_greedy": False},
            {"optimize_with_guessed_weights": True},
            {"optimize_with_guessed_weights": True, "use_min_gen_set_lowerbound": True},
            {"lowerbound_k": kmin}, {"lowerbound_k": max(1, kmin - 1), "optimize_with_greedy": False},
            {"use_min_gen_set_lowerbound": True, "use_min_gen_set_lowerbound_partition_constraints": True},
            # the safety machinery as constraints (what is "safe" must be judged on the part of the input that is not ignored)
            {"optimize_with_safety_as_subpath_constraints": True},
            {"optimize_with_safety_as_subpath_constraints": True, "optimize_with_flow_safe_paths": False,
             "optimize_with_safe_paths": True, "optimize_with_greedy": False},
            {"optimize_with_safety_as_subpath_constraints": True, "optimize_with_flow_safe_paths": False,
             "optimize_with_safe_paths": False, "optimize_with_safe_sequences": True}]
    return base + (more if thorough else rng.sample(more, 3))


# =====================================================================================================
#  running the real class (never lets exit(0) through)
# =====================================================================================================

class Capture:
    """records the width returned by the real stDAG.get_width and what _get_lowerbound_with_min_gen_set did"""

    def __init__(self, fp):
        self.fp = fp; self.widths = []; self.mgs = []

    def __enter__(self):
        st = self.fp.stdag.stDAG
        M = self.fp.MinFlowDecomp
        self._gw, self._mg = st.get_width, M._get_lowerbound_with_min_gen_set
        me = self

        def get_width(g, edges_to_ignore=None):
            r = me._gw(g, edges_to_ignore=edges_to_ignore)
            me.widths.append({"width": r, "graph": g, "ignore": list(edges_to_ignore or [])})
            return r

        def mgs(m):
            try:
                r = me._mg(m)
            except SystemExit as e:
                me.mgs.append(("exit", e.code)); raise
            me.mgs.append(("value", r))
            return r
        st.get_width, M._get_lowerbound_with_min_gen_set = get_width, mgs
        return self

    def __exit__(self, *a):
        self.fp.stdag.stDAG.get_width = self._gw
        self.fp.MinFlowDecomp._get_lowerbound_with_min_gen_set = self._mg
        return False


def real_lowerbound(ctx, inst, opts):
    """-> (model, outcome dict); outcome['result'] in value/ValueError/exit/ctor"""
    try:
        m = models.build(ctx.fp, inst, extra_opts=opts)
    except ValueError as e:
        return None, {"result": "ctor", "error": str(e)[:120]}
    out = {"result": None, "lb": None}
    with Capture(ctx.fp) as cap:
        try:
            out["lb"] = m.get_lowerbound_k(); out["result"] = "value"
        except SystemExit as e:
            out["result"] = "exit"; out["code"] = e.code
        except ValueError as e:
            out["result"] = "ValueError"; out["error"] = str(e)[:80]
    out["width"] = cap.widths[0]["width"] if cap.widths else None
    out["_cap"] = cap
    out["mgs"] = cap.mgs[0] if cap.mgs else None
    return m, out


def ignored_of(m):
    return set(m.edges_to_ignore)


def flows_of(m):
    """flow values of the non-ignored edges of the internal graph that carry the attribute"""
    attr, ign = m.flow_attr, ignored_of(m)
    return [qstr(d[attr]) for u, v, d in m.G.edges(data=True) if attr in d and (u, v) not in ign]


def lean_request(m, out, opts):
    return {"op": "mfd.lowerbound", "lowerbound_k": opts.get("lowerbound_k"), "flows": flows_of(m),
            "width": out["width"] if out["width"] is not None else 0,
            "ignore_empty": len(ignored_of(m)) == 0,
            "use_mgs": bool(opts.get("use_min_gen_set_lowerbound", False)),
            "mgs": (out["mgs"][1] if out["mgs"] and out["mgs"][0] == "value" else None),
            "use_scan": False, "scan": None, "num_edges": m.G.number_of_edges(),
            "num_constraints": len(m.subpath_constraints)}


def strip(inst):
    return {k: v for k, v in inst.items() if not k.startswith("_") and k != "planted"}


# =====================================================================================================
#  K1: get_lowerbound_k vs the Lean op, antichain certificate of the captured width
# =====================================================================================================

def antichain_link(ctx, m, out):
    """the width the code used is certified by the antichain the code itself extracts: |A| = width, A duplicate-free,
    pairwise on no common path; returns 'certified' when moreover A consists of non-ignored real edges carrying
    positive flow (the hypotheses of lb_antichain_valid), else the reason why not"""
    cap = out["_cap"]
    if not cap.widths:
        return "no width call"
    rec = cap.widths[0]
    g = rec["graph"]
    ign = set(rec["ignore"])
    if not set(g.source_sink_edges) <= ign:
        return "get_width was called without the synthetic source/sink edges in its ignore list"
    wf = {e: 1 for e in g.edges() if e not in ign}
    try:
        cost, A = g.compute_max_edge_antichain(get_antichain=True, weight_function=wf)
    except Exception as e:       # the real method failing on the weights get_width itself uses is a result, not a harness error
        return f"compute_max_edge_antichain raised {type(e).__name__}: {str(e)[:80]} on the weight function get_width builds"
    if cost != rec["width"] or len(A) != cost or len(set(A)) != len(A):
        return f"antichain {A} does not have the size of the width {rec['width']}"
    desc = {v: nx.descendants(g, v) | {v} for v in g.nodes()}
    for (a, b), (c, d) in itertools.combinations(A, 2):
        if c in desc[b] or a in desc[d]:
            return f"edges {(a, b)} and {(c, d)} of the extracted antichain lie on a common path"
    attr = m.flow_attr

    def real_pos(B):
        return all(e[0] != g.source and e[1] != g.sink and e not in ign and g.edges[e].get(attr, 0) > 0 for e in B)
    if real_pos(A):
        return "certified"
    # the code's antichain leans on synthetic / flow-less edges: is there one of the same size that does not?
    wf2 = {e: 1 for e in wf if e[0] != g.source and e[1] != g.sink and g.edges[e].get(attr, 0) > 0}
    try:
        cost2, A2 = g.compute_max_edge_antichain(get_antichain=True, weight_function=wf2) if wf2 else (0, [])
    except Exception as e:
        return f"compute_max_edge_antichain raised {type(e).__name__}: {str(e)[:80]}"
    ok2 = len(A2) == cost2 and len(set(A2)) == len(A2) and real_pos(A2) and \
        all(not (c in desc[b] or a in desc[d]) for (a, b), (c, d) in itertools.combinations(A2, 2))
    if ok2 and cost2 == rec["width"]:
        return "certified"
    return "width inflated by synthetic or flow-less edges"


LINK_OK = ("certified", "n/a", "no width call")


def k1_case(ctx, inst, opts, suite="K1.lowerbound"):
    m, out = real_lowerbound(ctx, inst, opts)
    desc = dict(strip(inst), options=opts)
    if m is None:
        ctx.rep.count(suite, desc, nontrivial=False, hist=["ctor ValueError"]); return None
    if out["width"] is None and out["result"] == "value":
        ctx.disagree(suite, desc, "get_width was not called", None); return None
    model = ctx.driver.call(lean_request(m, out, opts))
    ctx.rep.cov["traces_validated_against_impl"] += 1
    if out["mgs"] is not None and len(ignored_of(m)) > 0:
        ctx.disagree(suite, desc, "MinGenSet bound computed although elements are ignored", None)
    impl = {"result": out["result"], "lb": out["lb"]}
    if out["result"] == "value":
        impl["hi"] = ctx.model_hi("MinFlowDecomp", m)
    link = antichain_link(ctx, m, out) if (out["result"] == "value" and flows_of(m)) else "n/a"
    ctx.rep.count(suite, desc, nontrivial=(out["lb"] or 0) > 1 or bool(opts),
                  hist=[inst.get("origin", "edge"), out["result"], "antichain: " + (link if link in LINK_OK else "BROKEN")]
                  + sorted(opts) + (["ignore"] if inst.get("ignore") else []))
    want = {"result": model["result"], "lb": model["lb"]}
    if out["result"] == "value":
        want["hi"] = model["hi"]
    if impl != want:
        ctx.disagree(suite, desc, impl, model)
    if link not in LINK_OK:
        ctx.disagree(suite, desc, link, None, note="the code's own antichain does not certify the width it returned")
    return out


def run_k1(ctx):
    rng = ctx.rng
    for it in range(ctx.n(400, 6000)):
        r = rng.random()
        if r < 0.7:
            inst = edge_instance(rng) if rng.random() < 0.6 else big_edge_instance(rng)
        else:
            inst = node_instance(rng)
        opts = {}
        if rng.random() < 0.3:
            opts["lowerbound_k"] = rng.randint(1, 4)
        if rng.random() < 0.35:
            opts["use_min_gen_set_lowerbound"] = True
            if rng.random() < 0.3:
                opts["use_min_gen_set_lowerbound_partition_constraints"] = True
        out = k1_case(ctx, inst, opts)
        if it == 0 and out:
            ctx.rep.sample({"suite": "K1.lowerbound", "instance": strip(inst), "options": opts,
                            "lb": out["lb"], "width": out["width"]})
    # no element carries the attribute: the log term is skipped (before fix 01f9777: math.log2(0) raised)
    for it in range(ctx.n(3, 20)):
        inst = node_instance(rng)
        inst["node_flow"] = []; inst["ignore"] = []; inst["constraints"] = []
        k1_case(ctx, inst, {}, suite="K1.lowerbound")


def big_edge_instance(rng):
    nodes, edges = gen.dag(rng, n=rng.randint(4, 8), min_edges=4)
    wint = rng.random() < 0.6
    f, paths, ws = gen.flow_from_paths(rng, nodes, edges, weights=INT_W if wint else FLT_W, wtype=int if wint else float)
    edges = [e for e in edges if f[e] > 0]          # strictly positive flow: edges no planted path uses are dropped
    touched = {x for e in edges for x in e}
    nodes = [v for v in nodes if v in touched]
    inst = {"cls": "MinFlowDecomp", "nodes": list(nodes), "edges": [list(e) for e in edges], "origin": "edge",
            "weight_type": "int" if wint else "float", "constraints": [], "coverage": "1", "ignore": [],
            "flow": [[u, v, qstr(f[(u, v)])] for (u, v) in edges]}
    if rng.random() < 0.3:
        inst["ignore"] = [list(e) for e in rng.sample(edges, rng.randint(1, 2))]
    return inst


# =====================================================================================================
#  K2: the k-models built inside solve() are kfdLP(inp.withK k)
# =====================================================================================================

def run_k2(ctx):
    fp, rng = ctx.fp, ctx.rng
    suite = "K2.mfd_kmodels"
    for it in range(ctx.n(40, 500)):
        inst = edge_instance(rng, allow_isolated=False)
        if inst["ignore"] and rng.random() < 0.5:
            inst["ignore"] = []
        built = []
        orig = fp.kFlowDecomp.solve

        def solve(obj, *a, **k):
            if getattr(obj, "solver", None) is not None and obj.solution_weights_superset is None:
                obj.solver._apply_pending_bound_updates()
                built.append((obj.k, lpdump.from_highs(obj.solver.solver)))
            return orig(obj, *a, **k)
        fp.kFlowDecomp.solve = solve
        try:
            m = models.build(fp, inst, extra_opts={"optimize_with_greedy": False})
            try:
                m.solve()
            except SystemExit:
                pass
        except ValueError:
            continue
        finally:
            fp.kFlowDecomp.solve = orig
        for k, lp in built:
            req = {"op": "lp.kfd", "nodes": inst["nodes"], "edges": inst["edges"], "flow": inst["flow"],
                   "ignore": inst["ignore"], "weight_type": inst["weight_type"], "k": k,
                   "constraints": inst["constraints"], "coverage": "1", "coverage_length": None, "lengths": None,
                   "given_weights": None, "original_k": k}
            b = lpdump.from_driver(ctx.driver.call(req))
            ctx.rep.count(suite, [strip(inst), k], nontrivial=len(lp) > 8,
                          hist=["k-model"] + (["constraints"] if inst["constraints"] else []) + (["ignore"] if inst["ignore"] else []))
            ctx.rep.cov["traces_validated_against_impl"] += 1
            if lp != b:
                ctx.disagree(suite, dict(strip(inst), k=k), lpdump.diff(lp, b), None,
                             note="LP of the kFlowDecomp built inside MinFlowDecomp.solve differs from kfdLP(inp.withK k)")


# =====================================================================================================
#  K3: search traces (props/c13.py machinery)
# =====================================================================================================

def run_k3(ctx):
    fp, rng = ctx.fp, ctx.rng
    done = 0
    tries = 0
    while done < ctx.n(4, 16) and tries < 200:
        tries += 1
        inst = edge_instance(rng, allow_isolated=False)
        if inst["ignore"] or len(inst["edges"]) < 2:
            continue
        b = brute_min(inst)
        if b is None:
            continue
        G = models.graph_of(inst)
        wt = int if inst["weight_type"] == "int" else float
        cons = [[tuple(e) for e in c] for c in inst["constraints"]]
        greedy = rng.random() < 0.3
        mk = lambda: fp.MinFlowDecomp(G, flow_attr="flow", weight_type=wt, subpath_constraints=cons,
                                      optimization_options={"optimize_with_greedy": greedy},
                                      solver_options={"time_limit": 300})
        c13.sweep(ctx, "K3.MinFlowDecomp", "MinFlowDecomp", "stop", mk, [fp.kFlowDecomp],
                  lambda m: ctx.model_hi("MinFlowDecomp", m), dict(strip(inst), greedy=greedy), pairs=False)
        done += 1


# =====================================================================================================
#  K5: brute-force minimum vs solve()
# =====================================================================================================

def diagnose(inst, m, out, kmin):
    """which ingredient of the bound exceeds the true minimum (diagnosis only; the verdict is lb > kmin)"""
    d = []
    if out.get("width") is not None and out["width"] > kmin:
        d.append("width")
    vals = {int(frac(q)) for q in flows_of(m)}
    if vals and math.ceil(math.log2(len(vals))) > kmin:
        d.append("log")
    if out.get("mgs") and out["mgs"][0] == "value" and out["mgs"][1] is not None and out["mgs"][1] > kmin:
        d.append("mingenset")
    return d


def has_isolated(inst):
    touched = {x for e in inst["edges"] for x in e}
    return any(v not in touched for v in inst["nodes"])


def report(ctx, what, desc, site, suite):
    """forward a violation; identical signatures (site, kind, diagnosis, input features) are forwarded three times at most
    so that the engine's cap on stored violations cannot hide a different kind of failure behind repeats"""
    sig = (site, what.split(" ")[0:2], tuple(desc.get("diagnosis", [])), desc.get("origin"), bool(desc.get("isolated_node")),
           bool(desc.get("ignore")), bool(desc.get("missing_attr")), "exceeds the minimum" in what)
    key = json.dumps(sig)
    seen = ctx.__dict__.setdefault("_c03_seen", {})
    seen[key] = seen.get(key, 0) + 1
    h = ctx.rep.suite(suite)["histogram"]
    h["oracle failures"] = h.get("oracle failures", 0) + 1
    if seen[key] <= 3:
        ctx.violation(what, desc, site=site)


def k5_case(ctx, inst, opts, best=None, suite="K5.minimum"):
    fp = ctx.fp
    memo = ctx.__dict__.setdefault("_c03_done", {})
    mkey = json.dumps([strip(inst), opts], sort_keys=True, default=str)
    if mkey in memo:            # already judged in this run (replayed finding == directed case)
        return memo[mkey]
    memo[mkey] = None
    if best is None:
        best = brute_min(inst)
    if best is None or best["k"] == 0:
        ctx.rep.count(suite, [strip(inst), opts], nontrivial=False, hist=["no decomposition / empty"]); return
    kmin = best["k"]
    ctx.rep.cov["oracle_evaluations"] += 1
    desc = dict(strip(inst), options=opts, brute_force_minimum=kmin, brute_force_witness=best)
    m, out = real_lowerbound(ctx, inst, opts)
    hist = [inst.get("origin", "edge"), inst["weight_type"], f"min={min(kmin, 6)}"] + sorted(opts) \
        + (["constraints"] if inst.get("constraints") else []) + (["ignore"] if inst.get("ignore") else []) \
        + (["missing attr"] if inst.get("missing_attr") else []) + (["isolated node"] if has_isolated(inst) else []) \
        + (["min=|E|"] if kmin == len(inst["edges"]) else [])
    ctx.rep.count(suite, [strip(inst), opts], nontrivial=kmin >= 2, hist=hist)
    if m is None:
        report(ctx, f"MinFlowDecomp rejected a decomposable input: {out['error']}", desc, "MinFlowDecomp.__init__", suite)
        return
    desc["isolated_node"] = has_isolated(inst)
    desc["lowerbound"] = out["lb"]; desc["width"] = out["width"]
    if out["result"] == "exit":
        desc["diagnosis"] = ["exit"]
        report(ctx, "use_min_gen_set_lowerbound: _get_lowerbound_with_min_gen_set called exit(%r) because MinGenSet was not "
               "solved; the interpreter would have terminated inside get_lowerbound_k()/solve()" % (out.get("code"),),
               desc, "MinFlowDecomp._get_lowerbound_with_min_gen_set", suite)
        return
    if out["result"] != "value":
        desc["diagnosis"] = [out["result"]]
        report(ctx, f"get_lowerbound_k() raised {out['result']}: {out.get('error')}", desc, "MinFlowDecomp.get_lowerbound_k", suite)
        return
    desc["diagnosis"] = diagnose(inst, m, out, kmin)
    over = out["lb"] > kmin and not ("lowerbound_k" in opts and opts["lowerbound_k"] > kmin)
    if over:
        report(ctx, f"get_lowerbound_k() = {out['lb']} over-estimates: a decomposition with {kmin} path(s) exists "
               f"(terms above the minimum: {desc['diagnosis']})", desc, "MinFlowDecomp.get_lowerbound_k", suite)
    try:
        ok = bool(m.solve())
    except SystemExit as e:
        report(ctx, f"solve() called exit({e.code!r})", desc, "MinFlowDecomp._get_lowerbound_with_min_gen_set", suite); return
    if not ok:
        why = f" (lower bound {out['lb']} exceeds the minimum)" if over else ""
        report(ctx, f"solve() returned False although a decomposition with {kmin} path(s) exists; search range was "
               f"range({out['lb']}, {m.G.number_of_edges() + 1})" + why, desc, "MinFlowDecomp.solve", suite)
        return
    sol = m.get_solution()
    n = len(sol["paths"])
    desc["returned"] = {"paths": [list(p) for p in sol["paths"]], "weights": [qstr(w) for w in sol["weights"]]}
    if n != kmin:
        why = f" (lower bound {out['lb']} exceeds the minimum)" if over else ""
        report(ctx, f"solve() returned {n} paths, the minimum is {kmin}" + why, desc, "MinFlowDecomp.solve", suite)
    return n


def run_k5(ctx):
    rng = ctx.rng
    thorough = not ctx.quick()
    shown = 0
    # directed regression (fix e0ac661): more paths needed than there are edges (only possible with subpath
    # constraints); the minimum 13 lies in range(lb, |E| + #constraints + 1)
    inst = many_paths_instance()
    for opts in ([{"lowerbound_k": len(inst["edges"])}, {}] if thorough else [{"lowerbound_k": len(inst["edges"])}]):
        k5_case(ctx, inst, opts, None, suite="K5.minimum")
    for it in range(ctx.n(220, 2500)):
        r = rng.random()
        inst = detour_instance(rng) if it % 40 == 7 else node_ends_instance(rng) if it % 8 == 3 else \
            node_instance(rng) if r < 0.3 else edge_instance(rng)
        best = brute_min(inst)
        if best is None:
            continue
        for opts in option_sets(rng, best["k"], thorough and it % 3 == 0):
            n = k5_case(ctx, inst, opts, best)
        if shown < 3 and best["k"] >= 2:
            shown += 1
            ctx.rep.sample({"suite": "K5.minimum", "instance": strip(inst), "brute_force": best})


# =====================================================================================================
#  K1.greedy: the greedy shortcut of kFlowDecomp (constructor) vs the Lean op `greedy.shortcut`
# =====================================================================================================

class GreedyCapture:
    """records every call of kFlowDecomp._get_solution_with_greedy (k, returned bool, solution stored, solved flag) and the
    graph / topological order / flow values stDAG.decompose_using_max_bottleneck hands to max_bottleneck_path first"""

    def __init__(self, fp):
        self.fp = fp; self.calls = []; self.first = None; self.ctors = 0

    def __enter__(self):
        K, gu = self.fp.kFlowDecomp, self.fp.utils.graphutils
        self._g, self._mb, self._init = K._get_solution_with_greedy, gu.max_bottleneck_path, K.__init__
        me = self

        def greedy(m):
            me.first = None
            r = me._g(m)
            sol = m._solution
            me.calls.append({"k": m.k, "fired": bool(r), "first": me.first, "solved": bool(m.is_solved()) if r else None,
                             "paths": [list(p) for p in (sol.get("_paths_internal", sol["paths"]) if r else [])],
                             "weights": [qstr(w) for w in (sol["weights"] if r else [])]})
            return r

        def mb(TG, attr):
            if me.first is None:
                me.first = {"nodes": list(TG.nodes()), "edges": list(TG.edges()), "topo": list(nx.topological_sort(TG)),
                            "flow": [[u, v, qstr(d[attr])] for u, v, d in TG.edges(data=True)]}
            return me._mb(TG, attr)
        K._get_solution_with_greedy, gu.max_bottleneck_path = greedy, mb
        return self

    def __exit__(self, *a):
        self.fp.kFlowDecomp._get_solution_with_greedy = self._g
        self.fp.utils.graphutils.max_bottleneck_path = self._mb
        return False


def conserving_edges(inst):
    tin, tout = {}, {}
    for u, v, q in inst["flow"]:
        tout[u] = tout.get(u, 0) + frac(q); tin[v] = tin.get(v, 0) + frac(q)
    return all(tin[v] == tout[v] for v in tin if v in tout)


def greedy_model(ctx, inst, k, opt_greedy, first):
    """the Lean model's answer for one constructor call"""
    if first is None:
        G = nx.DiGraph(); G.add_nodes_from(inst["nodes"]); G.add_edges_from(tuple(e) for e in inst["edges"])
        first = {"nodes": list(G.nodes()), "edges": list(G.edges()), "topo": list(nx.topological_sort(G)),
                 "flow": [list(x) for x in inst["flow"]]}
    ans = ctx.driver.call({"op": "greedy.shortcut", "nodes": first["nodes"], "edges": [list(e) for e in first["edges"]],
                           "topo": first["topo"], "flow": first["flow"], "k": k, "opt_greedy": opt_greedy,
                           "ignore_empty": len(inst["ignore"]) == 0, "conserving": conserving_edges(inst),
                           "constraints": [[[e[0], e[1], edge_len(inst, e)] for e in c] for c in inst["constraints"]],
                           "coverage": qstr(frac(inst["coverage_length"] if inst.get("coverage_length") is not None
                                                 else inst.get("coverage", "1")))})
    if "stuck" in ans:
        return {"stuck": True}
    if not ans["fired"]:
        return {"fired": False}
    return {"fired": True, "paths": ans["paths"], "weights": [qstr(Fraction(w)) for w in ans["weights"]]}


def edge_len(inst, e):
    """the length the code gives an edge of a constraint: its length attribute (missing: 1) when
    subpath_constraints_coverage_length is set, else 1"""
    if inst.get("coverage_length") is None:
        return "1"
    return {(u, v): q for u, v, q in inst.get("lengths", [])}.get((e[0], e[1]), "1")


def greedy_occurrences(fp, inst):
    """per constraint: (weighted max occurrence over the greedy paths, weighted constraint length); None if greedy fails"""
    try:
        G = nx.DiGraph(); G.add_nodes_from(inst["nodes"])
        for u, v, q in inst["flow"]:
            G.add_edge(u, v, flow=float(frac(q)))
        paths = fp.stDAG(G).decompose_using_max_bottleneck("flow")[0]
    except Exception:
        return None
    out = []
    for c in inst["constraints"]:
        ln = [frac(edge_len(inst, e)) for e in c]
        occ = 0
        for p in paths:
            pe = {(p[i], p[i + 1]) for i in range(len(p) - 1)}
            occ = max(occ, sum((l for e, l in zip(c, ln) if (e[0], e[1]) in pe), Fraction(0)))
        out.append((occ, sum(ln, Fraction(0))))
    return out


def has_tie(fp, inst):
    occ = greedy_occurrences(fp, inst)
    cov = frac(inst["coverage_length"])
    return bool(occ) and any(o == cov * t for o, t in occ)


def weighted_greedy_instance(rng, fp):
    """constraints with per-edge lengths (0 included, some edges without length attribute = 1) and
    subpath_constraints_coverage_length; half of the draws insist (by resampling) on an exact tie
    occurrence length = coverage * constraint length for some constraint"""
    for _ in range(12):
        inst = detour_instance(rng) if rng.random() < 0.25 else edge_instance(rng, features=False)
        inst = dict(inst); inst.pop("stale_file_attrs", None)
        if not inst["constraints"]:
            inst["constraints"] = [[list(e) for e in c] for c in
                                   gen.subpaths(rng, inst["nodes"], [tuple(e) for e in inst["edges"]],
                                                contiguous=rng.random() < 0.7) if c]
        if inst["constraints"]:
            break
    if not inst["constraints"]:
        return inst
    want_tie = rng.random() < 0.5
    best = None
    for _ in range(10):
        cand = dict(inst)
        pool = rng.choice([[0, 1, 2], [0, 1, 2, 3, 4], [1, 2, 3], [0, 0, 1, 4], [2, 4, 6, 8]])
        cand["lengths"] = [[e[0], e[1], str(rng.choice(pool))] for e in inst["edges"] if rng.random() < 0.85]
        if not cand["lengths"]:
            e = inst["edges"][0]; cand["lengths"] = [[e[0], e[1], str(rng.choice(pool))]]
        cand["coverage_length"] = rng.choice(["0.5", "0.25", "0.75", "1", "0.5"])
        best = cand
        if not want_tie or has_tie(fp, cand):
            break
    return best


def greedy_instance(rng, fp=None):
    r = rng.random()
    if fp is not None and rng.random() < 0.34:
        return weighted_greedy_instance(rng, fp)
    if r < 0.15:
        inst = detour_instance(rng)
    elif r < 0.3:
        inst = big_edge_instance(rng)
    else:
        inst = edge_instance(rng, features=rng.random() < 0.6)
    inst = dict(inst); inst.pop("stale_file_attrs", None)
    if inst["constraints"] and rng.random() < 0.3:
        inst["coverage"] = rng.choice(["0.5", "0.75", "0.25"])
    return inst


def greedy_case(ctx, inst, k, opts, via, suite="K1.greedy"):
    """via = 'k': construct kFlowDecomp(k) directly; via = 'min': MinFlowDecomp.solve() and every k-model it builds"""
    desc = dict(strip(inst), k=k, options=opts, via=via)
    opt_greedy = opts.get("optimize_with_greedy", True)
    with GreedyCapture(ctx.fp) as cap:
        try:
            if via == "k":
                m = models.build(ctx.fp, dict(inst, cls="kFlowDecomp", k=k), extra_opts=opts)
                ks = [k]
            else:
                m = models.build(ctx.fp, dict(inst, cls="MinFlowDecomp"), extra_opts=opts)
                seen = []
                K = ctx.fp.kFlowDecomp; init = K.__init__

                def rec(self_, *a, **kw):
                    seen.append(kw.get("k")); return init(self_, *a, **kw)
                K.__init__ = rec
                try:
                    m.solve()
                finally:
                    K.__init__ = init
                ks = seen
        except ValueError as e:
            ctx.rep.count(suite, desc, nontrivial=False, hist=["ctor ValueError"]); return None
    if any(kk is None for kk in ks):
        ctx.disagree(suite, desc, "kFlowDecomp constructed without keyword k", None); return None
    calls = list(cap.calls)
    fired_any = False
    rows = []
    for kk in ks:
        guard = opt_greedy and len(inst["ignore"]) == 0 and conserving_edges(inst)
        if guard:
            if not calls or calls[0]["k"] != kk:
                ctx.disagree(suite, desc, f"_get_solution_with_greedy not called for k={kk}", {"guard": True}); return None
            c = calls.pop(0)
            impl = {"fired": c["fired"]}
            if c["fired"]:
                impl.update(paths=c["paths"], weights=c["weights"])
                if not c["solved"]:
                    ctx.disagree(suite, desc, "shortcut fired but is_solved() is False", None)
            first = c["first"]
        else:
            impl, first = {"fired": False}, None
        model = greedy_model(ctx, inst, kk, opt_greedy, first)
        ctx.rep.cov["traces_validated_against_impl"] += 1
        fired_any = fired_any or impl["fired"]
        rows.append((kk, impl["fired"]))
        if impl != model:
            ctx.disagree(suite, dict(desc, k=kk), impl, model)
    if calls:
        ctx.disagree(suite, desc, f"{len(calls)} unexpected call(s) of _get_solution_with_greedy", None)
    if via == "min" and m.is_solved() and fired_any:
        # end to end: the answer of solve() is the shortcut's solution of the last k-model
        sol = m.get_solution()
        last = [c for c in cap.calls if c["fired"]][-1]
        if [list(p) for p in sol["paths"]] != last["paths"] or [qstr(w) for w in sol["weights"]] != last["weights"]:
            ctx.disagree(suite, desc, {"get_solution": [sol["paths"], [qstr(w) for w in sol["weights"]]]},
                         {"shortcut": [last["paths"], last["weights"]]})
    ctx.rep.count(suite, desc, nontrivial=fired_any or bool(opts) or bool(inst["constraints"]) or bool(inst["ignore"]),
                  hist=["fired" if fired_any else "not fired", via,
                        "constraints" if inst["constraints"] else ("ignored" if inst["ignore"] else "plain"),
                        "greedy off" if not opt_greedy else "greedy on"]
                  + (["edge lengths"] + (["length 0"] if any(frac(q) == 0 for _, _, q in inst["lengths"]) else [])
                     + (["length tie"] if has_tie(ctx.fp, inst) else [])
                     if inst.get("coverage_length") is not None else []))
    return rows


def run_k1_greedy(ctx):
    rng = ctx.rng
    shown = 0
    for it in range(ctx.n(500, 6000)):
        inst = greedy_instance(rng, ctx.fp)
        opts = {}
        if rng.random() < 0.15:
            opts["optimize_with_greedy"] = False
        # number of greedy paths (only used to choose k around the boundary)
        try:
            G = nx.DiGraph(); G.add_nodes_from(inst["nodes"])
            for u, v, q in inst["flow"]:
                G.add_edge(u, v, flow=float(frac(q)))
            n = len(ctx.fp.stDAG(G).decompose_using_max_bottleneck("flow")[0])
        except Exception:
            n = inst.get("planted", 2)
        if rng.random() < 0.25:
            rows = greedy_case(ctx, inst, None, opts, "min")
        else:
            k = max(1, n + rng.choice([-1, 0, 0, 0, 1, 2]))
            rows = greedy_case(ctx, inst, k, opts, "k")
        if rows and shown < 2 and any(f for _, f in rows):
            shown += 1
            ctx.rep.sample({"suite": "K1.greedy", "instance": strip(inst), "options": opts, "k_fired": rows})


def run(ctx):
    run_k1(ctx)
    run_k1_greedy(ctx)
    run_k2(ctx)
    run_k3(ctx)
    run_k5(ctx)


def finding_case(ctx, inp):
    inst = {k: v for k, v in inp.items() if k not in ("options", "brute_force_minimum", "brute_force_witness", "returned",
                                                       "lowerbound", "width", "diagnosis", "isolated_node", "planted")}
    k5_case(ctx, inst, dict(inp.get("options", {})), suite="known-findings")


def search(ctx):
    rng = random.Random(303)
    for it in range(400):
        inst = node_instance(rng) if rng.random() < 0.3 else edge_instance(rng)
        best = brute_min(inst)
        if best is None:
            continue
        for opts in option_sets(rng, best["k"], True):
            k5_case(ctx, inst, opts, best, suite="search.minimum")


def replay(ctx, payload):
    inp = payload.get("input") or {}
    if "cls" in inp:
        finding_case(ctx, inp)
        print(json.dumps([v["what"] for v in ctx.violations], indent=1))
