"""C15 — MinGenSet and MinSetCover return true optima whenever one exists.

Proof: FP/Props/C15.lean — the MILP of `_create_solver(k)` is feasible iff a generating multiset of size k exists
(`mgs_feasible_iff`; partition constraints of any lengths: `mgs_feasible_iff_partition`, `mgs_partition_sound_full`),
the constructor's preprocessing keeps the generating multisets for every multiplicity
(`preprocess_sound`; complements are dropped only for multiplicity 1 since fix 20bda28), a search over a range returns
the optimum of that range (`mgs_returns_optimum`), the range of the code (fix 6c30e65) contains the optimum
(`mgs_range_contains_optimum` without, `mgs_range_contains_optimum_partition` with partition constraints that are
number partitions of `total` — non-empty, non-negative, integral for weight_type=int; both extra hypotheses are
necessary: `mgs_range_empty_constraint`, `mgs_range_fractional_constraint`, `mgs_range_first_statement_false`;
[1,2,4]/7: `mgs_range_regression_124`); `mscLP`'s optima
are the minimum-weight covers (`msc_opt_transfer`), `subset_weights=None` means unit weights (`msc_default_unit_weights`).
Ties: K2 LP-dump equality of `MinGenSet._create_solver(k)` (+ the preprocessing) and `MinSetCover`'s LP with the
Lean generators; K3 the search trace of `MinGenSet.solve` under forced statuses (reused from C13).
Oracle (K5, property text only): exhaustive search for the smallest generating multiset / the cheapest cover.
"""
import itertools, json, math, random
from fractions import Fraction
from fpv import k2
from fpv.common import frac, qstr
from props import c13

THEOREMS = ["FP.Props.C15." + t for t in
            ["mgs_sound", "mgs_sound_eff", "mgs_partition_sound", "mgs_partition_sound_full", "mgs_complete",
             "mgs_complete_multiset", "mgs_effMult_eq", "mgs_feasible_iff", "mgs_feasible_iff_partition", "mgs_cap_loses_solutions", "mgs_pi_bound_loses_solutions", "complement_removal_sound",
             "preprocess_sound", "complement_removal_unsound_mult", "preprocess_keeps_complements_mult", "genset_exists",
             "mgs_returns_optimum", "mgs_range_contains_optimum", "mgs_range_contains_optimum_partition",
             "mgs_range_empty_constraint", "mgs_range_fractional_constraint", "mgs_range_first_statement_false",
             "mgs_range_misses_optimum",
             "mgs_search_finds_least", "mgs_range_regression_124", "msc_sound", "msc_complete", "msc_objective", "msc_opt_transfer",
             "msc_default_unit_weights"]]
IMPORTS = ["FP.Props.C15"]
RULE = ("MinGenSet: a hidden multiset of 2-4 values (ints, halves or eighths) with sum <= 40 units, 1-5 numbers that are "
        "sub-multiset sums of it (coefficients <= max_multiplicity 1..3) or random, optional complements/duplicates/0/total, "
        "lower bounds 1-3, partition constraints (refinements of the hidden multiset, or random), both weight types; "
        "non-trivial iff the brute-force optimum is >= 2. MinSetCover: universes of <= 6 elements, <= 8 random subsets, "
        "int/float/zero/negative/None weights; non-trivial iff a cover exists and needs >= 2 subsets.")
MODEL_SCOPE = ("modelled: MinGenSet.__init__ preprocessing, _create_solver/_encode_symmetry_breaking/"
               "_encode_partition_constraints (mgsLP), the k-loop of solve (stopSearch) with its range "
               "range(lb, max(lb, len(set(numbers)) + 1 + sum(len(c) - 1)) + 1) (mgsHi), MinSetCover._encode_set_cover (mscLP); "
               "not modelled: what HiGHS does inside one solve, float rounding of returned values, get_solution plumbing "
               "(checked by the oracle)")
TRUSTED = ["HiGHS reports kOptimal iff the MILP is feasible (and then an optimal vertex), kInfeasible iff it is not"]
ASSUMPTIONS = ["numbers, total and weights are exactly representable (ints, halves, eighths)",
               "float weight type: the brute-force optimum over the 1/2- (1/8-) grid is an upper bound of the true optimum; "
               "a smaller answer of the code is accepted iff it is itself a valid generating multiset"]

TOL = 1e-6
KMAX = 5
PER_SITE = 4          # the engine keeps at most 50 violations: a frequent known finding must not crowd out new sites


def viol(ctx, what, inp, site=""):
    seen = ctx.__dict__.setdefault("_c15_sites", {})
    seen[site] = seen.get(site, 0) + 1
    h = ctx.rep.suite("violations-by-site")["histogram"]
    h[site] = h.get(site, 0) + 1
    if seen[site] <= PER_SITE:
        ctx.violation(what, inp, site=site)


# ------------------------------------------------------------------ the independent oracle (integer units)

def gen_sums(g, mult):
    """all sums sum(c_i * g_i), 0 <= c_i <= mult"""
    sums = {0}
    for x in g:
        sums = {s + c * x for s in sums for c in range(mult + 1)}
    return sums


def part_ok(g, con):
    """can the elements of g be distributed over the parts of con so that part j sums to con[j]?"""
    if sum(con) != sum(g):
        return False
    left = list(con)
    order = sorted(g, reverse=True)

    def rec(i):
        if i == len(order):
            return all(x == 0 for x in left)
        seen = set()
        for j in range(len(left)):
            if left[j] >= order[i] and left[j] not in seen:
                seen.add(left[j])
                left[j] -= order[i]
                if rec(i + 1):
                    left[j] += order[i]
                    return True
                left[j] += order[i]
        return False
    if not left:
        return not order
    return rec(0)


def is_genset_units(g, total, numbers, mult, partition):
    if sum(g) != total or any(x < 0 for x in g):
        return False
    sums = gen_sums(g, mult)
    if any(a not in sums for a in numbers):
        return False
    return all(part_ok(g, con) for con in (partition or []))


def multisets(total, k, lo=0):
    """non-decreasing k-tuples of ints >= lo with sum total"""
    if k == 1:
        if total >= lo:
            yield (total,)
        return
    for x in range(lo, total // k + 1):
        for rest in multisets(total - x, k - 1, x):
            yield (x,) + rest


def brute_min(numbers, total, mult, partition, kmax):
    """(k, witness) for the smallest generating multiset with k <= kmax, else None; everything in integer units"""
    nums = sorted(set(numbers))
    if any(a < 0 or a > mult * total for a in nums):
        return None
    for k in range(1, kmax + 1):
        for g in multisets(total, k):
            if is_genset_units(g, total, nums, mult, partition):
                return k, list(g)
    return None


# ------------------------------------------------------------------ instances

def gen_mgs_same_values(rng):
    """two partition constraints over the same SET of values with different multiplicities (e.g. [1,2,2] and [1,1,1,2] for
    total 5): they are different constraints, and the finer one is the one that decides"""
    a, b = rng.sample(range(1, 5), 2)
    p1 = [a] * rng.randint(1, 2) + [b] * rng.randint(1, 2)
    total = sum(p1)
    alts = []
    for na in range(1, 6):
        for nb in range(1, 6):
            if na * a + nb * b == total and sorted([a] * na + [b] * nb) != sorted(p1):
                alts.append([a] * na + [b] * nb)
    if not alts:
        return None
    p2 = rng.choice(alts)
    parts = [list(p1), list(p2)]
    rng.shuffle(parts[0]); rng.shuffle(parts[1])
    if rng.random() < 0.5:
        parts.reverse()
    wint = rng.random() < 0.6
    return {"cls": "MinGenSet", "unit": "1" if wint else rng.choice(["1", "1/2"]), "numbers": sorted({a, b, total} | ({a + b} if rng.random() < 0.5 else set())),
            "total": total, "weight_type": "int" if wint else "float", "max_multiplicity": 1, "lowerbound": 1,
            "partition": parts, "remove_complement": rng.random() < 0.85}


def gen_mgs_nothing_left(rng):
    """every number is 0 or the total (nothing is left after the preprocessing) but partition constraints are given: the
    answer is decided by the constraints alone"""
    total = rng.randint(3, 9)
    a = rng.randint(1, total - 1)
    parts = [[a, total - a]]
    if rng.random() < 0.4 and total >= 4:
        b = rng.randint(1, total - 2)
        parts.append([b, 1, total - b - 1])
    wint = rng.random() < 0.6
    return {"cls": "MinGenSet", "unit": "1" if wint else "1/2", "numbers": rng.choice([[], [total], [total, 0], [0]]), "total": total,
            "weight_type": "int" if wint else "float", "max_multiplicity": 1, "lowerbound": rng.choice([1, 1, 0]),
            "partition": parts, "remove_complement": rng.random() < 0.85}


def gen_mgs(rng, thorough=False):
    r_ = rng.random()
    if r_ < 0.06:
        inst = gen_mgs_same_values(rng)
        if inst is not None:
            return inst
    elif r_ < 0.10:
        return gen_mgs_nothing_left(rng)
    wint = rng.random() < 0.55
    unit = Fraction(1) if wint else rng.choice([Fraction(1), Fraction(1, 2), Fraction(1, 2), Fraction(1, 8)])
    mult = 1 if rng.random() < 0.6 else rng.randint(2, 3)
    k0 = rng.randint(2, 4)
    cap = 40 if wint else 24
    base = [rng.randint(1, max(1, cap // k0)) for _ in range(k0)]
    if rng.random() < 0.15:
        base = [1] * rng.randint(1, 3) + base[:2]           # small totals (total < max_multiplicity possible)
    total = sum(base)
    n = rng.randint(1, 5)
    numbers = []
    for _ in range(n):
        c = rng.random()
        if c < 0.62:
            cs = [rng.randint(0, mult) for _ in base]
            v = sum(a * b for a, b in zip(cs, base))
            if v == 0 or v > 20 or (v > total and rng.random() < 0.9):
                v = rng.choice(base)
            numbers.append(v)
        elif c < 0.72 and numbers:
            numbers.append(total - rng.choice(numbers))
        elif c < 0.78 and numbers:
            numbers.append(rng.choice(numbers))
        elif c < 0.82:
            numbers.append(total)
        elif c < 0.84:
            numbers.append(0)
        else:
            numbers.append(rng.randint(1, min(20, total)))
    numbers = [v for v in numbers if v >= 0]
    part = None
    if mult == 1 and rng.random() < 0.3:
        part = []
        for _ in range(rng.randint(1, 2)):
            if rng.random() < 0.75:                          # a coarsening of the hidden multiset: feasible
                t = rng.randint(1, min(3, k0))
                con = [0] * t
                for x in base:
                    con[rng.randrange(t)] += x
                con = [x for x in con if x > 0]
            else:
                cuts = sorted(rng.randint(0, total) for _ in range(rng.randint(0, 2)))
                con = [b - a for a, b in zip([0] + cuts, cuts + [total])]
            part.append(con)
    lb = rng.choice([1, 1, 1, 1, 2, 3, 0])
    return {"cls": "MinGenSet", "unit": qstr(unit), "numbers": numbers, "total": total,
            "weight_type": "int" if wint else "float", "max_multiplicity": mult, "lowerbound": lb,
            "partition": part, "remove_complement": rng.random() < 0.85}


def to_py(inst, v):
    u = Fraction(inst["unit"])
    q = u * v
    if inst["weight_type"] == "int" and u == 1:
        return int(q)
    return float(q) if (u != 1 or inst["weight_type"] == "float") else int(q)


def build_mgs(fp, inst):
    kw = dict(numbers=[to_py(inst, v) for v in inst["numbers"]], total=to_py(inst, inst["total"]),
              weight_type=int if inst["weight_type"] == "int" else float,
              max_multiplicity=inst["max_multiplicity"], lowerbound=inst["lowerbound"],
              remove_complement_values=inst["remove_complement"], solver_options={"time_limit": 120})
    if inst["partition"] is not None:
        kw["partition_constraints"] = [[to_py(inst, v) for v in con] for con in inst["partition"]]
    return fp.MinGenSet(**kw)


def check_solution_float(sol, inst):
    """is the returned list a generating multiset of the ORIGINAL numbers? returns list of problems (python numbers)"""
    u = float(Fraction(inst["unit"]))
    total = inst["total"] * u
    mult = inst["max_multiplicity"]
    probs = []
    if inst["weight_type"] == "int" and not all(type(x) is int for x in sol):
        probs.append(f"values are not ints: {sol}")
    if any(x < -TOL for x in sol):
        probs.append(f"negative value in {sol}")
    if abs(sum(sol) - total) > TOL:
        probs.append(f"sum {sum(sol)} != total {total}")
    sums = [0.0]
    for x in sol:
        sums = [s + c * x for s in sums for c in range(mult + 1)]
    for a in sorted(set(inst["numbers"])):
        if not any(abs(s - a * u) <= TOL for s in sums):
            probs.append(f"number {a * u} is not generated by {sol} with multiplicities <= {mult}")
    for con in inst["partition"] or []:
        # assignment of elements to parts within tolerance
        target = [c * u for c in con]

        def rec(i, left):
            if i == len(sol):
                return all(abs(x) <= TOL * 10 for x in left)
            for j in range(len(left)):
                if left[j] - sol[i] >= -TOL * 10:
                    left[j] -= sol[i]
                    if rec(i + 1, left):
                        return True
                    left[j] += sol[i]
            return False
        if not (rec(0, list(target)) if target else not sol):
            probs.append(f"partition constraint {target} is not respected by {sol}")
    return probs


def removed_by_preprocessing(inst):
    """numbers the constructor may drop when remove_complement_values is set (re-computed from the docstring:
    of x and total-x the larger one; total; 0) -- used only to name the site of a failure"""
    nums, total = set(inst["numbers"]), inst["total"]
    if not inst["remove_complement"]:
        return set()
    return {a for a in nums if a == 0 or a == total or (total - a in nums and total - a < a)}


def mgs_case(ctx, inst, suite="K5.MinGenSet"):
    fp = ctx.fp
    mult, total, lb = inst["max_multiplicity"], inst["total"], inst["lowerbound"]
    kmax = KMAX if total > 16 else KMAX + 1
    bm = brute_min(inst["numbers"], total, mult, inst["partition"], kmax)
    bmin = bm[0] if bm else None
    expect = None if bmin is None else max(lb, bmin)
    ctx.rep.cov["oracle_evaluations"] += 1
    case = dict(inst, bmin=bmin, witness=None if bm is None else bm[1], expect=expect, range_hi=None)
    hist = ["MinGenSet", inst["weight_type"], f"mult={min(mult, 2)}{'+' if mult > 2 else ''}", f"unit={inst['unit']}",
            f"bmin={bmin}"] + (["partition"] if inst["partition"] else []) + ([f"lb={lb}"] if lb > 1 else [])
    try:
        m = build_mgs(fp, inst)
    except ValueError as e:
        ctx.rep.count(suite, inst, nontrivial=False, hist=["MinGenSet", "ctor ValueError"])
        return case
    hi = ctx.model_hi("MinGenSet", m)          # exclusive upper end of the k-loop of the tree under test
    case["range_hi"] = hi
    try:
        ret = m.solve()
    except Exception as e:
        ctx.rep.count(suite, inst, nontrivial=False, hist=hist + ["exception"])
        viol(ctx, f"MinGenSet.solve() raised {e!r}", dict(case, exception=repr(e)), site="MinGenSet.exception")
        return case
    status = m.solve_statistics.get("status")
    case.update(ret=bool(ret), status=status, numbers_after=sorted(qstr(frac(x)) for x in m.numbers))
    sol = None
    if ret:
        sol = m.get_solution()
        case["solution"] = [qstr(frac(x)) for x in sol]
        try:
            raw = m.solver.get_values(m.genset_vars)
            case["raw_values"] = [repr(raw[i]) for i in sorted(raw)]
            if inst["weight_type"] == "int":
                dev = max([abs(raw[i] - round(raw[i])) for i in raw] or [0])
                hist.append("raw integral" if dev == 0 else f"raw non-integral ~1e{int(math.floor(math.log10(dev)))}")
        except Exception:
            pass
    ctx.rep.count(suite, inst, nontrivial=bool(bmin and bmin >= 2),
                  hist=hist + ["solved" if ret else f"unsolved:{status}"])
    if bool(m.is_solved()) != bool(ret):
        viol(ctx, f"MinGenSet: solve() returned {ret} but is_solved() is {m.is_solved()}", case, site="MinGenSet.solve")
    if not ret:
        got = True
        try:
            got = m.get_solution() is not None
        except Exception:
            got = False
        if got:
            viol(ctx, "MinGenSet.get_solution() returned data although solve() returned False", case, site="MinGenSet.get_solution")
        if expect is not None:
            if expect >= hi:
                viol(ctx, f"MinGenSet.solve() returned False although {bm[1]} (x{inst['unit']}) is a generating multiset of size "
                              f"{bmin}: the loop range(lowerbound={lb}, {hi}) never tries k={expect}",
                              case, site="MinGenSet.range")
            elif mult > 1 and any(a > total for a in inst["numbers"]):
                viol(ctx, f"MinGenSet.solve() returned False (status {status}) although {bm[1]} (x{inst['unit']}) generates all numbers "
                              f"with multiplicities <= {mult}: a number exceeds total and the product columns are bounded by total",
                              case, site="MinGenSet.pi_bound")
            elif mult > 1 and cap_matters(inst, expect):
                viol(ctx, f"MinGenSet.solve() returned False (status {status}) although {bm[1]} (x{inst['unit']}) generates all numbers "
                              f"with multiplicities <= {mult}: total < max_multiplicity and the integer helper gets only "
                              f"ceil(log2(total+1)) bits", case, site="MinGenSet.multiplicity_cap")
            else:
                wf = witness_feasible(m, inst, expect, bm[1])
                case["milp_with_witness_fixed"] = wf
                if status != "kInfeasible":
                    # the loop stopped on a status that is no verdict (e.g. kModelEmpty for the variable-free model of k = 0)
                    viol(ctx, f"MinGenSet.solve() returned False with status {status} (lowerbound={lb}) although {bm[1]} "
                              f"(x{inst['unit']}) is a generating multiset of size {bmin}", case, site="MinGenSet.inconclusive_status")
                elif wf == "kOptimal":
                    viol(ctx, f"MinGenSet.solve() returned False: HiGHS reported the MILP for k={expect} infeasible although it is "
                              f"feasible (kOptimal once gen_set is fixed to {bm[1]} (x{inst['unit']}))", case,
                         site="MinGenSet.solver_false_infeasible")
                else:
                    viol(ctx, f"MinGenSet.solve() returned False (status {status}) although {bm[1]} (x{inst['unit']}) is a generating "
                              f"multiset of size {bmin} and k={expect} lies in the searched range", case, site="MinGenSet.solve")
        return case
    # ---- solved: the returned multiset must be a generating multiset of the ORIGINAL numbers
    probs = check_solution_float(sol, inst)
    if probs:
        removed = removed_by_preprocessing(inst)
        u = float(Fraction(inst["unit"]))
        only_removed = all(("is not generated" not in p) or any(f"number {a * u} " in p for a in removed) for p in probs) \
            and all("is not generated" in p for p in probs)
        if mult > 1 and only_removed:
            site = "MinGenSet.complement_removal"
        elif any("sum" in p or "not ints" in p for p in probs) and inst["weight_type"] == "int":
            site = "MinGenSet.int_truncation"
        else:
            site = "MinGenSet.solution"
        viol(ctx, f"MinGenSet.get_solution() = {sol} is not a generating multiset of the input: " + "; ".join(probs[:3]),
                      dict(case, problems=probs), site=site)
        return case
    if sol != sorted(sol):
        viol(ctx, f"MinGenSet.get_solution() = {sol} is not sorted", case, site="MinGenSet.solution")
    if expect is None:
        # valid and larger than what the brute force explored: fine; smaller would contradict the brute force
        if len(sol) <= kmax and inst["weight_type"] == "int":
            viol(ctx, f"oracle inconsistency: brute force found no generating multiset with <= {kmax} elements but {sol} is one",
                          case, site="MinGenSet.oracle")
        return case
    if len(sol) > expect:
        cap = mult > 1 and cap_matters(inst, expect)
        site = "MinGenSet.multiplicity_cap" if cap else "MinGenSet.not_minimal"
        extra = ""
        if not cap:
            wf = witness_feasible(m, inst, expect, bm[1])
            case["milp_with_witness_fixed"] = wf
            if wf == "kOptimal":
                site = "MinGenSet.solver_false_infeasible"
                extra = f": HiGHS reported the MILP for k={expect} infeasible although it is feasible (kOptimal once gen_set is fixed to the witness)"
            elif mult > 1 and any(a > total for a in inst["numbers"]):
                site = "MinGenSet.pi_bound"
                extra = ": a number exceeds total and the product columns are bounded by total"
        viol(ctx, f"MinGenSet returned {len(sol)} elements {sol} but {bm[1]} (x{inst['unit']}) is a generating multiset of size "
                  f"{bmin} (lowerbound {lb}){extra}", case, site=site)
    elif len(sol) < expect:
        if len(sol) < lb:
            viol(ctx, f"MinGenSet returned {len(sol)} elements, fewer than lowerbound={lb}", case, site="MinGenSet.lowerbound")
        elif inst["weight_type"] == "int":
            viol(ctx, f"oracle inconsistency: {sol} is valid and smaller than the brute-force optimum {bmin}", case,
                          site="MinGenSet.oracle")
        else:
            ctx.rep.suite(suite)["histogram"]["float answer finer than the oracle grid (valid)"] = \
                ctx.rep.suite(suite)["histogram"].get("float answer finer than the oracle grid (valid)", 0) + 1
    return case


def witness_feasible(m, inst, k, witness):
    """status of the real `_create_solver(k)` MILP with the gen_set columns fixed to the brute-force witness (padded with
    zeros, ascending): kOptimal here while the unfixed MILP was reported kInfeasible means the solver's verdict was wrong"""
    u = Fraction(inst["unit"])
    vals = sorted([0] * (k - len(witness)) + list(witness))
    try:
        m._create_solver(k)
        for i, v in enumerate(vals):
            m.solver.add_constraint(m.genset_vars[i] == float(u * v), name=f"fix_{i}")
        m.solver.optimize()
        return m.solver.get_model_status()
    except Exception as e:
        return f"<{e!r}>"


def cap_matters(inst, expect):
    """total < max_multiplicity in value, and with the multiplicity the helper's bits allow the optimum is larger"""
    u = Fraction(inst["unit"])
    tot = u * inst["total"]
    bits = max(0, math.ceil(math.log2(float(math.ceil(tot)) + 1))) if tot > 0 else 0
    eff = min(inst["max_multiplicity"], 2 ** bits - 1)
    if eff >= inst["max_multiplicity"]:
        return False
    bm = brute_min(inst["numbers"], inst["total"], max(eff, 0), inst["partition"], KMAX + 1) if eff >= 1 else None
    return bm is None or max(inst["lowerbound"], bm[0]) > expect


# ------------------------------------------------------------------ MinSetCover

POOL = [1, 2, 3, 4, "a", "b", "c", "x.0"]


def gen_msc_near_tie(rng):
    """one big subset against a cover by several small ones that is lighter by a small margin (dyadic weights): an objective
    that also counts subsets, however lightly, picks the wrong one"""
    m = rng.randint(2, 4)
    pool = rng.sample(POOL, m + rng.randint(0, 1))
    universe = pool[:m]
    small = [[x] for x in universe]
    if m >= 3 and rng.random() < 0.5:
        small = [universe[:2]] + [[x] for x in universe[2:]]
    unit = rng.choice([Fraction(1, 2), Fraction(1, 4), Fraction(3, 8)])
    ws = [unit] * len(small)
    big_w = sum(ws) + rng.choice([Fraction(1, 8), Fraction(1, 16), Fraction(1, 4)])
    subsets = small + [list(universe)]
    weights = [float(x) for x in ws] + [float(big_w)]
    extra = rng.randint(0, 2)                      # a few irrelevant subsets (they dilute any per-subset penalty)
    for _ in range(extra):
        subsets.append([rng.choice(pool)]); weights.append(float(rng.choice([2, 3])))
    order = list(range(len(subsets))); rng.shuffle(order)
    return {"cls": "MinSetCover", "universe": universe, "subsets": [subsets[i] for i in order], "weights": [weights[i] for i in order],
            "containers": [rng.choice(["list", "set", "tuple"]) for _ in subsets]}


def gen_msc(rng):
    if rng.random() < 0.08:
        return gen_msc_near_tie(rng)
    pool = rng.sample(POOL, rng.randint(1, 6))
    universe = rng.sample(pool, rng.randint(0, len(pool)))
    if rng.random() < 0.1 and universe:
        universe.append(universe[0])
    subsets = []
    for _ in range(rng.randint(0, 8)):
        subsets.append([x for x in pool if rng.random() < rng.choice([0.25, 0.5])])
    if rng.random() < 0.7 and subsets:            # make a cover likely
        for x in universe:
            if not any(x in s for s in subsets):
                rng.choice(subsets).append(x)
    mode = rng.random()
    if mode < 0.12:
        w = None
    elif mode < 0.55:
        w = [rng.randint(1, 9) for _ in subsets]
    elif mode < 0.8:
        w = [rng.choice([0.5, 1.0, 1.5, 2.25, 4.0, 0.125]) for _ in subsets]
    else:
        w = [rng.choice([0, -1, -2.5, 1, 3, 2]) for _ in subsets]
    return {"cls": "MinSetCover", "universe": universe, "subsets": subsets, "weights": w,
            "containers": [rng.choice(["list", "set", "tuple"]) for _ in subsets]}


def brute_cover(universe, subsets, weights):
    """(min weight, chosen index tuple) over all subfamilies, or None"""
    best = None
    n = len(subsets)
    for mask in range(1 << n):
        ch = [i for i in range(n) if mask >> i & 1]
        if all(any(x in subsets[i] for i in ch) for x in universe):
            w = sum(Fraction(weights[i]) for i in ch)
            if best is None or w < best[0]:
                best = (w, ch)
    return best


def msc_case(ctx, inst, suite="K5.MinSetCover"):
    fp = ctx.fp
    conv = {"list": list, "set": set, "tuple": tuple}
    subsets = [conv[c](s) for s, c in zip(inst["subsets"], inst["containers"])]
    n = len(subsets)
    # documented default: "If not provided, each subset is assumed to have a weight of 1."
    w_doc = inst["weights"] if inst["weights"] is not None else [1] * n
    best = brute_cover(inst["universe"], inst["subsets"], w_doc)
    ctx.rep.cov["oracle_evaluations"] += 1
    case = dict(inst, best=None if best is None else [qstr(best[0]), best[1]])
    hist = ["MinSetCover", "weights=None" if inst["weights"] is None else "weights given",
            "cover exists" if best else "no cover"]
    ctx.rep.count(suite, inst, nontrivial=bool(best and len(best[1]) >= 2), hist=hist)
    kw = dict(universe=list(inst["universe"]), subsets=subsets)
    if inst["weights"] is not None:
        kw["subset_weights"] = list(inst["weights"])
    try:
        m = fp.MinSetCover(**kw)
    except Exception as e:
        if inst["weights"] is None:
            viol(ctx, f"MinSetCover(universe, subsets) with the documented default subset_weights=None raised {e!r} "
                          f"(docstring: 'If not provided, each subset is assumed to have a weight of 1')",
                          dict(case, exception=repr(e)), site="MinSetCover.default_weights")
        else:
            viol(ctx, f"MinSetCover constructor raised {e!r}", dict(case, exception=repr(e)), site="MinSetCover.exception")
        return case
    try:
        ret = m.solve()
    except Exception as e:
        viol(ctx, f"MinSetCover.solve() raised {e!r}", dict(case, exception=repr(e)), site="MinSetCover.exception")
        return case
    case["ret"] = bool(ret)
    if best is None:
        got = True
        try:
            got = m.get_solution() is not None
        except Exception:
            got = False
        try:
            flag = bool(m.is_solved())
        except Exception as e:      # outside C15 (no cover exists): is_solved() raises AttributeError('logger') here; only counted
            flag = False
            h = ctx.rep.suite(suite)["histogram"]
            key = f"no cover: is_solved() raised {type(e).__name__}"
            h[key] = h.get(key, 0) + 1
        if ret or got or flag:
            viol(ctx, f"MinSetCover: no cover exists but solve()={ret}, is_solved()={flag}, getter returned={got}",
                          case, site="MinSetCover.solve")
        return case
    if not ret:
        st = getattr(m, "solve_statistics", {}).get("status")
        case["status"] = st
        viol(ctx, f"MinSetCover.solve() returned False (status {st}) although the subsets {best[1]} form a cover", case,
             site="MinSetCover.empty_model" if st == "kModelEmpty" else "MinSetCover.solve")
        return case
    sol = m.get_solution()
    subs = m.get_solution(as_subsets=True)
    case["solution"] = sol
    if not (isinstance(sol, list) and all(isinstance(i, int) and 0 <= i < n for i in sol) and len(set(sol)) == len(sol)):
        viol(ctx, f"MinSetCover.get_solution() = {sol!r} is not a list of distinct subset indices", case, site="MinSetCover.solution")
        return case
    if subs != [subsets[i] for i in sol]:
        viol(ctx, f"MinSetCover.get_solution(as_subsets=True) = {subs!r} differs from the subsets with indices {sol}", case,
                      site="MinSetCover.as_subsets")
    missing = [x for x in inst["universe"] if not any(x in inst["subsets"][i] for i in sol)]
    if missing:
        site, extra = "MinSetCover.solution", ""
        try:
            raw = m.solver.get_values(m.subset_vars)
            case["raw_values"] = [repr(raw[i]) for i in range(n)]
            rounded = [i for i in range(n) if abs(raw[i] - 1) <= 1e-6]
            if all(any(x in inst["subsets"][i] for i in rounded) for x in inst["universe"]):
                site = "MinSetCover.float_equality"
                extra = f" (solver values {case['raw_values']}: the test `value == 1` drops a subset whose value is 1 up to rounding)"
        except Exception:
            pass
        viol(ctx, f"MinSetCover.get_solution() = {sol}: elements {missing} are not covered" + extra, case, site=site)
        return case
    wsol = sum(Fraction(w_doc[i]) for i in sol)
    if abs(float(wsol - best[0])) > TOL:
        viol(ctx, f"MinSetCover.get_solution() = {sol} has weight {float(wsol)}; the cover {best[1]} weighs {float(best[0])}",
                      case, site="MinSetCover.not_minimal")
        return case
    # the same object solved again: still an optimum, and the same one as far as its weight goes
    sol = list(sol)                      # (a copy: the object may hand out its own list)
    try:
        ret2 = m.solve()
        sol2 = m.get_solution()
    except Exception as e:
        viol(ctx, f"MinSetCover: a second solve() / get_solution() on the same object raised {e!r}", dict(case, exception=repr(e)),
             site="MinSetCover.exception")
        return case
    ok2 = (bool(ret2) and isinstance(sol2, list) and all(isinstance(i, int) and 0 <= i < n for i in sol2)
           and len(set(sol2)) == len(sol2) and sum(Fraction(w_doc[i]) for i in sol2) == wsol
           and all(any(x in inst["subsets"][i] for i in sol2) for x in inst["universe"]))
    if not ok2:
        viol(ctx, f"MinSetCover: after a second solve() on the same object get_solution() = {sol2!r} (solve() returned {ret2}); "
                  f"after the first it was the optimum {sol}", dict(case, second=repr(sol2)), site="MinSetCover.resolve")
    return case


# ------------------------------------------------------------------ listed findings: stand-alone replays

def finding_case(ctx, mi):
    if mi.get("cls") == "MinGenSet":
        if mi.get("raw"):                    # inputs outside the generator's format (partition_constraints=[[]], total=0)
            raw_case(ctx, mi)
        else:
            mgs_case(ctx, mi, suite="findings")
    elif mi.get("cls") == "MinSetCover":
        msc_case(ctx, mi, suite="findings")


def raw_case(ctx, mi):
    """MinGenSet(**kwargs) given literally; the property asks for a generating multiset whenever one exists"""
    kw = dict(mi["kwargs"])
    kw["weight_type"] = int if kw.get("weight_type", "float") == "int" else float
    ctx.rep.count("findings", mi, nontrivial=False, hist=["raw"])
    try:
        m = ctx.fp.MinGenSet(**kw)
        ret = m.solve()
        sol = m.get_solution() if ret else None
    except ValueError:
        return
    except Exception as e:
        viol(ctx, f"MinGenSet(**{mi['kwargs']}).solve() raised {e!r}", dict(mi, exception=repr(e)), site="MinGenSet.exception")
        return
    if not ret and mi.get("solvable_with") is not None:
        viol(ctx, f"MinGenSet(**{mi['kwargs']}).solve() returned False although {mi['solvable_with']} is a generating multiset",
                      mi, site="MinGenSet.solve")


EDGE_CASES = [
    # (vi) the empty partition of total 0
    {"cls": "MinGenSet", "raw": True, "kwargs": {"numbers": [], "total": 0, "weight_type": "int", "partition_constraints": [[]]},
     "solvable_with": None},
]


# ------------------------------------------------------------------ life cycle

def run(ctx):
    rng = ctx.rng
    k2.run_k2(ctx, ["mgs", "msc"], ctx.n(200, 3000))
    c13.run_mgs(ctx)
    # fixed instances from the property text / the proofs
    fixed = [
        {"cls": "MinGenSet", "unit": "1", "numbers": [1, 2, 4], "total": 7, "weight_type": "int", "max_multiplicity": 1,
         "lowerbound": 1, "partition": None, "remove_complement": True},
        {"cls": "MinGenSet", "unit": "1", "numbers": [3, 5, 6], "total": 7, "weight_type": "int", "max_multiplicity": 1,
         "lowerbound": 1, "partition": [[3, 4], [1, 6]], "remove_complement": True},
        {"cls": "MinGenSet", "unit": "1", "numbers": [2, 4, 2, 4], "total": 4, "weight_type": "float", "max_multiplicity": 2,
         "lowerbound": 1, "partition": None, "remove_complement": False},
        {"cls": "MinGenSet", "unit": "1/8", "numbers": [3, 2, 1], "total": 8, "weight_type": "float", "max_multiplicity": 3,
         "lowerbound": 1, "partition": None, "remove_complement": True},
        # regression inputs of the repaired defects (6c30e65, 28c8a30, 20bda28)
        {"cls": "MinGenSet", "unit": "1", "numbers": [1, 2, 4], "total": 8, "weight_type": "int", "max_multiplicity": 1,
         "lowerbound": 1, "partition": None, "remove_complement": True},
        {"cls": "MinGenSet", "unit": "1", "numbers": [1], "total": 3, "weight_type": "int", "max_multiplicity": 1,
         "lowerbound": 1, "partition": [[1, 1, 1]], "remove_complement": True},
        {"cls": "MinGenSet", "unit": "1", "numbers": [13, 13, 13, 15], "total": 22, "weight_type": "int", "max_multiplicity": 1,
         "lowerbound": 3, "partition": None, "remove_complement": True},
        {"cls": "MinGenSet", "unit": "1", "numbers": [4, 6, 4], "total": 10, "weight_type": "int", "max_multiplicity": 2,
         "lowerbound": 1, "partition": None, "remove_complement": True},
    ]
    for inst in fixed:
        mgs_case(ctx, inst, suite="K5.fixed")
    fixed_msc = [   # regression inputs of 3364d5e (default weights) and 1b0a466 (== 1 on solver values)
        {"cls": "MinSetCover", "universe": [1, 2], "subsets": [[1], [2]], "weights": None, "containers": ["list", "list"]},
        {"cls": "MinSetCover", "universe": ["a", 4, 1, "c"],
         "subsets": [[1, 4], [1, "c", "a"], [4, "a"], [2, 3, 1, "c", 4], [2, "c", 4], [], [4]],
         "weights": [2.25, 4.0, 1.5, 4.0, 0.5, 1.0, 0.5],
         "containers": ["set", "set", "tuple", "list", "tuple", "tuple", "tuple"]},
    ]
    for inst in fixed_msc:
        msc_case(ctx, inst, suite="K5.fixed")
    for mi in EDGE_CASES:
        raw_case(ctx, mi)
    for it in range(ctx.n(600, 15000)):
        inst = gen_mgs(rng, not ctx.quick())
        case = mgs_case(ctx, inst)
        if it < 2:
            ctx.rep.sample({k: case[k] for k in ("numbers", "total", "unit", "max_multiplicity", "bmin", "witness", "ret", "solution") if k in case})
    for it in range(ctx.n(600, 15000)):
        inst = gen_msc(rng)
        case = msc_case(ctx, inst)
        if it < 2:
            ctx.rep.sample({k: case[k] for k in ("universe", "subsets", "weights", "best", "solution") if k in case})


def search(ctx):
    rng = random.Random(1515)
    for _ in range(600):
        mgs_case(ctx, gen_mgs(rng), suite="search")
    for _ in range(600):
        msc_case(ctx, gen_msc(rng), suite="search")
    ctx.violations.sort(key=lambda v: len(json.dumps(v["input"], default=str)))


def replay(ctx, payload):
    inp = payload.get("input") or {}
    drop = ("bmin", "witness", "expect", "range_hi", "ret", "status", "numbers_after", "solution", "raw_values",
            "problems", "best", "exception", "milp_with_witness_fixed")
    inp = {k: v for k, v in inp.items() if k not in drop}
    if inp.get("cls") == "MinGenSet":
        print(raw_case(ctx, inp) if inp.get("raw") else mgs_case(ctx, inp, suite="replay"))
    elif inp.get("cls") == "MinSetCover":
        print(msc_case(ctx, inp, suite="replay"))
