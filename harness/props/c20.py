"""C20 — graph files are parsed faithfully and malformed files are rejected.

Proof: FP/Props/C20.lean about FP/Model/Parser.lean (token-level model of `read_graph` / `read_graphs`).
Tie (K1): `flowpaths.utils.graphutils.read_graphs(path)` on real temporary files against the Lean driver op
`parse` on the classified lines of the same file (classification = the str primitives the code itself uses;
`int()` / `float()` tabulated for the strings of the file; acceptance and the int value are compared with the
Lean literal model `FP/Model/Literals.lean` by suite K1.literals): graphs (node order, networkx edge order, exact
weights, id, constraints, n, m, presence of w) or the exception class and the statement that raised.
Oracles (independent of the model, written against the property text):
 * well-formed files: the parsed result is compared with the generating description; the stored width is compared
   with a brute-force maximum edge antichain (<= 16 edges) and with `flowpaths.stDiGraph(G').get_width()`
   recomputed on a graph built from the description;
 * single-line corruptions of well-formed files (token deleted / added on an edge line, non-numeric weight,
   non-numeric vertex count, constraint naming an absent edge, garbage line inside a block): ValueError must be
   raised; silent acceptance or another exception type is a violation.
"""
import json, os, random, tempfile
from fractions import Fraction

THEOREMS = [
    "FP.Props.C20.parse_render",
    "FP.Props.C20.built_graph_exact",
    "FP.Props.C20.built_graph_distinct",
    "FP.Props.C20.constraints_spec",
    "FP.Props.C20.split_lossless",
    "FP.Props.C20.malformed_rejected",
    "FP.Props.C20.wConstraint_rejected",
    "FP.Props.C20.wEdge_rejected",
    "FP.Props.C20.counts_match",
    "FP.Props.C20.leading_lines_ignored",
    "FP.Props.C20.no_header_no_graphs",
    "FP.Props.C20.exFile_wf",
    "FP.Props.C20.splitWs_tokens_clean",
    "FP.Props.C20.splitWs_join",
    "FP.Props.C20.classify_data_line",
    "FP.Props.C20.classify_edge_line",
    "FP.Props.C20.classify_subpath_line",
    "FP.Props.C20.classify_blank_iff",
    "FP.Props.C20.pyIntLit_render_nat",
    "FP.Props.C20.pyIntLit_ascii_digits",
    "FP.Props.C20.pyIntLit_rejects_nondigit",
    "FP.Props.C20.pyIntLit_rejects_nondigit_tail",
    "FP.Props.C20.pyFloatAccepts_int",
    "FP.Props.C20.pyFloatAccepts_rejects_empty",
]
IMPORTS = ["FP.Props.C20"]
RULE = ("file descriptions generated directly: 1-4 blocks; per block 1-3 header lines ('#', '##', indentation, empty "
        "text), '#S' lines (walks of the graph, single-node, empty, duplicated with different spacing) interleaved "
        "with the header lines, blank / whitespace-only lines at the top of the file, before the vertex-count line "
        "and anywhere after it, vertex-count line (true node count, sometimes another non-zero number, '0' for "
        "zero-vertex blocks), edge lines with random spacing, node names numeric / alphabetic / punctuated, weights "
        "int and float literals (dyadic and not, incl. exponent, leading '+', '.5', '3.', values within 1e-6 of an integer, 1e-9), repeated edges (later weight wins), "
        "graphs = random DAG order plus back edges and self-loops, repaired to have >= 1 source and >= 1 sink. "
        "Corruptions: every applicable (line, kind) pair of a sampled file, kinds = token deleted, token added, "
        "non-numeric weight, non-numeric vertex count, '#S' line naming an absent edge, garbage line inside a block. "
        "A quirk stream (model-vs-code only) holds: no header, '#S...' header texts, '#' lines after the data, blank "
        "line between header lines, lines before the first header, nan/inf/underscore literals, negative counts, "
        "graphs without source or sink, random line soups. A case is non-trivial iff it is a distinct file text with "
        "at least one edge line or one '#S' line.")
MODEL_SCOPE = ("modelled: read_graph (header scan, '#S' duplicate filter, id, blank skipping, vertex-count line, "
               "zero-vertex branch (ValueError on constraints / data lines, n=m=w=0), edge loop, add_edge overwrite semantics, constraint validation, n/m, the "
               "source/sink ValueError of stDiGraph) and read_graphs (block splitting); the str primitives through which "
               "the code looks at characters (str.strip/lstrip/split/startswith('#')/startswith('#S')/[2:]/lstrip('#'), "
               "whitespace = the 29 code points of str.isspace()) are modelled in FP/Model/Lexer.lean (`classify`) and "
               "tied by suite K1.lexer; which tokens int() (base 10) and float() accept on a str, and the value of int() "
               "(Nd digits of every script, underscores only between digits, one sign, the whitespace CPython strips "
               "there = str.isspace() minus U+001C..U+001F, the 4300-digit limit of int(), inf/infinity/nan, "
               "mantissa/exponent grammar), are modelled in FP/Model/Literals.lean (`pyIntLit`, `pyFloatAccepts`) and "
               "tied by suite K1.literals (driver op lit.check against the real int()/float() on every count-line / "
               "token of every generated, corrupted and corpus file and on a dedicated literal stream). Not modelled "
               "(oracle parameters): the numeric VALUE of float() (decimal -> binary64 rounding), the value of "
               "get_width() (checked by the width oracle instead); file I/O and newline translation.")
TRUSTED = ["the `parse` requests still carry int()/float() tables produced by the running CPython (oracle parameters of "
           "FP/Model/Parser.lean, with the width); acceptance by int()/float() and the value of int() are compared "
           "with FP/Model/Literals.lean for every tabulated string by K1.literals, so only the binary64 VALUE of an "
           "accepted float literal (and the width) remains a genuine oracle parameter",
           "the Nd digit table of FP/Model/Literals.lean is generated by harness/tools/gen_digit_table.py from the "
           "running CPython (3.12.1, Unicode 15.0.0); K1.literals re-checks every Nd code point and the neighbours "
           "of every run against the interpreter in use",
           "the K1 `parse` requests still carry lines classified by the python function `classify` (the real str "
           "primitives, as read_graph uses them); K1.lexer compares that function with the Lean `classify` on every "
           "line of every generated file and on a dedicated character stream, and K1.lexer.e2e replays sampled files "
           "with the classification done by Lean",
           "lone surrogate code points (not Unicode scalar values, not representable as Lean `Char`) are not exercised"]
ASSUMPTIONS = ["graphs without source or sink: the model raises as stDiGraph documents; a separate oracle (site "
               "AbstractSourceSinkGraph) checks that no graph without source/sink is accepted by stDiGraph (defect "
               "fixed by 49fd43a, the oracle stays)",
               "files are ASCII text with '\\n' line ends (universal-newline translation is not exercised)",
               "the graph of every non-zero block has at least one source and one sink (otherwise read_graph raises "
               "ValueError from stDiGraph; modelled, exercised in the quirk stream)"]

SITE = "flowpaths.utils.graphutils.read_graph"
SITES = "flowpaths.utils.graphutils.read_graphs"


# ------------------------------------------------------------------------------------------------- glue

def classify(line):
    """trusted glue: the same str primitives as read_graph / read_graphs"""
    if line.lstrip().startswith('#'):
        stripped = line.lstrip()
        if stripped.startswith("#S"):
            return {"k": "subpath", "tokens": stripped[2:].strip().split()}
        return {"k": "header", "text": stripped.lstrip("#").strip()}
    if line.strip() == "":
        return {"k": "blank"}
    return {"k": "data", "text": line.strip(), "tokens": line.split()}


def canon_float(x):
    if x != x:
        return "nan"
    if x == float("inf"):
        return "inf"
    if x == float("-inf"):
        return "-inf"
    f = Fraction(x)
    return str(f.numerator) if f.denominator == 1 else f"{f.numerator}/{f.denominator}"


def py_int(s):
    try:
        return int(s)
    except ValueError:
        return None


def py_float(s):
    try:
        return canon_float(float(s))
    except ValueError:
        return None


LIT_POOL = set()     # every count-line text / data token that was handed to int() / float() (compared in K1.literals)
LEX_POOL = set()     # every distinct raw line that went through the python classifier (compared in K1.lexer)
K1_TEXTS = []        # the file texts of the K1 suites (a sample is replayed in K1.lexer.e2e)


def request(lines, single=False, cl=None):
    if cl is None:
        LEX_POOL.update(lines)
    cl = [classify(l) for l in lines] if cl is None else cl
    ints, floats = {}, {}
    for c in cl:
        if c["k"] == "data":
            ints.setdefault(c["text"], py_int(c["text"]))
            LIT_POOL.add(c["text"])
            LIT_POOL.update(c["tokens"])
            for t in c["tokens"]:
                floats.setdefault(t, py_float(t))
    return {"op": "parse", "lines": cl, "ints": [[k, v] for k, v in ints.items()],
            "floats": [[k, v] for k, v in floats.items()], "single": single}


def exc_kind(e):
    m = str(e)
    if m.startswith("Graph block missing vertex-count line"):
        return "missingCount"
    if m.startswith("invalid literal for int()"):
        return "badCount"
    if "has 0 vertices but declares subpath constraints" in m:
        return "zeroWithConstraints"
    if "has 0 vertices but contains the line" in m:
        return "zeroWithData"
    if m.startswith("Invalid edge format"):
        return "badEdgeFormat"
    if m.startswith("could not convert string to float"):
        return "badWeight"
    if m.startswith("Constraint edge"):
        return "constraintEdgeMissing"
    if m.startswith("The graph passed to stDiGraph must have at least one"):
        return "noSourceOrSink"
    return "other:" + m[:80]


def graph_obs(G):
    return {"nodes": list(G.nodes),
            "edges": [[u, v, canon_float(w)] for u, v, w in G.edges(data="flow")],
            "id": G.graph.get("id"),
            "constraints": [[[u, v] for (u, v) in c] for c in G.graph.get("constraints", [])],
            "n": G.graph.get("n"), "m": G.graph.get("m"),
            "w": None if "w" not in G.graph else ("0" if G.graph["w"] == 0 else "oracle")}


def with_file(text, fn):
    fd, path = tempfile.mkstemp(suffix=".graph", prefix="c20_")
    try:
        with os.fdopen(fd, "w", newline="") as f:
            f.write(text)
        return fn(path)
    finally:
        try:
            os.unlink(path)
        except OSError:
            pass


LOG = {"debug": False}


def set_logging(fp, debug):
    """the package logger at DEBUG (messages go to a NullHandler) or silenced: what is parsed must not depend on it"""
    from fpv import common
    LOG["debug"] = bool(debug)
    common.set_package_logging(fp, bool(debug))


def finp(text, **extra):
    """replayable input of a violation / disagreement"""
    d = {"file": text}
    if LOG["debug"]:
        d["logging"] = "DEBUG"
    d.update(extra)
    return d


ACCEPTED = []      # base graphs that stDiGraph accepted during the last run_impl (observation only)


def run_impl(fp, text):
    """('ok', [nx graphs]) | ('exc', class name, kind); records the graphs stDiGraph accepted on the way"""
    mod = fp.stdigraph
    orig = mod.stDiGraph
    del ACCEPTED[:]

    def recording(G, *a, **k):
        obj = orig(G, *a, **k)
        ACCEPTED.append(G)
        return obj

    def go(path):
        mod.stDiGraph = recording
        try:
            return ("ok", fp.utils.graphutils.read_graphs(path))
        except Exception as e:            # noqa: the class is the observation
            return ("exc", type(e).__name__, exc_kind(e))
        finally:
            mod.stDiGraph = orig
    return with_file(text, go)


def file_lines(text):
    def go(path):
        with open(path, "r") as f:
            return f.readlines()
    return with_file(text, go)


def same(impl_obs, model):
    """impl observation vs driver answer; ids: model null = str(id(...)) = some decimal string"""
    if impl_obs[0] == "exc":
        return model.get("error") == impl_obs[1] and model.get("kind") == impl_obs[2]
    if "graphs" not in model or len(model["graphs"]) != len(impl_obs[1]):
        return False
    for a, b in zip(impl_obs[1], model["graphs"]):
        a = dict(a)
        b = dict(b)
        if b["id"] is None:
            if not (isinstance(a["id"], str) and a["id"].isdigit()):
                return False
            a["id"] = None
        if a != b:
            return False
    return True


def k1(ctx, suite, text, nontrivial=True, hist=None, lines=None):
    """one execution of read_graphs compared with the model; returns the impl result"""
    lines = text.splitlines(keepends=True) if lines is None else lines
    res = run_impl(ctx.fp, text)
    obs = ("ok", [graph_obs(G) for G in res[1]]) if res[0] == "ok" else res
    model = ctx.driver.call(request(lines))
    K1_TEXTS.append(text)
    ctx.rep.count(suite, text, nontrivial=nontrivial, hist=hist or [])
    ctx.rep.cov["traces_validated_against_impl"] += 1
    if not same(obs, model):
        if not source_sink_oracle(ctx, text, res, model):
            ctx.disagree(suite, finp(text), obs if obs[0] == "exc" else obs[1], model)
    return res


def k1_single(ctx, suite, lines):
    """read_graph called directly on a list of lines (blocks that read_graphs would never cut this way)"""
    mod = ctx.fp.stdigraph
    orig = mod.stDiGraph
    del ACCEPTED[:]

    def recording(G, *a, **k):
        obj = orig(G, *a, **k)
        ACCEPTED.append(G)
        return obj
    mod.stDiGraph = recording
    try:
        res = ("ok", [ctx.fp.utils.graphutils.read_graph(list(lines))])
    except Exception as e:                # noqa
        res = ("exc", type(e).__name__, exc_kind(e))
    finally:
        mod.stDiGraph = orig
    obs = ("ok", [graph_obs(G) for G in res[1]]) if res[0] == "ok" else res
    model = ctx.driver.call(request(lines, single=True))
    text = "".join(lines)
    ctx.rep.count(suite, text, nontrivial=True, hist=["read_graph direct"])
    ctx.rep.cov["traces_validated_against_impl"] += 1
    if not same(obs, model):
        if not source_sink_oracle(ctx, text, res, model):
            ctx.disagree(suite, finp(text, single_block=True), obs if obs[0] == "exc" else obs[1], model)
    return res


SITE_ST = "flowpaths.abstractsourcesinkgraph.AbstractSourceSinkGraph._augment_with_source_sink"


def source_sink_oracle(ctx, text, res, model):
    """The one place where the model follows the documented contract instead of the code: stDiGraph must raise
    ValueError for a graph without a node of in-degree 0 (or of out-degree 0).  When the model raised for that reason
    and the code went on, check the contract directly on the graphs stDiGraph accepted (independent of the model)."""
    if model.get("kind") != "noSourceOrSink":
        return False
    for G in list(ACCEPTED):
        no_src = not any(G.in_degree(v) == 0 for v in G.nodes)
        no_snk = not any(G.out_degree(v) == 0 for v in G.nodes)
        ctx.rep.cov["oracle_evaluations"] += 1
        if no_src or no_snk:
            ctx.violation("stDiGraph accepted a graph without " + ("source" if no_src else "sink")
                          + f" (documented: ValueError); read_graph stored w={G.graph.get('w')}",
                          finp(text, nodes=list(G.nodes), edges=[list(e) for e in G.edges]), site=SITE_ST)
            return True
    return False


# ------------------------------------------------------------------------------------------------- generator

NAME_POOLS = [
    lambda i: str(i),
    lambda i: str(1000 + 7 * i),
    lambda i: "abcdefghijklmnopqrstuvwxyz"[i % 26] + ("" if i < 26 else str(i // 26)),
    lambda i: f"node_{i}",
    lambda i: f"v{i}.x" if i % 2 else f"{i}-b",
    lambda i: ["s", "t", "S", "0", "1.5", "x", "a#", "n", "inf", "e1"][i % 10] + ("" if i < 10 else str(i)),
]
WEIGHTS = ["1", "2", "7", "10", "0", "42", "3.0", "2.5", "0.25", "0.125", "1e1", "2E0", ".5", "3.", "+4", "-1.5",
           "100", "12.75", "1e-0", "6.0e1", "007",
           # not representable / next to an integer / tiny: the value stored has to be float(token), nothing "tidier"
           "0.1", "4.9999999", "2.0000004", "1e-07", "2.9999999999", "0.30000000000000004", "123456.0000001", "1e-9"]
WS = [" ", " ", " ", "  ", "\t", " \t "]


def gen_graph(rng, n_nodes, cyclic):
    """edge list (insertion order) over nodes 0..n-1, every node incident to an edge, >=1 source, >=1 sink"""
    order = list(range(n_nodes))
    rng.shuffle(order)
    edges = []
    seen = set()

    def add(u, v):
        if (u, v) not in seen:
            seen.add((u, v)); edges.append((u, v))
    for i in range(1, n_nodes):
        add(order[rng.randrange(0, i)], order[i])
    for _ in range(rng.randint(0, n_nodes)):
        i, j = sorted(rng.sample(range(n_nodes), 2)) if n_nodes >= 2 else (0, 0)
        if i != j:
            add(order[i], order[j])
    if cyclic and n_nodes >= 2:
        for _ in range(rng.randint(1, 3)):
            i, j = sorted(rng.sample(range(n_nodes), 2))
            if rng.random() < 0.25:
                add(order[i], order[i])
            else:
                add(order[j], order[i])
    if n_nodes == 1:
        return None
    rng.shuffle(edges)
    indeg = {v: 0 for v in range(n_nodes)}
    outdeg = {v: 0 for v in range(n_nodes)}
    for u, v in edges:
        outdeg[u] += 1; indeg[v] += 1
    extra = n_nodes
    if not any(d == 0 for d in indeg.values()):
        edges.insert(rng.randint(0, len(edges)), (extra, rng.randrange(n_nodes))); extra += 1
    if not any(outdeg[v] == 0 for v in range(n_nodes)):
        edges.insert(rng.randint(0, len(edges)), (rng.randrange(n_nodes), extra)); extra += 1
    return edges


def rand_walk(rng, adj, length):
    starts = [u for u in adj if adj[u]]
    if not starts:
        return None
    cur = rng.choice(starts)
    w = [cur]
    for _ in range(length):
        if not adj.get(cur):
            break
        cur = rng.choice(adj[cur]); w.append(cur)
    return w


def sp(rng):
    return rng.choice(WS)


def indent(rng):
    return rng.choice(["", "", "", " ", "\t", "   "])


def trail(rng):
    return rng.choice(["", "", "", " ", "\t ", "  "])


def blank_line(rng):
    return rng.choice(["", "", " ", "\t", "   \t"]) + "\n"


def gen_block(rng, bi, zero):
    """returns (raw lines, expectation dict, line roles)"""
    name = NAME_POOLS[rng.randrange(len(NAME_POOLS))]
    exp = {"zero": zero}
    edges, weights = [], []
    if not zero:
        g = None
        while g is None:
            g = gen_graph(rng, rng.randint(2, 7 if rng.random() < 0.8 else 12), rng.random() < 0.5)
        for (u, v) in g:
            edges.append((name(u), name(v))); weights.append(rng.choice(WEIGHTS))
        # repeated edges: later weight wins, position of the first stays
        for _ in range(rng.choice([0, 0, 0, 1, 2])):
            k = rng.randrange(len(edges))
            pos = rng.randint(k + 1, len(edges))
            edges.insert(pos, edges[k]); weights.insert(pos, rng.choice(WEIGHTS))
    adj = {}
    for (u, v) in edges:
        adj.setdefault(u, []).append(v); adj.setdefault(v, [])
    # header section
    hashes = []      # (kind, raw, payload)
    nh = rng.randint(1, 3)
    texts = []
    for h in range(nh):
        t = rng.choice([f"graph number = {bi} name = g{rng.randint(0, 99)}", f"g{bi}.{h}", "x", f"{bi}",
                        "a b c", "unique source is 0", "", "Graph 2", "s t", "gt15.kmer21.(4.2).V3.E6.acyc.graph"])
        raw = indent(rng) + "#" * rng.choice([1, 1, 1, 2, 3]) + rng.choice(["", " ", " ", "  ", "\t"]) + t + trail(rng) + "\n"
        assert not raw.lstrip().startswith("#S")
        texts.append(t.strip())
        hashes.append(("h", raw, t.strip()))
    seqs = []
    for _ in range(rng.choice([0, 0, 1, 2, 3, 4])):
        r = rng.random()
        if r < 0.12:
            seq = []                                            # '#S' alone
        elif r < 0.25 or zero:
            seq = [name(rng.randrange(5))] if rng.random() < 0.8 else []   # single node: ignored
        else:
            seq = rand_walk(rng, adj, rng.randint(1, 4)) or []
        seqs.append(seq)
    for s in list(seqs):
        if rng.random() < 0.3:
            seqs.insert(rng.randint(0, len(seqs)), list(s))      # duplicate '#S' line
    shashes = []
    for s in seqs:
        first = "" if (s and rng.random() < 0.1) or (not s and rng.random() < 0.5) else sp(rng)   # '#Sa b' is legal
        raw = indent(rng) + "#S" + first + sp(rng).join(s) + trail(rng) + "\n"
        shashes.append(("s", raw, s))
    # interleave, keeping relative orders
    merged = []
    a, b = list(hashes), list(shashes)
    while a or b:
        if a and (not b or rng.random() < 0.5):
            merged.append(a.pop(0))
        else:
            merged.append(b.pop(0))
    exp["id"] = texts[0]
    cons, seen = [], set()
    for s in seqs:
        if tuple(s) in seen:
            continue
        seen.add(tuple(s))
        if len(s) >= 2:
            cons.append([[x, y] for x, y in zip(s, s[1:])])
    exp["constraints"] = cons
    lines, roles = [], []
    for (k, raw, p) in merged:
        lines.append(raw); roles.append(("hash", k))
    for _ in range(rng.choice([0, 0, 0, 1, 2])):
        lines.append(blank_line(rng)); roles.append(("blank-pre",))
    nodes = []
    for (u, v) in edges:
        for x in (u, v):
            if x not in nodes:
                nodes.append(x)
    if zero:
        cnt = rng.choice(["0", "0", "00", "+0", "-0"])
    else:
        cnt = str(len(nodes)) if rng.random() < 0.85 else rng.choice([str(len(edges) + 50), "1", "+3", "-2", "1_0"])
    lines.append(indent(rng) + cnt + trail(rng) + "\n"); roles.append(("count",))
    exp["count_token"] = cnt
    for (u, v), w in zip(edges, weights):
        while rng.random() < 0.12:
            lines.append(blank_line(rng)); roles.append(("blank-body",))
        lines.append(indent(rng) + u + sp(rng) + v + sp(rng) + w + trail(rng) + "\n"); roles.append(("edge",))
    for _ in range(rng.choice([0, 0, 1, 2])):
        lines.append(blank_line(rng)); roles.append(("blank-body",))
    emap = {}
    for (u, v), w in zip(edges, weights):
        emap[(u, v)] = Fraction(float(w))      # the listed weight: the double the literal denotes
    exp["nodes"] = nodes
    exp["edges"] = emap
    return lines, exp, roles


def gen_file(rng):
    nb = rng.choice([1, 1, 2, 2, 3, 4])
    lines, exps, roles = [], [], []
    for _ in range(rng.choice([0, 0, 0, 1, 2])):
        lines.append(blank_line(rng)); roles.append((None, ("blank-top",)))
    for bi in range(nb):
        zero = rng.random() < 0.15
        l, e, r = gen_block(rng, bi, zero)
        lines += l; exps.append(e); roles += [(bi, x) for x in r]
    if rng.random() < 0.2 and lines[-1].endswith("\n"):
        lines[-1] = lines[-1][:-1]                  # no newline at end of file
        if lines[-1] == "":
            lines.pop(); roles.pop()
    return lines, exps, roles


# ------------------------------------------------------------------------------------------------- oracles

def brute_width(nodes, edges):
    """maximum number of pairwise walk-incomparable edges (e <= f iff head(e) reaches tail(f)); by Dilworth this is
    the minimum number of walks covering every edge.  Exhaustive search, independent of networkx / flowpaths."""
    idx = {v: i for i, v in enumerate(nodes)}
    n = len(nodes)
    reach = [[i == j for j in range(n)] for i in range(n)]
    for (u, v) in edges:
        reach[idx[u]][idx[v]] = True
    for k in range(n):
        for i in range(n):
            if reach[i][k]:
                for j in range(n):
                    if reach[k][j]:
                        reach[i][j] = True
    m = len(edges)
    comp = [[False] * m for _ in range(m)]
    for a, (u1, v1) in enumerate(edges):
        for b, (u2, v2) in enumerate(edges):
            if a != b and (reach[idx[v1]][idx[u2]] or reach[idx[v2]][idx[u1]]):
                comp[a][b] = True
    best = 0

    def rec(cands, size):
        nonlocal best
        if size + len(cands) <= best:
            return
        if not cands:
            best = max(best, size); return
        a = cands[0]
        rec([c for c in cands[1:] if not comp[a][c]], size + 1)
        rec(cands[1:], size)
    rec(list(range(m)), 0)
    return best


def recomputed_width(fp, nodes, emap):
    import networkx as nx
    H = nx.DiGraph()
    for (u, v), w in emap.items():
        H.add_edge(u, v, flow=float(w))
    return fp.stDiGraph(H).get_width()


def oracle_wellformed(ctx, text, exps, res):
    """the property, read off the description; returns a list of (what, site)"""
    bad = []
    if res[0] != "ok":
        return [(f"well-formed file raised {res[1]} ({res[2]})", SITES)]
    Gs = res[1]
    if len(Gs) != len(exps):
        return [(f"{len(exps)} blocks in the file, {len(Gs)} graphs returned", SITES)]
    for bi, (G, e) in enumerate(zip(Gs, exps)):
        got_e = {(u, v): d.get("flow") for u, v, d in G.edges(data=True)}
        if set(G.nodes) != set(e["nodes"]) or len(list(G.nodes)) != len(e["nodes"]):
            bad.append((f"block {bi}: node set {sorted(G.nodes)} != listed {sorted(e['nodes'])}", SITE))
        if set(got_e) != set(e["edges"]):
            bad.append((f"block {bi}: edge set differs from the listed edges", SITE))
        else:
            for k, w in e["edges"].items():
                x = got_e[k]
                if not isinstance(x, float) or x != x or x in (float("inf"), float("-inf")) or Fraction(x) != w:
                    bad.append((f"block {bi}: weight of {k} is {x!r}, listed {float(w)!r}", SITE))
        if G.graph.get("id") != e["id"]:
            bad.append((f"block {bi}: id {G.graph.get('id')!r} != first header line {e['id']!r}", SITE))
        cons = [[[u, v] for (u, v) in c] for c in G.graph.get("constraints", [])]
        if cons != e["constraints"]:
            bad.append((f"block {bi}: constraints {cons} != distinct '#S' lines {e['constraints']}", SITE))
        if e["zero"]:
            for k in ("n", "m", "w"):
                if G.graph.get(k) != 0 or isinstance(G.graph.get(k), bool):
                    bad.append((f"block {bi}: zero-vertex block stores {k}={G.graph.get(k)!r}, expected 0", SITE))
            continue
        if G.graph.get("n") != len(e["nodes"]) or G.graph.get("n") != G.number_of_nodes():
            bad.append((f"block {bi}: stored n={G.graph.get('n')} but {len(e['nodes'])} nodes", SITE))
        if G.graph.get("m") != len(e["edges"]) or G.graph.get("m") != G.number_of_edges():
            bad.append((f"block {bi}: stored m={G.graph.get('m')} but {len(e['edges'])} edges", SITE))
        w2 = recomputed_width(ctx.fp, e["nodes"], e["edges"])
        if G.graph.get("w") != w2:
            bad.append((f"block {bi}: stored w={G.graph.get('w')} but recomputed get_width()={w2}", SITE))
        if len(e["edges"]) <= 16:
            w3 = brute_width(e["nodes"], list(e["edges"]))
            ctx.rep.cov["oracle_evaluations"] += 1
            if G.graph.get("w") != w3:
                bad.append((f"block {bi}: stored w={G.graph.get('w')} but the maximum edge antichain has {w3} edges",
                            "flowpaths.stdigraph.stDiGraph.get_width"))
    return bad


GARBAGE = ["garbage", "@@ !!", "x y z", "1 2 3 4", "a b", "??", "e d g e 1", "0 1 one", "--", "a,b,1"]
BADNUM = ["abc", "x7", "1.0.0", "1,5", "--3", "1e", "e5", "0x10", "one", "3..", "1/2", "xq"]
BADCOUNT = ["abc", "3.0", "1 2", "x7", "1e3", "--3", "0x", "n=3", "1.5", "two"]


def corruptions(rng, lines, exps, roles):
    """all applicable single-line corruptions: (kind, new lines, zero-vertex block?, detail)"""
    out = []
    fresh = "zz_absent"
    for i, (bi, role) in enumerate(roles):
        if bi is None:
            continue
        zero = exps[bi]["zero"]
        nl = "\n" if lines[i].endswith("\n") else ""
        if role[0] == "edge":
            toks = lines[i].split()
            k = rng.randrange(3)
            out.append(("token-deleted", lines[:i] + [" ".join(toks[:k] + toks[k + 1:]) + nl] + lines[i + 1:], zero, i))
            k = rng.randrange(4)
            extra = rng.choice(["1", "x", "2.5", toks[0]])
            out.append(("token-added", lines[:i] + [" ".join(toks[:k] + [extra] + toks[k:]) + nl] + lines[i + 1:], zero, i))
            out.append(("non-numeric-weight", lines[:i] + [f"{toks[0]} {toks[1]} {rng.choice(BADNUM)}" + nl] + lines[i + 1:], zero, i))
        if role[0] == "count":
            out.append(("non-numeric-count", lines[:i] + [rng.choice(BADCOUNT) + nl] + lines[i + 1:], zero, i))
            # garbage line right before the count line (becomes the count line) and right after it
            out.append(("garbage-line", lines[:i] + [rng.choice(GARBAGE) + "\n"] + lines[i:], zero, i))
            fixed = lines[i] if nl else lines[i] + "\n"
            out.append(("garbage-line", lines[:i] + [fixed, rng.choice(GARBAGE) + "\n"] + lines[i + 1:], zero, i + 1))
            # '#S' line naming an absent edge, inserted into the header section (just before the blank/count lines)
            j = i
            while j > 0 and roles[j - 1][1][0] == "blank-pre":
                j -= 1
            e = exps[bi]
            r = rng.random()
            if e["nodes"] and r < 0.4:
                seq = [rng.choice(e["nodes"]), fresh]
            elif e["nodes"] and r < 0.7:
                w = None
                for (u, v) in e["edges"]:
                    if (v, u) not in e["edges"]:
                        w = [v, u]; break
                seq = w or [fresh, rng.choice(e["nodes"])]
            else:
                seq = [fresh, fresh + "2"]
            out.append(("constraint-absent-edge", lines[:j] + ["#S " + " ".join(seq) + "\n"] + lines[j:], zero, j))
        if role[0] in ("edge", "blank-body") and rng.random() < 0.5:
            fixed = lines[i] if nl else lines[i] + "\n"
            out.append(("garbage-line", lines[:i] + [fixed, rng.choice(GARBAGE) + "\n"] + lines[i + 1:], zero, i + 1))
    return out


def check_corruption(ctx, suite, kind, clines, zero, where, do_k1=True):
    text = "".join(clines)
    if do_k1:
        res = k1(ctx, suite, text, nontrivial=True, hist=[kind, "zero-vertex-block" if zero else "nonzero-block"],
                 lines=clines)
    else:
        res = run_impl(ctx.fp, text)
    ctx.rep.cov["oracle_evaluations"] += 1
    inp = finp(text, corruption=kind, corrupted_line=where, zero_vertex_block=bool(zero))
    if res[0] == "ok":
        ctx.violation(f"malformed block silently accepted ({kind}"
                      + (", in a block whose vertex-count line is 0" if zero else "") + "): read_graphs returned "
                      f"{len(res[1])} graph(s) instead of raising ValueError", inp, site=SITE)
        return False
    if res[1] != "ValueError":
        ctx.violation(f"malformed block ({kind}) raised {res[1]} instead of ValueError: {res[2]}", inp, site=SITE)
        return False
    return True


def check_wellformed(ctx, suite, lines, exps, do_k1=True):
    text = "".join(lines)
    nontriv = any(e["edges"] or e["constraints"] for e in exps)
    hist = [f"blocks={len(exps)}"] + sorted({"zero-vertex" if e["zero"] else "nonzero" for e in exps})
    res = k1(ctx, suite, text, nontrivial=nontriv, hist=hist, lines=lines) if do_k1 else run_impl(ctx.fp, text)
    ctx.rep.cov["oracle_evaluations"] += 1
    ctx.rep.count("oracle.wellformed", text, nontrivial=nontriv, hist=[f"blocks={len(exps)}"])
    bad = oracle_wellformed(ctx, text, exps, res)
    for what, site in bad:
        ctx.violation(what, finp(text), site=site)
    return res, not bad


# the regression files of FP.Props.C20.wConstraint_rejected / wEdge_rejected (accepted before fix 1264962 of /repo)
WITNESSES = [
    ("constraint-absent-edge", "# g\n#S a b\n0\n", "Lean regression file wConstraint"),
    ("garbage-line", "# g\n0\na b\n", "Lean regression file wEdge"),
]

QUIRKS = [
    "2\na b 1\n",                               # no header: no graph at all
    "junk line\n# g\n2\na b 1\n",               # lines before the first header are skipped
    "# g\n2\na b 1\n# note\nb c 2\n",           # '#' line after the data starts a new block
    "# g\n\n# h\n2\na b 1\n",                   # blank line between header lines
    "#Some graph\n2\na b 1\n",                  # '#S...' is a constraint line
    "#Sample\n# real\n2\na b 1\n",
    "#S\n2\na b 1\n",                           # no header text at all: id = str(id(...))
    "#S a b\n2\na b 1\n",
    "# g\n2\na b nan\nb c inf\nc d -inf\n",
    "# g\n-2\na b 1_0\n",
    "# g\n 1_0 \na b 1\n",
    "# g\n3\n",                                 # isolated vertices cannot be written: no source
    "# g\n3\na b 1\nb a 2\n",                   # cycle: no source
    "# g\n3\na a 1\n",
    "# g\n3\na b 1\nb b 2\n",
    "# h\n3\na b 3\na a 2\nb c 2\n",       # no source; was accepted before fix 49fd43a ('c' in "source_<id>")
    "# h\n2\n0 1 1\n1 0 1\n",                 # cycle on digit-named nodes (digits of "source_<id>")
    "# g\n0\na b 1\n",                          # vertex count 0 with an edge line: ValueError since 1264962
    "# g\n#S a\n#S\n0\n\n  \n",                  # zero-vertex block with '#S' lines that define no constraint: fine
    "# g\n#S a b\n0\nx\n",                      # both new raises apply: the constraint one comes first
    "# g\n0\n# h\n1\na b 1\n",
    "# only a header\n",
    "# g\n\n\n",
    "",
    "\n\n",
    "# g\n2\na b 1\n#S a b\n",                   # '#S' after the data: a block of its own, no count
    "# g\n#S a b c\n#S a  b\tc\n#S b c\n#S a\n#S\n3\na b 1\nb c 2\n\n\n#h2\n\n1\nx y 0x10\n",
    "# g\n2\na b 1 \n a  b\t2\n",
    "# g\n2\na b 1\r\nb c 2\r\n",
    "   # g\n  #S a b\n1\n a   b\t1e2 \n",
    "# g\n#S a b\n#S a b\n2\nb a 1\n",
    "## # g\n2\na b 1\n",
]


def soup(rng):
    """random line soup: arbitrary order of all line kinds"""
    pool = ["# h\n", "#x\n", "#S a b\n", "#S b c\n", "#S a\n", "#S\n", "#S a b c\n", "\n", "  \n", "0\n", "2\n", "3\n",
            "x\n", "a b 1\n", "b c 2\n", "a b 3\n", "c a 1\n", "a b\n", "a b c\n", "a b 1 2\n", "b a 0.5\n", "c d 1\n",
            "a a 2\n", "-1\n", "1.5\n"]
    return [rng.choice(pool) for _ in range(rng.randint(0, 9))]


# ------------------------------------------------------------------------------------------------- K1.lexer

PY_SPACES = ([chr(i) for i in range(0x9, 0xE)] + [chr(i) for i in range(0x1C, 0x21)] + ["\x85", "\xa0", "\u1680"]
             + [chr(i) for i in range(0x2000, 0x200B)] + ["\u2028", "\u2029", "\u202f", "\u205f", "\u3000"])
# neighbours of the table that are NOT whitespace for str (incl. U+200B, U+FEFF, U+180E, NUL), and non-BMP characters
NON_SPACES = ["\x00", "\x08", "\x0e", "\x1b", "\x21", "\x7f", "\x84", "\x86", "\x9f", "\xa1", "\u167f", "\u1681",
              "\u180e", "\u1fff", "\u200b", "\u200c", "\u2027", "\u202a", "\u202e", "\u2030", "\u205e", "\u2060",
              "\u2fff", "\u3001", "\ufeff", "\uffff", "\U00010000", "\U0001d518", "\U0001f600", "\U000e0020",
              "\U0010ffff", "\ud7ff", "\ue000"]
LEX_LISTED = ["", "#", "#S", "##S", "# S", "#Sx", "#S x", "#s a", " #", "\t#S a b", "\u3000# h", "\xa0#S\x1fa\u2028b",
              "S#", "a#S", "#\x00S", "###", "# # #", "#S#S", "#S #", "\n", "\r\n", " \n", "a b 1\n", "\x1c\x1d\x1e\x1f",
              "\u2000\u2001\u2002\u2003\u2004\u2005\u2006\u2007\u2008\u2009\u200a", "\u200b", "\ufeff#S a",
              "a\x00b c 1", "\x00", "#S\x00", "\U0001d518 \U0001f600 1", "#\U0001d518", "##  x  ##", "#  S a",
              "#S\u3000\u3000", "# \x85 ", "x\x0by\x0cz"]


def lex_norm_py(line):
    c = classify(line)
    return {"kind": c["k"], "text": c.get("text", ""), "tokens": list(c.get("tokens", []))}


def lex_line(rng):
    """one line of the dedicated stream: pieces drawn from tokens, every whitespace character, '#', '#S', ..."""
    def tok():
        k = rng.randint(1, 4)
        return "".join(rng.choice(["a", "b", "7", ".", "-", "S", "#", "x"] + NON_SPACES) for _ in range(k))

    def ws():
        return "".join(rng.choice(PY_SPACES) for _ in range(rng.randint(1, 3)))
    shape = rng.randint(0, 5)
    if shape == 0:                     # only whitespace (possibly empty)
        return "".join(rng.choice(PY_SPACES) for _ in range(rng.randint(0, 5)))
    pieces = []
    if rng.random() < 0.5:
        pieces.append(ws())
    if shape in (1, 2):
        pieces.append(rng.choice(["#", "#S", "##S", "# S", "#Sx", "##", "#s", "#S#", "#\x00", "S#"]))
        if rng.random() < 0.7:
            pieces.append(ws())
    for _ in range(rng.randint(0, 4)):
        pieces.append(tok())
        pieces.append(ws() if rng.random() < 0.9 else "")
    if rng.random() < 0.3:
        pieces.append(rng.choice(["\n", "\r\n", "\r"]))
    return "".join(pieces)


def lex_to_cl(m):
    """driver answer of `lex.classify` -> the line format of the `parse` request"""
    if m["kind"] == "header":
        return {"k": "header", "text": m["text"]}
    if m["kind"] == "subpath":
        return {"k": "subpath", "tokens": m["tokens"]}
    if m["kind"] == "blank":
        return {"k": "blank"}
    return {"k": "data", "text": m["text"], "tokens": m["tokens"]}


def lean_classify(ctx, lines):
    """the Lean classification of the lines; both transports (JSON strings, code-point arrays) must agree"""
    out = []
    for i in range(0, len(lines), 200):
        chunk = lines[i:i + 200]
        ans = ctx.driver.call({"op": "lex.classify", "lines": chunk, "cps": [[ord(c) for c in l] for l in chunk]})
        a, b = ans[:len(chunk)], ans[len(chunk):]
        for l, x, y in zip(chunk, a, b):
            m = {"kind": y["kind"], "text": "".join(map(chr, y["text_cp"])),
                 "tokens": ["".join(map(chr, t)) for t in y["tokens_cp"]]}
            ms = {"kind": x["kind"], "text": x["text"], "tokens": x["tokens"]}
            ms_cp = {"kind": x["kind"], "text": "".join(map(chr, x["text_cp"])),
                     "tokens": ["".join(map(chr, t)) for t in x["tokens_cp"]]}
            if not (m == ms == ms_cp):
                ctx.disagree("K1.lexer", {"line": l, "cps": [ord(c) for c in l], "what": "JSON string transport vs "
                             "code-point transport"}, m, {"strings": ms, "strings_cp": ms_cp})
            out.append(m)
    return out


def k1_lexer(ctx, lines, origin):
    lines = list(lines)
    models = lean_classify(ctx, lines)
    for l, model in zip(lines, models):
        impl = lex_norm_py(l)
        exotic = any(ord(c) > 0x7f or ord(c) < 0x20 and c not in "\t\n" for c in l)
        hist = [origin, "kind=" + impl["kind"], "tokens=%d" % min(len(impl["tokens"]), 5)]
        if exotic:
            hist.append("non-ASCII / control characters")
        if any(ord(c) > 0xffff for c in l):
            hist.append("non-BMP")
        if "\x00" in l:
            hist.append("NUL")
        ctx.rep.count("K1.lexer", l, nontrivial=l.strip() != "", hist=hist)
        ctx.rep.cov["traces_validated_against_impl"] += 1
        if impl != model:
            ctx.disagree("K1.lexer", {"line": l, "cps": [ord(c) for c in l]}, impl, model)


def k1_lexer_e2e(ctx, lines, single=False):
    """end to end: read_graphs / read_graph of the code on the raw lines against the model fed with the LEAN
    classification of the same raw lines"""
    text = "".join(lines)
    cl = [lex_to_cl(m) for m in lean_classify(ctx, list(lines))]
    if single:
        try:
            res = ("ok", [ctx.fp.utils.graphutils.read_graph(list(lines))])
        except Exception as e:                # noqa
            res = ("exc", type(e).__name__, exc_kind(e))
    else:
        res = run_impl(ctx.fp, text)
    obs = ("ok", [graph_obs(G) for G in res[1]]) if res[0] == "ok" else res
    model = ctx.driver.call(request(lines, single=single, cl=cl))
    ctx.rep.count("K1.lexer.e2e", text, nontrivial=True, hist=["read_graph direct" if single else "read_graphs"])
    ctx.rep.cov["traces_validated_against_impl"] += 1
    if not same(obs, model):
        if not source_sink_oracle(ctx, text, res, model):
            ctx.disagree("K1.lexer.e2e", finp(text, single_block=single), obs if obs[0] == "exc" else obs[1], model)


# ------------------------------------------------------------------------------------------------- K1.literals

LIT_LISTED = ["1_000.5", "1._5", "1e", ".", "+.5", "1.e3", "\u0661\u0662", "1 2", "0x10", "1e+_5", "nan", "-Infinity",
              "infinit", "1\x002", "1\x00", " 1\x00 ", "\x001", "1_0", "+5", "+ 5", "\u0661_\u0662", "\uff11\uff12",
              "\xb2", "\u2460", "\u00bd", "1__0", "_1", "1_", "-nan", "+inf", "iNfInItY", "1_e5", "1e5_", "1e_5", "1_.5",
              "._5", "1.5_", "\uff11.\uff15e\uff11", "-", "+", "", " ", "\u066b5", "1e\u0663", "\xa01\u3000", "\x1c1",
              "1\x1f", "\x1d", "--1", "+-1", "nan1", "infx", "1.0.0", "1ee5", "e5", ".e5", "1.e", "0_0", "00", "-0",
              "1\x85", "5.", "-.5e-3", "1E5", "1e+5", "1e-5", "1e5.", "1e5e5", "in_f", "n_an", "inf_", "infinity_",
              "INFINITY", "NaN", "nan()", "1f", "1d", "1j", "0b1", "0o7", "1,5", "1'0", "1_0_0", "1_0__0", "+_1", "-_1",
              "1+", "1-", "1e+", "1e-", "+e5", "\u0131nf", "\u0130nf", "\u212a", "\uff45", "1\uff455", "\uff0b1", "\u22121",
              "\u0661.\u0662", "\u0967\u0968\u0969", "\U0001d7ce\U0001d7d7", "\U0001e950", "\u0661\uff12", "1\u200b",
              "\ufeff1", "\u20001\u2000", "\t1\n", "\x0b1\x0c", "\r1\r", "1\x7f", "\x7f", "\u06f4.5e\u06f4", "\u3007",
              "\u4e00", "\u0e51", "٠", "\U0001fbf9", "\U0001fbfa", "\U0001fbef", "0" * 5 + "7", "1.0", "2.50", "1e400",
              "1e-400", "0.1", "9007199254740993", "-1", "- 1", "1 ", " 1", "1\n", "٣٫٥"]
LIT_ALPHABET = list("0123456789_+-.eEinfatyx") + list("0123456789") + ["_", ".", "e"]


def lit_token(rng, nd_digits):
    shape = rng.randint(0, 9)
    def digs(k, pool="0123456789"):
        return "".join(rng.choice(pool) for _ in range(k))
    if shape <= 2:
        body = "".join(rng.choice(LIT_ALPHABET) for _ in range(rng.randint(0, 7)))
    elif shape == 3:        # structured float literal with optional defects
        body = rng.choice(["", "+", "-", "+-"]) + digs(rng.randint(0, 3)) + rng.choice(["", ".", "..", "_"]) + \
            digs(rng.randint(0, 3)) + rng.choice(["", "", "e", "E", "e+", "e-", "e_", "_e"]) + digs(rng.randint(0, 2))
    elif shape == 4:        # digits with underscores
        body = rng.choice(["", "+", "-"]) + "".join(rng.choice(["_", "__", "", "", ""]) + digs(1)
                                                     for _ in range(rng.randint(1, 6))) + rng.choice(["", "", "_"])
    elif shape == 5:        # inf / nan variants
        w = rng.choice(["inf", "infinity", "nan", "infinit", "infi", "in", "na", "nann", "infinityy", "inity"])
        body = rng.choice(["", "+", "-", "--"]) + "".join(ch.upper() if rng.random() < 0.4 else ch for ch in w)
    elif shape == 6:        # non-ASCII decimal digits, mixed scripts, inside int / float shapes
        pool = [chr(rng.choice(nd_digits)) for _ in range(4)] + list("0123456789")
        body = rng.choice(["", "+", "-"]) + digs(rng.randint(1, 4), pool) + rng.choice(["", "", ".", "_", "e", "."]) + \
            digs(rng.randint(0, 3), pool)
    elif shape == 7:        # digit-like characters that are not decimal digits, other junk
        body = digs(rng.randint(0, 2)) + rng.choice(["\xb2", "\xb3", "\xb9", "\u2070", "\u2074", "\u2460", "\u2160",
                                                     "\u00bd", "\u3007", "\u4e09", "\u0bf0", "\u1369", "\U00010107",
                                                     "\x00", "\u200b", "\uff0e", "\uff0b", "\uff3f", "\U0001f600"]) + \
            digs(rng.randint(0, 2))
    elif shape == 8:        # whitespace inside
        body = digs(rng.randint(1, 2)) + rng.choice(PY_SPACES) + digs(rng.randint(0, 2))
    else:
        body = digs(rng.randint(1, 12))
    pad = lambda: "".join(rng.choice(PY_SPACES) for _ in range(rng.randint(0, 2))) if rng.random() < 0.5 else ""
    return pad() + body + pad()


def lean_lit_check(ctx, toks):
    out = []
    for i in range(0, len(toks), 200):
        chunk = toks[i:i + 200]
        out.extend(ctx.driver.call({"op": "lit.check", "cps": [[ord(c) for c in t] for t in chunk]}))
    return out


def k1_literals(ctx, toks, origin):
    toks = [t for t in toks if not any(0xd800 <= ord(c) <= 0xdfff for c in t)]
    for t, m in zip(toks, lean_lit_check(ctx, toks)):
        iv = py_int(t)
        try:
            float(t); fok = True
        except ValueError:
            fok = False
        impl = {"int": None if iv is None else str(iv), "float_ok": fok}
        hist = [origin, "int " + ("accepted" if iv is not None else "rejected"),
                "float " + ("accepted" if fok else "rejected")]
        if any(ord(c) > 0x7f for c in t):
            hist.append("non-ASCII")
        if "_" in t:
            hist.append("underscore")
        if t != t.strip():
            hist.append("whitespace padding")
        if len(t) > 4000:
            hist.append("around the 4300-digit limit")
        ctx.rep.count("K1.literals", t, nontrivial=t.strip() != "", hist=hist)
        ctx.rep.cov["traces_validated_against_impl"] += 1
        if impl != {"int": m["int"], "float_ok": m["float_ok"]}:
            ctx.disagree("K1.literals", {"token": t if len(t) < 200 else t[:60] + "...", "cps": [ord(c) for c in t]},
                         impl, m)


def run_literals(ctx):
    import unicodedata
    rng = ctx.rng
    nd = [i for i in range(0x110000) if chr(i).isdecimal()]
    k1_literals(ctx, sorted(LIT_POOL), "token / count line of a generated, corrupted or corpus file")
    k1_literals(ctx, LIT_LISTED, "listed")
    # every decimal digit of every script (alone, as int and inside a float), and their neighbours
    k1_literals(ctx, [chr(i) for i in nd], "every Nd code point")
    k1_literals(ctx, ["1" + chr(i) + ".5e" + chr(i) for i in nd[::7]], "every Nd code point")
    k1_literals(ctx, [chr(i) for s in nd[::10] for i in (s - 1, s + 10) if i not in nd and not 0xd800 <= i <= 0xdfff],
                "neighbours of the Nd runs")
    k1_literals(ctx, [chr(i) for i in range(0x3000) if chr(i).isdigit() and not chr(i).isdecimal()],
                "isdigit but not isdecimal")
    k1_literals(ctx, [a + "1" + b for a in PY_SPACES + NON_SPACES[:12] for b in ["", " "]] +
                [a + "1" for a in PY_SPACES] + ["1" + a + "\u0661" for a in PY_SPACES], "every whitespace character")
    # the limit on the number of digits of int()
    for n in (639, 640, 641, 4299, 4300, 4301):
        d = "".join(rng.choice("0123456789") for _ in range(n - 1))
        k1_literals(ctx, [rng.choice("123456789") + d, "-" + "9" + d, "0" * (n - 1) + "1", "0" * n, " +1" + d + "\n",
                          "_".join("7" + d), "\u0661" + d, "1" + d + ".0", "1" + d + "e1", "1" + d + "x"],
                    "long digit strings")
    k1_literals(ctx, [lit_token(rng, nd) for _ in range(ctx.n(6000, 80000))], "random literal stream")
    ctx.rep.cov["literal_tokens_from_files"] = len(LIT_POOL)


def run(ctx):
    rng = ctx.rng
    from fpv import common
    set_logging(ctx.fp, False)          # silenced, except where the loop below switches the DEBUG level on
    # ---- corpus: real files of the repository's test-suite and stored witnesses
    files = sorted((common.REPO / "tests").rglob("*.graph")) + sorted((common.CORPUS / "C20").glob("*.graph"))
    for p in files:
        text = p.read_text()
        if text.count("\n") > ctx.n(800, 10 ** 9):
            continue
        k1(ctx, "corpus", text, nontrivial=True, hist=["repo test file" if "tests" in str(p) else "corpus"],
           lines=file_lines(text))
    # ---- the Lean regression files replayed on the real code
    for kind, text, name in WITNESSES:
        check_corruption(ctx, "witness", kind, text.splitlines(keepends=True), True, name)
    # ---- quirk stream (model vs code only)
    for q in QUIRKS:
        k1(ctx, "K1.quirks", q, nontrivial=True, hist=["listed"], lines=file_lines(q))
    for _ in range(ctx.n(600, 20000)):
        ls = soup(rng)
        k1(ctx, "K1.quirks", "".join(ls), nontrivial=True, hist=["soup"], lines=ls)
        k1_single(ctx, "K1.read_graph", soup(rng))
    # ---- well-formed files and their corruptions
    nfiles = ctx.n(400, 6000)
    ncorr = ctx.n(1500, 30000)
    per_file = max(1, ncorr // max(1, nfiles // 3)) + 2
    done = 0
    for it in range(nfiles):
        lines, exps, roles = gen_file(rng)
        # every fourth file (and its corruptions) is read with the package logger at DEBUG level
        set_logging(ctx.fp, it % 4 == 1)
        if LOG["debug"]:
            ctx.rep.cov["files_read_with_DEBUG_logging"] = ctx.rep.cov.get("files_read_with_DEBUG_logging", 0) + 1
        res, ok = check_wellformed(ctx, "K1.wellformed", lines, exps)
        if it < 2:
            ctx.rep.sample({"file": "".join(lines),
                            "parsed": [graph_obs(G) for G in res[1]] if res[0] == "ok" else list(res)})
        if it % 3 == 0 and done < ncorr:
            cs = corruptions(rng, lines, exps, roles)
            rng.shuffle(cs)
            for kind, clines, zero, where in cs[:per_file]:
                check_corruption(ctx, "K1.corrupted", kind, clines, zero, where)
                done += 1
    set_logging(ctx.fp, True)           # (the harness default)
    LOG["debug"] = False
    ctx.rep.cov["corruptions"] = done
    # ---- character level: python str primitives (as used by read_graph) vs FP/Model/Lexer.lean
    set_logging(ctx.fp, False)
    pool = sorted(LEX_POOL)
    k1_lexer(ctx, pool, "line of a generated / corpus file")
    k1_lexer(ctx, LEX_LISTED, "listed")
    k1_lexer(ctx, [a + b + c for a in ["", "x"] for b in PY_SPACES + NON_SPACES for c in ["", "y", "#", "#S y"]],
             "every table character in every position")
    k1_lexer(ctx, [lex_line(rng) for _ in range(ctx.n(4000, 60000))], "character stream")
    ctx.rep.cov["lexer_lines_from_files"] = len(pool)
    texts = sorted(set(K1_TEXTS))
    for text in rng.sample(texts, min(len(texts), ctx.n(200, 3000))):
        k1_lexer_e2e(ctx, file_lines(text))
    run_literals(ctx)
    set_logging(ctx.fp, True)


def search(ctx):
    """failing-input search: oracles on the disagreeing inputs first, then on fresh files (smallest first)"""
    rng = random.Random(4242 + ctx.rng.randint(0, 10 ** 6))
    for d in ctx.disagreements:
        text = d["input"].get("file", "")
        res = run_impl(ctx.fp, text)
        if res[0] == "exc" and res[1] != "ValueError":
            ctx.violation(f"read_graphs raised {res[1]} ({res[2]}) — only ValueError is specified", finp(text),
                          site=SITE)
    cands = []
    for _ in range(3000):
        cands.append(gen_file(rng))
    cands.sort(key=lambda c: len(c[0]))
    for j, (lines, exps, roles) in enumerate(cands):
        set_logging(ctx.fp, j % 2 == 1)
        check_wellformed(ctx, "search.wellformed", lines, exps, do_k1=False)
        for kind, clines, zero, where in corruptions(rng, lines, exps, roles)[:6]:
            check_corruption(ctx, "search.corrupted", kind, clines, zero, where, do_k1=False)
        if len(ctx.violations) > 30:
            break
    set_logging(ctx.fp, False)
    ctx.violations.sort(key=lambda v: len(v["input"].get("file", "")))


def replay(ctx, payload):
    inp = payload.get("input") or (payload.get("disagreements") or [{}])[0].get("input")
    if inp and "cps" in inp and "line" not in inp:
        t = "".join(map(chr, inp["cps"]))
        k1_literals(ctx, [t], "replay")
        print("impl:", py_int(t), py_float(t)); return
    if inp and "line" in inp:
        k1_lexer(ctx, [inp["line"]], "replay")
        print("impl:", lex_norm_py(inp["line"])); return
    if not inp or "file" not in inp:
        print("nothing to replay"); return
    text = inp["file"]
    set_logging(ctx.fp, inp.get("logging") == "DEBUG")
    if inp.get("single_block"):
        res = k1_single(ctx, "replay", text.splitlines(keepends=True))
        print("impl:", res if res[0] == "exc" else [graph_obs(G) for G in res[1]]); return
    if inp.get("corruption"):
        check_corruption(ctx, "replay", inp["corruption"], text.splitlines(keepends=True),
                         inp.get("zero_vertex_block", False), inp.get("corrupted_line"))
    else:
        res = k1(ctx, "replay", text, lines=file_lines(text))
        print("impl:", res if res[0] == "exc" else [graph_obs(G) for G in res[1]])
