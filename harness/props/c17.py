"""C17 — substrate queries (reachability, antichain, bottleneck peeling) match the graph.

Proof: FP/Props/C17.lean about FP/Model/{Reach,Bottleneck,Antichain}.lean:
  reach_via_condensation / reaching_via_condensation / scc_edge_iff / edge_max_reachable_correct (any labelling,
  condensation, descendants/ancestors table and topological sort satisfying `CondContract`), cache_transparent (all
  query sequences), dag_tables_correct (any order satisfying `IsTopo`), bottleneck_path_correct, greedy_invariant,
  greedy_exact (full, every DAG incl. the edgeless ones: termination within |E|+1 rounds, zero residual, exact sums,
  source-to-sink paths), greedy_edgeless_empty (no edges: (None, None) / ([], []); repaired finding C17-F1),
  antichain_sound, antichain_fuel, antichain_max (weak duality).
Tie (K1 exact-output differential, all on the real classes of /repo):
  * stDiGraph: random interleaved query sequences (nodes_reachable / nodes_reaching / is_scc_edge /
    compute_edge_max_reachable_value, repeated, unknown nodes and non-edges included) against the Lean
    machine `reach.query` (answers and the key order of both memo dictionaries); the networkx values the methods
    consume (condensation mapping and edges, descendants / ancestors, topological sort) are captured from the real
    object, validated against plain search (contract check) and handed to the model as oracle parameters;
  * stDAG: the four closure tables, accessed in random order and repeatedly, against `dag.tables`;
  * graphutils.max_bottleneck_path and stDAG.decompose_using_max_bottleneck against `bottleneck` / `greedy`
    (exact paths and weights; the graph and order seen by max_bottleneck_path are captured by wrapping it; on a
    graph without edges both sides answer (None, None) / ([], []), an exception of the code is a disagreement);
  * stDAG.compute_max_edge_antichain against `antichain` (min_cost_flow result captured by wrapping it and
    validated: feasible, conserved, cost = flow out of the source).
Oracles (written against the property text, independent of the model): BFS reachability for every answer,
explicit max over the stated edge set, pairwise incomparability + brute-force maximum-weight edge antichain,
exact re-summation of the peeled paths with Fractions and a source-to-sink test of every path; max_bottleneck_path
must answer (None, None) exactly when no source-to-sink path has a positive bottleneck (no path at all included),
decompose_using_max_bottleneck ([], []) on a graph without edges.
"""
import itertools, json, random
from fractions import Fraction
import networkx as nx
from fpv import common, gen
from fpv.common import qstr, Infra

THEOREMS = [
    "FP.Props.C17.reach_via_condensation",
    "FP.Props.C17.reaching_via_condensation",
    "FP.Props.C17.scc_edge_iff",
    "FP.Props.C17.edge_max_reachable_correct",
    "FP.Props.C17.cache_transparent",
    "FP.Props.C17.dag_tables_correct",
    "FP.Props.C17.bottleneck_path_correct",
    "FP.Props.C17.greedy_invariant",
    "FP.Props.C17.greedy_exact",
    "FP.Props.C17.greedy_edgeless_empty",
    "FP.Props.C17.antichain_sound",
    "FP.Props.C17.antichain_fuel",
    "FP.Props.C17.antichain_max",
    "FP.Props.C17.topo_check_sound",
]
IMPORTS = ["FP.Props.C17"]
RULE = ("digraphs: DAG skeletons whose nodes are blown up into SCC shapes (self-loop, 2-cycle, nested cycles, parallel "
        "exits) and uniformly random digraphs, optional additional starts/ends; query sequences of 20-60 calls mixing the "
        "four query kinds with repeats, unknown nodes and non-edges; DAGs with flows as superpositions of weighted "
        "source-sink paths (ints, dyadic floats, zero edges) and arbitrary non-negative weights; antichain weight "
        "functions over {0,1,2,3,7,10^6,10^9} with missing keys / None / {}. A case is non-trivial iff: queries - the graph "
        "has a non-trivial SCC and a cached answer is served; tables - some node reaches >= 3 nodes; bottleneck - >= 2 "
        "source-sink paths; greedy - >= 2 peeled paths; antichain - >= 2 antichain edges.")
MODEL_SCOPE = ("modelled: stDiGraph.nodes_reachable / nodes_reaching (with both memo dictionaries as state) / is_scc_edge / "
               "compute_edge_max_reachable_value; stDAG.reachable_nodes_from / reachable_edges_from / nodes_reaching / "
               "reachable_edges_rev_from; graphutils.max_bottleneck_path; stDAG.decompose_using_max_bottleneck; the two DFS "
               "phases and the final assert of stDAG.compute_max_edge_antichain. Oracle parameters (validated per case "
               "against plain search): nx.condensation mapping/edges, nx.descendants/ancestors, nx.topological_sort, "
               "graphutils.min_cost_flow (nx.network_simplex). Not modelled: float() rounding of edge attributes above 2^53 "
               "(the model receives the rounded value), python set iteration order (answers compared as sets), "
               "_augment_with_source_sink (C01).")
TRUSTED = ["predecessor iteration order of the augmented graph equals edges() order filtered by head (asserted per case)",
           "python set/dict/list semantics as transcribed in FP/Model/Reach.lean, Bottleneck.lean, Antichain.lean"]
ASSUMPTIONS = ["edge weights / flows are non-negative ints or dyadic floats (exact arithmetic); antichain weights are "
               "non-negative ints (nx.network_simplex does not support floats)",
               "callers do not mutate the set objects returned by nodes_reachable / nodes_reaching (they alias the cache)"]

SRC, SNK = "SRC*", "SNK*"


def viol(ctx, what, inp, site):
    """report a violation; the engine keeps at most 50, so every class (site + first words of the
    message) is reported at most 3 times, smallest inputs preferred by the caller's order"""
    seen = ctx.__dict__.setdefault("_c17_classes", {})
    k = (site, " ".join(what.split()[:4]))
    seen[k] = seen.get(k, 0) + 1
    if seen[k] <= 3:
        ctx.violation(what, inp, site=site)


# ------------------------------------------------------------------------------------------ plain-search oracle

def bfs(adj, v):
    seen, st = {v}, [v]
    while st:
        u = st.pop()
        for w in adj.get(u, ()):
            if w not in seen:
                seen.add(w); st.append(w)
    return seen


def adjs(nodes, edges):
    fwd = {v: [] for v in nodes}; bwd = {v: [] for v in nodes}
    for u, v in edges:
        fwd[u].append(v); bwd[v].append(u)
    return fwd, bwd


def pred_order_ok(G):
    es = list(G.edges())
    return all(list(G.predecessors(v)) == [a for (a, b) in es if b == v] for v in G.nodes())


def build_nx(spec):
    G = nx.DiGraph()
    if spec.get("id") is not None:
        G.graph["id"] = spec["id"]          # user metadata: many different graphs of one run carry the same id
    G.add_nodes_from(spec["nodes"])
    for u, v, attrs in spec["edges"]:
        G.add_edge(u, v, **attrs)
    return G


def is_topo(nodes, edges, order):
    pos = {v: i for i, v in enumerate(order)}
    return len(pos) == len(order) and set(order) == set(nodes) and all(pos[u] < pos[v] for u, v in edges)


# ------------------------------------------------------------------------------------------ generators

INT_W = [0, 0, 1, 2, 3, 5, 8, 10**6, 10**12]
FLT_W = [0.0, 0.5, 0.25, 1.5, 3.0, 2.0 ** 40]


def rand_digraph(rng, max_nodes=7):
    r = rng.random()
    if r < 0.55:
        nodes, edges = gen.digraph_scc(rng, max_nodes=max_nodes)
        # parallel exits: two edges leaving one SCC towards the same / different later nodes
        if rng.random() < 0.5 and len(nodes) >= 3:
            for _ in range(rng.randint(1, 2)):
                u, v = rng.sample(nodes, 2)
                if (u, v) not in edges:
                    edges.append((u, v))
    elif r < 0.85:
        n = rng.randint(1, max_nodes)
        nodes = gen.node_names(rng, n)
        p = rng.choice([0.15, 0.3, 0.5])
        edges = [(u, v) for u in nodes for v in nodes if rng.random() < p]
        rng.shuffle(edges)
    else:
        nodes, edges = gen.dag(rng, max_nodes=max_nodes)
    wl = INT_W if rng.random() < 0.6 else FLT_W
    es = []
    for u, v in edges:
        attrs = {}
        if rng.random() < 0.92:
            attrs["flow"] = rng.choice(wl)
        if rng.random() < 0.5:
            attrs["w2"] = rng.choice(INT_W + [2 ** 53 + 1])
        es.append([u, v, attrs])
    starts = [v for v in nodes if rng.random() < 0.2]
    ends = [v for v in nodes if rng.random() < 0.2]
    return {"nodes": list(nodes), "edges": es, "starts": starts, "ends": ends, "id": rng.choice(["g", "g", "sample", None])}


def rand_queries(rng, nodes, edges, n):
    qs = []
    hot = [rng.choice(nodes) for _ in range(2)]
    for _ in range(n):
        r = rng.random()
        if r < 0.3:
            v = rng.choice(hot) if rng.random() < 0.5 else rng.choice(nodes + ["zz"])
            qs.append({"q": "reachable", "v": v})
        elif r < 0.6:
            v = rng.choice(hot) if rng.random() < 0.5 else rng.choice(nodes + ["zz"])
            qs.append({"q": "reaching", "v": v})
        elif r < 0.85:
            if edges and rng.random() < 0.8:
                u, v = rng.choice(edges)
            else:
                u, v = rng.choice(nodes), rng.choice(nodes)
            qs.append({"q": "scc", "u": u, "v": v})
        else:
            qs.append({"q": "edgemax", "attr": rng.choice(["flow", "flow", "w2", "nope"])})
    return qs


# ------------------------------------------------------------------------------------------ stDiGraph queries

def capture_cond(H, ren):
    C = H._condensation
    mapping = C.graph["mapping"]
    return {"label": [[ren(v), int(mapping[v])] for v in H.nodes()],
            "cnodes": [int(c) for c in C.nodes()],
            "cedges": [[int(a), int(b)] for a, b in C.edges()],
            "desc": [[int(c), sorted(int(x) for x in nx.descendants(C, c))] for c in C.nodes()],
            "anc": [[int(c), sorted(int(x) for x in nx.ancestors(C, c))] for c in C.nodes()],
            "ctopo": [int(c) for c in nx.topological_sort(C)]}


def check_cond_contract(nodes, edges, cond):
    """the oracle-parameter contract (FP.CondContract), by direct search"""
    fwd, _ = adjs(nodes, edges)
    R = {v: bfs(fwd, v) for v in nodes}
    lab = dict(map(tuple, cond["label"]))
    for u in nodes:
        for v in nodes:
            if (lab[u] == lab[v]) != (v in R[u] and u in R[v]):
                return f"label of {u},{v}"
    ce = {(lab[u], lab[v]) for u, v in edges if lab[u] != lab[v]}
    if ce != set(map(tuple, cond["cedges"])) or len(ce) != len(cond["cedges"]):
        return "condensation edges"
    if set(cond["cnodes"]) != set(lab.values()) or len(set(cond["cnodes"])) != len(cond["cnodes"]):
        return "condensation nodes"
    cf, cb = adjs(cond["cnodes"], ce)
    for c, d in cond["desc"]:
        if set(d) != bfs(cf, c) - {c}:
            return "descendants"
    for c, d in cond["anc"]:
        if set(d) != bfs(cb, c) - {c}:
            return "ancestors"
    if not is_topo(cond["cnodes"], ce, cond["ctopo"]):
        return "topological sort of the condensation"
    return None


def oracle_answer(nodes, edges, attrs, q):
    """what a direct graph search answers (property text)"""
    fwd, bwd = adjs(nodes, edges)
    if q["q"] == "reachable":
        if q["v"] not in fwd: return {"raise": "ValueError"}
        return {"nodes": sorted(bfs(fwd, q["v"]))}
    if q["q"] == "reaching":
        if q["v"] not in fwd: return {"raise": "ValueError"}
        return {"nodes": sorted(bfs(bwd, q["v"]))}
    if q["q"] == "scc":
        if (q["u"], q["v"]) not in set(edges): return {"raise": "ValueError"}
        return {"bool": q["u"] in bfs(fwd, q["v"])}
    w = {e: attrs.get(e, {}).get(q["attr"], 0) for e in edges}
    out = []
    for (u, v) in edges:
        down, up = bfs(fwd, v), bfs(bwd, u)
        cand = [w[(u, v)]] + [w[(a, b)] for (a, b) in edges if a in down] + [w[(a, b)] for (a, b) in edges if b in up]
        out.append([u, v, max(cand)])
    return {"vals": out}


def run_digraph_case(ctx, spec, suite, use_model=True):
    fp = ctx.fp
    G = build_nx(spec)
    try:
        H = fp.stDiGraph(G, additional_starts=spec["starts"], additional_ends=spec["ends"])
    except ValueError:
        return None          # no source / sink: outside the domain (C19)
    ren_map = {H.source: SRC, H.sink: SNK}
    ren = lambda x: ren_map.get(x, x)
    inv = {SRC: H.source, SNK: H.sink}
    unren = lambda x: inv.get(x, x)
    nodes = [ren(v) for v in H.nodes()]
    edges = [(ren(u), ren(v)) for u, v in H.edges()]
    attrs = {(ren(u), ren(v)): dict(d) for u, v, d in H.edges(data=True)}
    if not pred_order_ok(H):
        raise Infra("predecessor order of the augmented graph differs from edges() order")
    queries = spec["queries"]
    # ---- real object
    impl = []
    for q in queries:
        try:
            if q["q"] == "reachable":
                impl.append({"nodes": sorted(ren(x) for x in H.nodes_reachable(unren(q["v"])))})
            elif q["q"] == "reaching":
                impl.append({"nodes": sorted(ren(x) for x in H.nodes_reaching(unren(q["v"])))})
            elif q["q"] == "scc":
                impl.append({"bool": bool(H.is_scc_edge(unren(q["u"]), unren(q["v"])))})
            else:
                r = H.compute_edge_max_reachable_value(q["attr"])
                impl.append({"vals": [[ren(u), ren(v), qstr(val)] for (u, v), val in r.items()]})
        except Exception as e:
            impl.append({"raise": type(e).__name__})
    nontriv_scc = any(len(m) > 1 for m in nx.strongly_connected_components(H)) or any(u == v for u, v in edges)
    seen = set(); warm = False
    for q in queries:
        if q["q"] in ("reachable", "reaching") and q["v"] in nodes:
            k = (q["q"], q["v"])
            warm = warm or k in seen
            seen.add(k)
    inp = {"kind": "digraph", **spec}
    ctx.rep.count(suite, [spec["nodes"], spec["edges"], spec["starts"], spec["ends"], queries],
                  nontrivial=nontriv_scc and warm,
                  hist=[f"nodes<={4*((len(nodes)+3)//4)}", "scc" if nontriv_scc else "acyclic",
                        "warm" if warm else "cold"])
    # ---- model
    if use_model:
        cond = capture_cond(H, ren)
        bad = check_cond_contract(nodes, edges, cond)
        ctx.rep.cov["contract_checks"] = ctx.rep.cov.get("contract_checks", 0) + 1
        if bad:
            raise Infra(f"networkx value violates its documented contract ({bad}) on {json.dumps(inp)[:300]}")
        mq = []
        for q in queries:
            if q["q"] == "edgemax":
                mq.append({"q": "edgemax", "w": [[u, v, qstr(float(attrs[(u, v)][q["attr"]]))] for (u, v) in edges
                                                 if q["attr"] in attrs[(u, v)]]})
            else:
                mq.append(q)
        ans = ctx.driver.call({"op": "reach.query", "nodes": nodes, "edges": [list(e) for e in edges], **cond,
                               "queries": mq})
        model = []
        for a in ans["answers"]:
            if "nodes" in a:
                model.append({"nodes": sorted(a["nodes"])} if len(set(a["nodes"])) == len(a["nodes"])
                             else {"nodes-with-duplicates": a["nodes"]})
            elif "vals" in a:
                model.append({"vals": [[u, v, qstr(Fraction(x))] for u, v, x in a["vals"]]})
            else:
                model.append(a)
        ctx.rep.cov["traces_validated_against_impl"] += len(queries)
        if model != impl:
            i = next(i for i in range(len(impl)) if model[i] != impl[i])
            ctx.disagree(suite, inp, impl[i], model[i], note=f"query #{i} {queries[i]}")
        if ans["answers"] != ans["pure"]:
            ctx.disagree(suite + ".cache", inp, "memoised", "pure", note="model machine differs from its pure function")
        fc, bc = getattr(H, "_nodes_reachable_from_node_cache", None), getattr(H, "_nodes_reaching_node_cache", None)
        if not isinstance(fc, dict) or not isinstance(bc, dict):
            # the two memo tables the model mirrors are gone (renamed / merged): the state tie no longer applies
            ctx.disagree(suite + ".state", inp, "no _nodes_reachable_from_node_cache / _nodes_reaching_node_cache dicts",
                         [ans["fwd_keys"], ans["bwd_keys"]], note="cache layout differs from the modelled one")
        else:
            fk = [ren(k) for k in fc.keys()]
            bk = [ren(k) for k in bc.keys()]
            if fk != ans["fwd_keys"] or bk != ans["bwd_keys"]:
                ctx.disagree(suite + ".state", inp, [fk, bk], [ans["fwd_keys"], ans["bwd_keys"]], note="cache keys")
    # ---- oracle
    for i, q in enumerate(queries):
        want = oracle_answer(nodes, edges, attrs, q)
        ctx.rep.cov["oracle_evaluations"] += 1
        got = impl[i]
        if "vals" in want and "vals" in got:
            ok = len(want["vals"]) == len(got["vals"]) and all(
                (a[0], a[1]) == (b[0], b[1]) and Fraction(b[2]) == Fraction(float(a[2])) for a, b in zip(want["vals"], got["vals"]))
            if ok and any(Fraction(b[2]) != Fraction(a[2]) for a, b in zip(want["vals"], got["vals"])):
                ctx.rep.suite(suite)["histogram"]["float-rounded-max"] = ctx.rep.suite(suite)["histogram"].get("float-rounded-max", 0) + 1
            if not ok:
                want = {"vals": [[a[0], a[1], qstr(a[2])] for a in want["vals"]]}
        else:
            ok = want == got
        if not ok:
            viol(ctx, f"query #{i} {q}: direct search gives {json.dumps(want)[:200]}, the class answered "
                          f"{json.dumps(got)[:200]}", inp, site="stDiGraph." + {"reachable": "nodes_reachable",
                          "reaching": "nodes_reaching", "scc": "is_scc_edge", "edgemax": "compute_edge_max_reachable_value"}[q["q"]])
            break
    return inp


# ------------------------------------------------------------------------------------------ stDAG tables

def run_tables_case(ctx, spec, suite, use_model=True):
    fp = ctx.fp
    G = build_nx(spec)
    H = fp.stDAG(G, additional_starts=spec["starts"], additional_ends=spec["ends"])
    ren_map = {H.source: SRC, H.sink: SNK}
    ren = lambda x: ren_map.get(x, x)
    nodes = [ren(v) for v in H.nodes()]
    edges = [(ren(u), ren(v)) for u, v in H.edges()]
    topo = [ren(v) for v in H.topological_order]
    names = ["reachable_nodes_from", "reachable_edges_from", "nodes_reaching", "reachable_edges_rev_from"]
    impl = {}
    for name in spec["access"]:            # random access order, repeated (lazily built, then cached)
        t = getattr(H, name)
        cur = {ren(v): (sorted(ren(x) for x in s) if "nodes" in name else sorted([ren(a), ren(b)] for a, b in s))
               for v, s in t.items()}
        if name in impl and impl[name] != cur:
            viol(ctx, f"{name} changed between two accesses", {"kind": "tables", **spec}, site="stDAG." + name)
        impl[name] = cur
    inp = {"kind": "tables", **spec}
    fwd, bwd = adjs(nodes, edges)
    big = any(len(bfs(fwd, v)) >= 3 for v in nodes)
    ctx.rep.count(suite, [spec["nodes"], spec["edges"], spec["starts"], spec["ends"]], nontrivial=big,
                  hist=[f"nodes<={4*((len(nodes)+3)//4)}"])
    if use_model:
        if not is_topo(nodes, edges, topo):
            raise Infra("nx.topological_sort returned a non-topological order")
        ctx.rep.cov["contract_checks"] = ctx.rep.cov.get("contract_checks", 0) + 1
        ans = ctx.driver.call({"op": "dag.tables", "nodes": nodes, "edges": [list(e) for e in edges], "topo": topo})
        for name in impl:
            model = {v: sorted(x) for v, x in ans[name]}
            ctx.rep.cov["traces_validated_against_impl"] += 1
            if any(len(x) != len(set(map(str, x))) for _, x in ans[name]) or model != impl[name]:
                ctx.disagree(suite, inp, impl[name], model, note=name)
    for name in impl:
        ctx.rep.cov["oracle_evaluations"] += 1
        for v in nodes:
            down, up = bfs(fwd, v), bfs(bwd, v)
            want = {"reachable_nodes_from": sorted(down),
                    "reachable_edges_from": sorted([a, b] for a, b in edges if a in down),
                    "nodes_reaching": sorted(up),
                    "reachable_edges_rev_from": sorted([a, b] for a, b in edges if b in up)}[name]
            if impl[name].get(v) != want:
                viol(ctx, f"{name}[{v}] = {impl[name].get(v)} but direct search gives {want}", inp, site="stDAG." + name)
                return inp
    return inp


def ambiguous_names_dag(rng):
    """node names whose concatenations coincide: (x, y+sep+w) and (x+sep+y, w) for a separator the library might use when it
    derives helper names from an edge; a few more edges around them"""
    sep = rng.choice(["_", "_", ".", "-", ":"])
    x, y, w = rng.sample(["a", "b", "c", "d", "7", "q"], 3)
    nodes = [x, y + sep + w, x + sep + y, w] + rng.sample(["e", "f", "g"], rng.randint(0, 2))
    order = list(nodes); rng.shuffle(order)
    pos = {v: i for i, v in enumerate(order)}
    edges = {tuple(sorted((x, y + sep + w), key=pos.get)), tuple(sorted((x + sep + y, w), key=pos.get))}
    for i in range(len(order)):
        for j in range(i + 1, len(order)):
            if rng.random() < 0.3:
                edges.add((order[i], order[j]))
    return order, list(edges)


def rand_dag_spec(rng, max_nodes=7, weights=None):
    nodes, edges = ambiguous_names_dag(rng) if rng.random() < 0.08 else gen.dag(rng, max_nodes=max_nodes)
    if rng.random() < 0.15:
        nodes = nodes + [f"iso{i}" for i in range(rng.randint(1, 2))]
    # edges() order of networkx: by tail in node order
    edges = [e for u in nodes for e in edges if e[0] == u]
    return nodes, edges


# ------------------------------------------------------------------------------------------ bottleneck path

def all_st_paths(nodes, edges, limit=4000):
    fwd, bwd = adjs(nodes, edges)
    out = []

    def rec(p):
        if len(out) >= limit: return
        v = p[-1]
        if not fwd[v]:
            if len(p) >= 2: out.append(list(p))
            return
        for w in fwd[v]:
            rec(p + [w])
    for s in nodes:
        if not bwd[s]:
            rec([s])
    return out


def run_bottleneck_case(ctx, spec, suite, use_model=True):
    fp = ctx.fp
    G = build_nx(spec)
    nodes = list(G.nodes()); edges = list(G.edges())
    f = {(u, v): d["flow"] for u, v, d in G.edges(data=True)}
    if not pred_order_ok(G):
        raise Infra("predecessor order differs from edges() order")
    topo = list(nx.topological_sort(G))
    try:
        val, path = fp.utils.graphutils.max_bottleneck_path(G, "flow")
        impl = {"none": True} if path is None else {"value": qstr(val), "path": list(path)}
    except Exception as ex:                       # the model never raises: reported as disagreement and by the oracle
        impl = {"raise": type(ex).__name__}
    paths = all_st_paths(nodes, edges)
    inp = {"kind": "bottleneck", **spec}
    ctx.rep.count(suite, [spec["nodes"], spec["edges"]], nontrivial=len(paths) >= 2,
                  hist=[f"paths<={5*((len(paths)+4)//5)}", "none" if "none" in impl else ("raise" if "raise" in impl else "path")])
    if use_model:
        ans = ctx.driver.call({"op": "bottleneck", "nodes": nodes, "edges": [list(e) for e in edges], "topo": topo,
                               "flow": [[u, v, qstr(x)] for (u, v), x in f.items()]})
        ctx.rep.cov["traces_validated_against_impl"] += 1
        if "value" in ans:
            ans["value"] = qstr(Fraction(ans["value"]))
        if ans != impl:
            ctx.disagree(suite, inp, impl, ans)
    # oracle: best bottleneck over all source-to-sink paths with at least one edge
    if len(paths) < 4000:
        ctx.rep.cov["oracle_evaluations"] += 1
        bott = lambda p: min(Fraction(f[e]) for e in zip(p[:-1], p[1:]))
        if "raise" in impl:
            viol(ctx, f"max_bottleneck_path raised {impl['raise']} (expected: "
                      f"{'a best path or (None, None)' if paths else '(None, None), no source-to-sink path exists'})", inp,
                 site="max_bottleneck_path")
        elif not paths:
            if "none" not in impl:
                viol(ctx, f"no source-to-sink path exists but the function returned {impl} instead of (None, None)", inp,
                     site="max_bottleneck_path")
        else:
            best = max(bott(p) for p in paths)
            if "none" in impl:
                if best != 0:
                    viol(ctx, f"returned (None, None) although the best bottleneck is {best}", inp, site="max_bottleneck_path")
            else:
                if impl["path"] not in paths or bott(impl["path"]) != Fraction(impl["value"]) or Fraction(impl["value"]) != best or best == 0:
                    viol(ctx, f"returned {impl}, best bottleneck over all source-to-sink paths is {best}", inp,
                                  site="max_bottleneck_path")
    return inp


# ------------------------------------------------------------------------------------------ greedy peeling

def run_greedy_case(ctx, spec, suite, use_model=True):
    fp = ctx.fp
    G = build_nx(spec)
    H = fp.stDAG(G, additional_starts=spec["starts"], additional_ends=spec["ends"])
    gu = fp.utils.graphutils
    orig = gu.max_bottleneck_path
    cap = []

    def wrapper(TG, attr):
        cap.append((list(TG.nodes()), list(TG.edges()), list(nx.topological_sort(TG)), pred_order_ok(TG)))
        return orig(TG, attr)
    gu.max_bottleneck_path = wrapper
    try:
        try:
            paths, weights = H.decompose_using_max_bottleneck("flow")
            impl = {"paths": [list(p) for p in paths], "weights": [qstr(w) for w in weights]}
        except Exception as ex:                   # the model never raises: reported as disagreement and by the oracle
            impl = {"raise": type(ex).__name__}
    finally:
        gu.max_bottleneck_path = orig
    nodes, edges = list(G.nodes()), list(G.edges())
    f = {(u, v): d["flow"] for u, v, d in G.edges(data=True)}
    inp = {"kind": "greedy", **spec}
    ctx.rep.count(suite, [spec["nodes"], spec["edges"]], nontrivial=len(impl.get("paths", [])) >= 2,
                  hist=[f"peeled<={2*((len(impl.get('paths', []))+1)//2)}", "float" if any(isinstance(x, float) for x in f.values()) else "int"])
    if any(H[u][v].get("flow") != d.get("flow") for u, v, d in G.edges(data=True)):
        viol(ctx, "decompose_using_max_bottleneck modified the flow stored in the graph", inp, site="decompose_using_max_bottleneck")
    if use_model:
        if not cap and (spec["edges"] or impl.get("paths")):
            # (the model takes the topological order from the captured call: without the call the tie no longer applies)
            ctx.disagree(suite, inp, "decompose_using_max_bottleneck did not call graphutils.max_bottleneck_path", None,
                         note="the code no longer has the structure the model mirrors")
            use_model = False
        elif cap:
            tn, te, tt, ok = cap[0]
            if not all(c == cap[0] for c in cap) or not ok or tn != nodes or te != edges:
                ctx.disagree(suite, inp, "temp_G of decompose_using_max_bottleneck is not the user's graph in edges() order", None,
                             note="the code no longer has the structure the model mirrors")
                use_model = False
        else:
            use_model = False
    if use_model:
        tn, te, tt, ok = cap[0]
        ans = ctx.driver.call({"op": "greedy", "nodes": nodes, "edges": [list(e) for e in edges], "topo": tt,
                               "flow": [[u, v, qstr(x)] for (u, v), x in f.items()]})
        ctx.rep.cov["traces_validated_against_impl"] += 1
        model = ({"stuck": True} if "stuck" in ans else
                 {"paths": ans["paths"], "weights": [qstr(Fraction(w)) for w in ans["weights"]]})
        if model != impl:
            ctx.disagree(suite, inp, impl, model)
    # oracle: every path is a source-to-sink path of the graph, weights add up to the flow on every edge
    ctx.rep.cov["oracle_evaluations"] += 1
    fwd, bwd = adjs(nodes, edges)
    if "raise" in impl:
        viol(ctx, f"decompose_using_max_bottleneck raised {impl['raise']} on a conserving non-negative flow "
                      f"(expected: paths adding up to the flow{', here ([], []): the graph has no edges' if not edges else ''})",
                      inp, site="decompose_using_max_bottleneck")
        return inp
    if not edges and (impl["paths"] or impl["weights"]):
        viol(ctx, f"graph without edges: expected ([], []), got ({impl['paths']}, {impl['weights']})", inp,
             site="decompose_using_max_bottleneck")
        return inp
    tot = {e: Fraction(0) for e in edges}
    for p, w in zip(impl["paths"], impl["weights"]):
        es = list(zip(p[:-1], p[1:]))
        if not es or any(e not in tot for e in es) or bwd[p[0]] or fwd[p[-1]] or Fraction(w) <= 0:
            viol(ctx, f"peeled path {p} (weight {w}) is not a positive-weight source-to-sink path of the graph", inp,
                          site="decompose_using_max_bottleneck")
            return inp
        for e in es:
            tot[e] += Fraction(w)
    bad = [e for e in edges if tot[e] != Fraction(f[e])]
    if bad:
        viol(ctx, f"peeled weights add up to {qstr(tot[bad[0]])} on edge {bad[0]} whose flow is {f[bad[0]]}", inp,
                      site="decompose_using_max_bottleneck")
    return inp


def rand_flow_spec(rng, max_nodes=7):
    nodes, edges = rand_dag_spec(rng, max_nodes)
    r = rng.random()
    if r < 0.06:
        nodes, edges = nodes[:rng.randint(1, 2)], []          # edgeless graph
    wtype, weights = (int, (1, 2, 3, 5, 8, 10**9)) if rng.random() < 0.6 else (float, (0.5, 0.25, 1.5, 3.0, 1.0))
    base_nodes = [v for v in nodes]
    if edges:
        f, _, _ = gen.flow_from_paths(rng, base_nodes, edges, cover=rng.random() < 0.6, wtype=wtype, weights=weights,
                                      npaths=rng.randint(0, 3))
    else:
        f = {}
    return {"nodes": nodes, "edges": [[u, v, {"flow": f[(u, v)]}] for u, v in edges], "starts": [], "ends": []}


# ------------------------------------------------------------------------------------------ antichain

def brute_antichain(nodes, edges, w):
    fwd, _ = adjs(nodes, edges)
    R = {v: bfs(fwd, v) for v in nodes}
    pos = [e for e in edges if w[e] > 0]
    comparable = lambda e, g: e[0] in R[g[1]] or g[0] in R[e[1]]
    best = 0
    n = len(pos)

    def rec(i, chosen, tot):
        nonlocal best
        if i == n:
            best = max(best, tot); return
        if tot + sum(w[e] for e in pos[i:]) <= best:
            return
        e = pos[i]
        if all(not comparable(e, g) for g in chosen):
            rec(i + 1, chosen + [e], tot + w[e])
        rec(i + 1, chosen, tot)
    rec(0, [], 0)
    return best


def run_antichain_case(ctx, spec, suite, use_model=True):
    fp = ctx.fp
    G = build_nx(spec)
    H = fp.stDAG(G, additional_starts=spec["starts"], additional_ends=spec["ends"])
    ren_map = {H.source: SRC, H.sink: SNK}
    ren = lambda x: ren_map.get(x, x)
    inv = {SRC: H.source, SNK: H.sink}
    nodes = [ren(v) for v in H.nodes()]
    edges = [(ren(u), ren(v)) for u, v in H.edges()]
    wf = None if spec["wf"] is None else {(inv.get(u, u), inv.get(v, v)): x for u, v, x in spec["wf"]}
    gu = fp.utils.graphutils
    orig = gu.min_cost_flow
    cap = []

    def wrapper(GN, s, t, *a, **k):
        r = orig(GN, s, t, *a, **k)
        cap.append(({(ren(u), ren(v)): d["l"] for u, v, d in GN.edges(data=True)}, r))
        return r
    gu.min_cost_flow = wrapper
    try:
        try:
            cost, A = H.compute_max_edge_antichain(get_antichain=True, weight_function=wf)
            impl = {"cost": qstr(cost), "antichain": [[ren(u), ren(v)] for u, v in A]}
        except Exception as e:
            impl = {"raise": type(e).__name__}
        cost_only = H.compute_max_edge_antichain(get_antichain=False, weight_function=wf)
    finally:
        gu.min_cost_flow = orig
    inp = {"kind": "antichain", **spec}
    ctx.rep.count(suite, [spec["nodes"], spec["edges"], spec["starts"], spec["ends"], spec["wf"]],
                  nontrivial=len(impl.get("antichain", [])) >= 2,
                  hist=[f"antichain<={2*((len(impl.get('antichain', []))+1)//2)}",
                        "default" if wf is None else ("empty-dict" if not wf else "weighted")])
    if not pred_order_ok(H):
        raise Infra("predecessor order of the augmented graph differs from edges() order")
    demand, (mcost, mflow) = cap[0]
    if use_model and mflow is not None:
        # contract of the oracle parameter (hypotheses of FP.Props.C17.antichain_max): feasible flow of value `cost`
        fx = {(ren(u), ren(v)): x for u in mflow for v, x in mflow[u].items()}
        okc = set(fx) == set(edges) and all(fx[e] >= demand[e] for e in edges)
        okc = okc and all(sum(fx[e] for e in edges if e[1] == v) == sum(fx[e] for e in edges if e[0] == v)
                          for v in nodes if v not in (SRC, SNK))
        okc = okc and mcost == sum(fx[e] for e in edges if e[0] == SRC) and not any(e[1] == SRC or e[0] == SNK for e in edges)
        ctx.rep.cov["contract_checks"] = ctx.rep.cov.get("contract_checks", 0) + 1
        if not okc:
            # graphutils.min_cost_flow is the library's own wrapper around network simplex: a flow that misses a demand, breaks
            # conservation or has another cost than reported is the library's failure (the hypotheses of antichain_max are gone)
            viol(ctx, "graphutils.min_cost_flow returned a flow that violates the demands / conservation or reports another cost "
                      f"than its source outflow (cost {mcost})", inp, site="graphutils.min_cost_flow")
            return inp
        fl = [[ren(u), ren(v), qstr(x)] for u in mflow for v, x in mflow[u].items()]
        ans = ctx.driver.call({"op": "antichain", "nodes": nodes, "edges": [list(e) for e in edges], "source": SRC, "sink": SNK,
                               "demand": [[u, v, qstr(x)] for (u, v), x in demand.items()], "flow": fl,
                               "cost": qstr(mcost), "use_len": wf is None})
        ctx.rep.cov["traces_validated_against_impl"] += 1
        model = {"raise": ans["raise"]} if "raise" in ans else ({"stuck": True} if "stuck" in ans else
                 {"cost": qstr(mcost), "antichain": ans["antichain"]})
        if model != impl:
            ctx.disagree(suite, inp, impl, model)
    # ---- oracle (property text): pairwise unreachable, weight == reported optimum == true maximum
    ctx.rep.cov["oracle_evaluations"] += 1
    if wf is None:
        w = {e: int(e[0] != SRC and e[1] != SNK) for e in edges}
    else:
        w = {e: 0 for e in edges}
        for u, v, x in spec["wf"]:
            if (u, v) in w: w[(u, v)] = x
    site = "compute_max_edge_antichain"
    if "raise" in impl or cost_only is None:
        viol(ctx, f"compute_max_edge_antichain failed ({impl.get('raise', 'returned None')}; get_antichain=False gave "
                      f"{cost_only}) for total weight {sum(w.values())}", inp, site=site)
        return inp
    fwd, _ = adjs(nodes, edges)
    A = [tuple(e) for e in impl["antichain"]]
    R = {v: bfs(fwd, v) for v in nodes}
    if len(set(A)) != len(A) or any(e not in w for e in A):
        viol(ctx, f"antichain {A} has duplicates or non-edges", inp, site=site); return inp
    for e, g in itertools.combinations(A, 2):
        if e[0] in R[g[1]] or g[0] in R[e[1]]:
            viol(ctx, f"antichain edges {e} and {g} are comparable (one reaches the other)", inp, site=site)
            return inp
    if sum(w[e] for e in A) != Fraction(impl["cost"]) or Fraction(qstr(cost_only)) != Fraction(impl["cost"]):
        viol(ctx, f"antichain weight {sum(w[e] for e in A)} / reported optimum {impl['cost']} / get_antichain=False "
                      f"optimum {cost_only} differ", inp, site=site)
        return inp
    if len([e for e in edges if w[e] > 0]) <= 14:
        best = brute_antichain(nodes, edges, w)
        if best != Fraction(impl["cost"]):
            viol(ctx, f"reported optimum {impl['cost']} but the maximum weight of an edge antichain is {best}", inp, site=site)
    return inp


AC_W = [0, 1, 1, 2, 3, 7, 10**6]


def rand_antichain_spec(rng, max_nodes=6):
    nodes, edges = rand_dag_spec(rng, max_nodes)
    starts = [v for v in nodes if rng.random() < 0.15]
    ends = [v for v in nodes if rng.random() < 0.15]
    r = rng.random()
    aug = list(edges) + [(SRC, v) for v in nodes] + [(v, SNK) for v in nodes]
    if r < 0.15:
        wf = None
    elif r < 0.2:
        wf = []
    else:
        pool = AC_W if rng.random() < 0.85 else rng.choice([[10**9, 10**9, 1, 0], [3 * 10**9, 10**9, 1], [5 * 10**9, 1, 0]])
        keep = rng.choice([1.0, 0.8, 0.5])
        wf = [[u, v, rng.choice(pool)] for (u, v) in aug if rng.random() < keep]
        if rng.random() < 0.7:
            wf = [t for t in wf if t[0] != SRC and t[1] != SNK]
    return {"nodes": nodes, "edges": [[u, v, {}] for u, v in edges], "starts": starts, "ends": ends, "wf": wf}


# ------------------------------------------------------------------------------------------ life cycle

RUNNERS = {"digraph": run_digraph_case, "tables": run_tables_case, "bottleneck": run_bottleneck_case,
           "greedy": run_greedy_case, "antichain": run_antichain_case}


def gen_case(rng, kind, small=False):
    mx = 4 if small else 7
    if kind == "digraph":
        spec = rand_digraph(rng, max_nodes=mx)
        G = build_nx(spec)
        nodes = spec["nodes"] + [SRC, SNK]
        edges = [(u, v) for u, v, _ in spec["edges"]] + [(SRC, v) for v in spec["nodes"][:2]] + [(v, SNK) for v in spec["nodes"][:2]]
        spec["queries"] = rand_queries(rng, nodes, edges, rng.randint(20, 60))
        return spec
    if kind == "tables":
        nodes, edges = rand_dag_spec(rng, mx + 1)
        names = ["reachable_nodes_from", "reachable_edges_from", "nodes_reaching", "reachable_edges_rev_from"]
        return {"nodes": nodes, "edges": [[u, v, {}] for u, v in edges],
                "starts": [v for v in nodes if rng.random() < 0.15], "ends": [v for v in nodes if rng.random() < 0.15],
                "access": [rng.choice(names) for _ in range(rng.randint(4, 9))]}
    if kind == "bottleneck":
        nodes, edges = rand_dag_spec(rng, mx + 1)
        if rng.random() < 0.05:
            edges = []
        wl = rng.choice([[0, 1, 2, 3], [1, 2, 3, 5, 8, 10**12], [0.0, 0.5, 0.25, 1.5], [0, 0, 1], [2, 2, 2]])
        return {"nodes": nodes, "edges": [[u, v, {"flow": rng.choice(wl)}] for u, v in edges]}
    if kind == "greedy":
        return rand_flow_spec(rng, mx + 1)
    return rand_antichain_spec(rng, mx)


def run(ctx):
    rng = ctx.rng
    for p in sorted((common.CORPUS / "C17").glob("*.json")):
        c = json.loads(p.read_text())
        RUNNERS[c["kind"]](ctx, c, "corpus." + c["kind"])
    plan = [("digraph", "K1.stDiGraph.queries", ctx.n(3000, 40000)), ("tables", "K1.stDAG.tables", ctx.n(2000, 25000)),
            ("bottleneck", "K1.max_bottleneck_path", ctx.n(4000, 60000)), ("greedy", "K1.decompose", ctx.n(3000, 40000)),
            ("antichain", "K1.antichain", ctx.n(3000, 40000))]
    for kind, suite, n in plan:
        shown = 0
        for it in range(n):
            spec = gen_case(rng, kind, small=(it % 4 == 0))
            inp = RUNNERS[kind](ctx, spec, suite)
            if inp is not None and shown < 1:
                shown += 1
                ctx.rep.sample({"suite": suite, "input": inp})


def search(ctx):
    """failing-input search after a broken tie: the oracles on the disagreeing inputs, then on fresh inputs
    (small first); the model is not consulted"""
    rng = random.Random(4242 + ctx.rng.randint(0, 10**6))
    for d in ctx.disagreements:
        inp = d["input"]
        if isinstance(inp, dict) and inp.get("kind") in RUNNERS:
            RUNNERS[inp["kind"]](ctx, inp, "search." + inp["kind"], use_model=False)
    for it in range(6000):
        if len(ctx.violations) > 20:
            break
        kind = ["digraph", "tables", "bottleneck", "greedy", "antichain"][it % 5]
        RUNNERS[kind](ctx, gen_case(rng, kind, small=it < 3000), "search." + kind, use_model=False)
    ctx.violations.sort(key=lambda v: len(json.dumps(v["input"], default=str)))


def finding_case(ctx, minimal_input):
    """replays the stored minimal input of a listed finding (engine hook of newer engine versions)"""
    if isinstance(minimal_input, dict) and minimal_input.get("kind") in RUNNERS:
        RUNNERS[minimal_input["kind"]](ctx, minimal_input, "finding." + minimal_input["kind"])


def replay(ctx, payload):
    inp = payload.get("input") or (payload.get("disagreements") or [{}])[0].get("input")
    if not inp or inp.get("kind") not in RUNNERS:
        print("nothing to replay"); return
    RUNNERS[inp["kind"]](ctx, inp, "replay." + inp["kind"], use_model=ctx.driver is not None)
