"""C06 — safe paths / sequences are truly safe, mutually incompatible, and prune soundly.

Proof: FP/Props/C06.lean about FP/Model/Safety*.lean — for all graphs (acyclicity never needed) and all X:
bridges / immediate dominators lie on every s-t walk (in list order), find_idom restores the neighbour sets,
safe_paths / safe_sequences / maximal safe sequences are subsequences of every source-sink walk through their
item or core (hence safe for X), flow-safe paths are in every flow decomposition (loop invariant of the scan +
excess-flow lemma), zero-fixed edges lie on no walk containing the slot's sequence, the sequences chosen through
an antichain among the maximal safe sequences are pairwise never contained in one source-sink walk
(`incompatible_sound`: graph edges distinct, `mapping` an SCC numbering, antichain members pairwise unreachable in
the expanded condensation — the contract C17 proves for the extraction; both hypotheses are checked on every real
run by `check_t6_contracts`). The earlier `incompatible_sound_partial` is kept; its hypothesis `NoSharedParallel` is
not a property of the maximal safe sequences (it fails in about one real run out of eight: a shared inter-SCC edge
whose member has multiplicity one and lies in the antichain; harmless, the member keeps one sequence).
Tie (K1): exact-output differential of `find_all_bridges`, `find_path`, `find_idom`,
`maximal_safe_sequences_via_dominators` (with `Arc_Dominator_Tree`), `safe_paths`, `safe_sequences`,
`compute_flow_decomp_safe_paths` / `compute_inexact_flow_decomp_safe_paths`,
`_apply_safety_optimizations_fix_zero_edges` (walk model) and `get_longest_incompatible_sequences` between the
real code (called on real `flowpaths.stDAG` / `flowpaths.stDiGraph` objects) and the Lean driver.
Oracles (independent, written against the property text; they run on every real output and drive `search`):
  * DAG: brute force over all s-t paths — a sequence is safe for X iff some member x of X has all its s-t
    paths containing the sequence as a subsequence;
  * digraphs with cycles: the same with walks, decided by reachability in the product of the graph with the
    progress through the sequence (the walk must never complete the sequence);
  * flow-safe paths: exhaustive enumeration of all decompositions of a small integer flow into unit paths;
  * incompatibility: product search for one s-t walk containing two sequences given to different slots;
  * zero-fix soundness: product search for an s-t walk containing the slot's sequence and the forbidden edge.
"""
import importlib, json, random, itertools
from collections import Counter, deque
import networkx as nx
from fpv import gen, common
from fpv.common import qstr

THEOREMS = [
    "FP.Props.C06.safe_paths_univocal",
    "FP.Props.C06.safe_paths_safe",
    "FP.Props.C06.bridge_sound",
    "FP.Props.C06.bridges_in_order",
    "FP.Props.C06.idom_sound",
    "FP.Props.C06.idom_restores",
    "FP.Props.C06.bridge_sound_graph",
    "FP.Props.C06.safe_sequences_safe",
    "FP.Props.C06.zero_fix_sound",
    "FP.Props.C06.maximal_safe_sequences_safe",
    "FP.Props.C06.maximal_safe_sequences_forced",
    "FP.Props.C06.excess_flow_safe_partial",
    "FP.Props.C06.excess_flow_lemma",
    "FP.Props.C06.excess_flow_safe",
    "FP.Props.C06.incompatible_sound_partial",
    "FP.Props.C06.maximal_safe_sequences_core_family",
    "FP.Props.C06.antichain_contract",
    "FP.Props.C06.antichain_contract_of_extraction",
    "FP.Props.C06.antichain_hyp_of_contract",
    "FP.Props.C06.incompatible_sound_family",
    "FP.Props.C06.incompatible_sound",
]
IMPORTS = ["FP.Props.C06"]
RULE = ("DAGs (gen.dag, 3-9 nodes, optional additional starts/ends) and digraphs with cycles (gen.digraph_cyc: self-loops, "
        "2-cycles, nested/touching cycles, parallel SCC exits/entries, extra sources/sinks; 15% of them with parts that lie "
        "on no source-to-sink walk). X = all edges of the augmented graph / base edges / random subsets (with duplicates) / "
        "subpath constraints; integer flows as superpositions of weighted paths. A case is non-trivial iff it is a distinct "
        "input on which the function under test returns something that required work: a bridge, an extension of the "
        "covered item, a dominator chain of length >= 2, a safe path of >= 2 edges, a zero-fixed edge, >= 2 chosen sequences. "
        "Real models with default options (kPathCoverCycles, kFlowDecompCycles; kPathCover, kFlowDecomp, kMinPathError with "
        "subpath constraints) supply safe_lists / walks_to_fix / edges_set_to_zero as they are actually used.")
MODEL_SCOPE = ("modelled: find_all_bridges, find_path, find_idom (incl. the state they leave in the adjacency dicts), "
               "Arc_Dominator_Tree, maximal_safe_sequences_via_dominators, safe_paths, safe_sequences (sequential semantics; "
               "thread pool not modelled: every worker owns its copies), compute_inexact_flow_decomp_safe_paths with lb=ub "
               "(greedy decomposition paths taken from the real decompose_using_max_bottleneck; the two `assert`s of the scan "
               "are not modelled, they hold in exact arithmetic), _apply_safety_optimizations_fix_zero_edges of the walk "
               "model, get_longest_incompatible_sequences (SCC numbering and max-weight antichain taken from the real run; "
               "the theorem `incompatible_sound` needs of them only their contracts: `SccLabelling` — same number iff mutually "
               "reachable — and `CondAntichain` — members pairwise unreachable in the expanded condensation, whose edge set is "
               "the image of the graph edges under `_edge_to_condensation_expanded_edge`; C17 `antichain_sound` proves the "
               "latter for the extraction phase whatever the flow solver returned). "
               "Only well-formed adjacency dicts (all neighbours are keys) and integer flows. Not modelled: "
               "safe_maximal_paths / find_unitig_of_arc / is_core (they call stDAG methods that do not exist), "
               "get_endpoints_of_longest_safe_path_in, the DAG-side zero fixing (never reached with a non-empty list: "
               "`paths_to_fix` is never assigned because `_apply_safety_optimizations` is not called in the DAG models).")
TRUSTED = ["python list.pop/remove/append, dict insertion order, queue.Queue FIFO order, networkx successor/predecessor "
           "iteration order as transcribed in FP/Model/Safety*.lean",
           "nx.condensation SCC numbering and stDAG.compute_max_edge_antichain enter the `safety.incompatible` tie as data "
           "captured from the real run (the oracle judges the final result independently of them); their contracts "
           "(hypotheses `SccLabelling`, `CondAntichain` of `incompatible_sound`) are re-checked by direct search on every "
           "run (`contract.T6`)",
           "Std.Data.String.ToNat (`Nat.repr_injective`, shipped with the Lean toolchain) for the injectivity of the "
           "names `str(c)` / `str(c) + '_expanded'` of the expanded condensation"]
ASSUMPTIONS = ["X is a collection of edges of the augmented graph (anything else makes the real code raise KeyError)",
               "flow values are integers (the scan is compared in exact arithmetic)"]


# ----------------------------------------------------------------------------------------------- plumbing

def mods(ctx):
    if not hasattr(ctx, "_c06mods"):
        ctx._c06mods = tuple(importlib.import_module("flowpaths.utils." + m)
                             for m in ("safetypathcovers", "safetypathcoverscycles", "safetyflowdecomp", "dominators"))
    return ctx._c06mods


def nxg(nodes, edges):
    G = nx.DiGraph(); G.add_nodes_from(nodes)
    for u, v in edges:
        G.add_edge(u, v)
    return G


def tl(x):
    """tuples -> lists, recursively"""
    if isinstance(x, (list, tuple, deque)):
        return [tl(y) for y in x]
    return x


def build_st(ctx, nodes, edges, starts, ends, dag):
    """real stDAG / stDiGraph + renaming of its synthetic nodes; None when the constructor rejects the input"""
    G = nxg(nodes, edges)
    try:
        st = (ctx.fp.stDAG if dag else ctx.fp.stDiGraph)(G, additional_starts=list(starts), additional_ends=list(ends))
    except ValueError:
        return None
    return st


def renamer(st):
    return lambda v: "source" if v == st.source else "sink" if v == st.sink else v


def aug_of(st):
    ren = renamer(st)
    return {"nodes": [ren(v) for v in st.nodes()], "edges": [[ren(u), ren(v)] for u, v in st.edges()],
            "source": "source", "sink": "sink"}


def ren_edges(ren, l):
    return [[ren(u), ren(v)] for (u, v) in l]


def call_real(f, *a, **kw):
    try:
        return {"status": "ok", "value": f(*a, **kw)}
    except Exception as e:          # noqa: the class of the exception is part of the compared behaviour
        return {"status": "raises", "what": type(e).__name__}


def same_status(impl, model):
    if impl["status"] != model["status"]:
        return False
    if impl["status"] == "raises":
        return model["what"].split(":")[0] == impl["what"]
    return True


def compare(ctx, suite, inp, impl, model, fields, nontrivial, hist, as_multiset=False):
    """count + exact comparison of the listed fields of an ok/raises answer"""
    ctx.rep.count(suite, inp, nontrivial=nontrivial, hist=hist + [impl["status"] if impl["status"] == "ok" else "raises:" + impl["what"]])
    ctx.rep.cov["traces_validated_against_impl"] += 1
    ok = same_status(impl, model)
    if ok and impl["status"] == "ok":
        for k in fields:
            a, b = impl["value"][k], model[k]
            if as_multiset:
                a = sorted(map(json.dumps, a)); b = sorted(map(json.dumps, b))
            if a != b:
                ok = False
    if not ok:
        ctx.disagree(suite, inp, impl, model)
    return ok


# ----------------------------------------------------------------------------------------------- generators

def gen_dag(rng, small=False):
    nodes, edges = gen.dag(rng, n=rng.randint(3, 6 if small else 9), p=rng.choice([0.2, 0.3, 0.45, 0.6]))
    starts = rng.sample(nodes, 1) if rng.random() < 0.2 else []
    ends = rng.sample(nodes, 1) if rng.random() < 0.2 else []
    return nodes, [tuple(e) for e in edges], starts, ends


def gen_cyc(rng, max_nodes=7):
    nodes, edges, starts, ends, tags = gen.digraph_cyc(rng, max_nodes=max_nodes)
    return nodes, [tuple(e) for e in edges], starts, ends, tags


def adj_of(G, rev=False):
    if rev:
        return {u: list(G.predecessors(u)) for u in G.nodes()}
    return {u: list(G.successors(u)) for u in G.nodes()}


def adj_json(adj, ren=lambda v: v):
    return [[ren(u), [ren(w) for w in l]] for u, l in adj.items()]


def pick_X(rng, st, mode=None):
    """trusted edges as a list (deterministic iteration order), real node names"""
    E = list(st.edges())
    base = [e for e in E if st.source not in e and st.sink not in e]
    mode = mode or rng.choice(["all", "base", "subset", "subset", "one", "dups"])
    if mode == "all":
        X = list(E)
    elif mode == "base":
        X = list(base) or list(E)
    elif mode == "one":
        X = [rng.choice(E)]
    else:
        pool = base or E
        X = rng.sample(pool, rng.randint(1, len(pool)))
        if mode == "dups":
            X = X + [rng.choice(X)]
    if rng.random() < 0.5:
        rng.shuffle(X)
    return X, mode


# ----------------------------------------------------------------------------------------------- oracles
# (written against the property text; nothing below looks at the model or at how the library computes)

def contains_subseq(walk_edges, seq):
    """seq occurs in walk_edges in order and with multiplicity"""
    j = 0
    for e in walk_edges:
        if j < len(seq) and e == seq[j]:
            j += 1
    return j == len(seq)


def contains_contig(walk_edges, seq):
    n, m = len(walk_edges), len(seq)
    return any(walk_edges[i:i + m] == seq for i in range(n - m + 1))


def all_st_paths(edges, s, t, limit=60000):
    succ = {}
    for u, v in edges:
        succ.setdefault(u, []).append(v)
    out, stack = [], [(s, [])]
    while stack:
        v, pe = stack.pop()
        if v == t:
            out.append(pe)
            if len(out) > limit:
                return None
            continue
        for w in succ.get(v, []):
            stack.append((w, pe + [(v, w)]))
    return out


def dag_safe(paths, seq, items):
    """DAG: `seq` is safe for the collection `items` (each a list of edges to be traversed in order by one path).
    A family of s-t paths covers the items iff every item is contained in one of them. `seq` is in some path of
    EVERY cover  <=>  NOT every item lies on some path avoiding seq (if each item has an avoiding path, those
    paths form a cover avoiding seq; otherwise the path a cover uses for that item contains seq)
    <=>  some item has all its s-t paths containing seq. An item on no s-t path: no cover exists (vacuous)."""
    seq = [tuple(e) for e in seq]
    for it in items:
        it = [tuple(e) for e in it]
        through = [p for p in paths if contains_subseq(p, it)]
        if not through:
            return True
        if all(contains_subseq(p, seq) for p in through):
            return True
    return False


def avoiding_edges(nodes, edges, s, t, seq):
    """edges that lie on some s-t walk which does NOT contain seq as a subsequence (with multiplicity).
    States (v, j): at node v having matched the first j < len(seq) elements greedily (greedy matching decides
    subsequence containment). A transition that would complete the sequence is forbidden."""
    L = len(seq)
    if L == 0:
        return set()
    seq = [tuple(e) for e in seq]
    out = {}
    for (u, v) in edges:
        out.setdefault(u, []).append(v)
    def nxt(j, e):
        return j + 1 if e == seq[j] else j
    fwd = {(s, 0)}
    dq = deque(fwd)
    trans = []                       # (state, edge, state')
    while dq:
        (v, j) = dq.popleft()
        for w in out.get(v, []):
            j2 = nxt(j, (v, w))
            if j2 == L:
                continue
            trans.append(((v, j), (v, w), (w, j2)))
            if (w, j2) not in fwd:
                fwd.add((w, j2)); dq.append((w, j2))
    back = {(t, j) for j in range(L) if (t, j) in fwd}
    rev = {}
    for a, e, b in trans:
        rev.setdefault(b, []).append(a)
    dq = deque(back)
    while dq:
        b = dq.popleft()
        for a in rev.get(b, []):
            if a not in back:
                back.add(a); dq.append(a)
    return {e for a, e, b in trans if a in back and b in back}


def edges_on_walks(nodes, edges, s, t):
    G = nxg(nodes, edges)
    if s not in G or t not in G:
        return set()
    f = nx.descendants(G, s) | {s}
    b = nx.ancestors(G, t) | {t}
    return {(u, v) for (u, v) in edges if u in f and v in b}


def walk_safe(nodes, edges, s, t, seq, X):
    """digraph: `seq` is in some walk of every s-t walk cover of X  <=>  some x in X lies on no s-t walk avoiding
    seq (same argument as dag_safe with walks). If some x lies on no s-t walk at all there is no cover (vacuous)."""
    on = edges_on_walks(nodes, edges, s, t)
    X = [tuple(x) for x in X]
    if any(x not in on for x in X):
        return True
    av = avoiding_edges(nodes, edges, s, t, seq)
    return any(x not in av for x in X)


def cooccur_walk(edges, s, t, seqs, must_use=None):
    """is there ONE s-t walk containing every sequence of `seqs` as a subsequence (independently matched, any
    interleaving) and, when given, traversing the edge `must_use`? returns a witness walk (edge list) or None"""
    seqs = [[tuple(e) for e in q] for q in seqs]
    out = {}
    for (u, v) in edges:
        out.setdefault(u, []).append(v)
    start = (s, tuple(0 for _ in seqs), must_use is None)
    goal_js = tuple(len(q) for q in seqs)
    par = {start: None}
    dq = deque([start])
    while dq:
        st = dq.popleft()
        v, js, used = st
        if v == t and js == goal_js and used:
            w = []
            while par[st] is not None:
                st, e = par[st]
                w.append(e)
            return w[::-1]
        for x in out.get(v, []):
            e = (v, x)
            js2 = tuple(j + 1 if j < len(q) and q[j] == e else j for j, q in zip(js, seqs))
            st2 = (x, js2, used or e == must_use)
            if st2 not in par:
                par[st2] = (st, e); dq.append(st2)
    return None


def unit_decompositions(paths, f, limit=30000):
    """all multisets of paths (edge lists) whose superposition is the integer flow f; None when more than `limit`"""
    res = []
    f = dict(f)
    cur = []

    def rec(i):
        if all(v == 0 for v in f.values()):
            res.append(list(cur))
            return len(res) <= limit
        for j in range(i, len(paths)):
            p = paths[j]
            if all(f[e] >= 1 for e in p):
                for e in p:
                    f[e] -= 1
                cur.append(j)
                ok = rec(j)
                cur.pop()
                for e in p:
                    f[e] += 1
                if not ok:
                    return False
        return True
    return res if rec(0) else None


def flow_safe_oracle(nodes, edges, f, P):
    """P (edge list) is a contiguous subpath of some path in EVERY decomposition of f into unit-weight
    source-to-sink paths; None when the instance is too large for the enumeration"""
    G = nxg(nodes, edges)
    srcs = [v for v in nodes if G.in_degree(v) == 0 and G.out_degree(v) > 0]
    paths = []
    for s in srcs:
        ps = all_st_paths_to_sinks(G, s)
        if ps is None:
            return None
        paths += ps
    if len(paths) > 40:
        return None
    decs = unit_decompositions(paths, {tuple(e): v for e, v in f.items()})
    if decs is None:
        return None
    P = [tuple(e) for e in P]
    for d in decs:
        if not any(contains_contig(paths[j], P) for j in d):
            return False
    return True


def all_st_paths_to_sinks(G, s, limit=200):
    out, stack = [], [(s, [])]
    while stack:
        v, pe = stack.pop()
        if G.out_degree(v) == 0:
            out.append(pe)
            if len(out) > limit:
                return None
            continue
        for w in G.successors(v):
            stack.append((w, pe + [(v, w)]))
    return out


# ----------------------------------------------------------------------------------------------- K1 suites

def k1_bridges(ctx, rng, nodes, edges, starts, ends, dag, it):
    """find_all_bridges on the successor / predecessor dicts of a real augmented graph"""
    spc = mods(ctx)[0]
    st = build_st(ctx, nodes, edges, starts, ends, dag)
    if st is None:
        return
    ren = renamer(st)
    for rev in (False, True):
        adj = adj_of(st, rev)
        t = st.source if rev else st.sink
        cand = [v for v in st.nodes() if v != t]
        for s in rng.sample(cand, min(len(cand), 2 if dag else 1)):
            if rng.random() < 0.1:
                t2 = rng.choice(list(st.nodes()))      # arbitrary target (may be unreachable: IndexError)
            else:
                t2 = t
            work = {u: list(l) for u, l in adj.items()}
            impl = call_real(spc.find_all_bridges, work, s, t2)
            if impl["status"] == "ok":
                impl["value"] = {"bridges": ren_edges(ren, impl["value"]), "adj": adj_json(work, ren),
                                 "restored": work == adj}
            inp = {"adj": adj_json(adj, ren), "s": ren(s), "t": ren(t2)}
            model = ctx.driver.call(dict(inp, op="safety.bridges"))
            nb = len(impl["value"]["bridges"]) if impl["status"] == "ok" else 0
            compare(ctx, "K1.find_all_bridges", inp, impl, model, ["bridges", "adj", "restored"], nontrivial=nb >= 1,
                    hist=["dag" if dag else "cyclic", f"bridges={min(nb, 4)}"])
            if impl["status"] == "ok":
                if dag and not impl["value"]["restored"]:      # (on cyclic inputs the function is never used by the library)
                    ctx.violation("find_all_bridges does not restore the adjacency dict it was given", inp,
                                  site="find_all_bridges")
                # oracle: every reported bridge lies on every s-t2 walk (removing it disconnects t2 from s)
                ctx.rep.cov["oracle_evaluations"] += 1
                for (y, z) in impl["value"]["bridges"]:
                    H = nxg([ren(v) for v in st.nodes()], [(ren(a), ren(b)) for a in adj for b in adj[a]])
                    H.remove_edge(y, z)
                    if nx.has_path(H, ren(s), ren(t2)):
                        ctx.violation(f"find_all_bridges reports {(y, z)} which is not on every {ren(s)}-{ren(t2)} path",
                                      inp, site="find_all_bridges")
                # completeness (not part of C06, recorded as a disagreement-free statistic only)
                if it < 3:
                    ctx.rep.sample({"op": "find_all_bridges", "input": inp, "returned": impl["value"]["bridges"]})


def k1_idom(ctx, rng, nodes, edges, starts, ends, tags):
    spcc = mods(ctx)[1]
    st = build_st(ctx, nodes, edges, starts, ends, dag=False)
    if st is None:
        return
    ren = renamer(st)
    for rev in (False, True):
        adj = adj_of(st, rev)
        t = st.source if rev else st.sink
        # a few calls in a row on the same dict: the state left behind by a call is the input of the next
        work = {u: list(l) for u, l in adj.items()}
        for s in rng.sample(list(st.nodes()), min(3, st.number_of_nodes())):
            before = {u: list(l) for u, l in work.items()}
            inp = {"adj": adj_json(before, ren), "s": ren(s), "t": ren(t)}
            pimpl = call_real(spcc.find_path, {u: list(l) for u, l in before.items()}, s, t)
            pmodel = ctx.driver.call(dict(inp, op="safety.path"))
            if pimpl["status"] == "ok":
                pimpl["value"] = {"path": [ren(v) for v in pimpl["value"]]}
            compare(ctx, "K1.find_path", inp, pimpl, pmodel, ["path"],
                    nontrivial=pimpl["status"] == "ok" and len(pimpl["value"]["path"]) > 2, hist=["path"])
            impl = call_real(spcc.find_idom, work, s, t)
            if impl["status"] == "ok":
                b = impl["value"]
                impl["value"] = {"bridge": None if b is None else [ren(b[0]), ren(b[1])], "adj": adj_json(work, ren)}
            model = ctx.driver.call(dict(inp, op="safety.idom"))
            nt = impl["status"] == "ok" and impl["value"]["bridge"] is not None
            compare(ctx, "K1.find_idom", inp, impl, model, ["bridge", "adj"], nontrivial=nt,
                    hist=["bridge" if nt else "none"] + ["tag:" + x for x in tags if x in ("self_loop", "nested_cycles", "parallel_scc_exit")])
            if impl["status"] == "ok":
                ctx.rep.cov["oracle_evaluations"] += 1
                if {u: sorted(l) for u, l in work.items()} != {u: sorted(l) for u, l in before.items()}:
                    ctx.violation("find_idom does not restore the adjacency relation", inp, site="find_idom")
                if nt:
                    y, z = impl["value"]["bridge"]
                    H = nxg([ren(v) for v in st.nodes()], [(ren(a), ren(b)) for a in before for b in before[a]])
                    H.remove_edge(y, z)
                    if nx.has_path(H, ren(s), ren(t)):
                        ctx.violation(f"find_idom reports {(y, z)} which is not on every {ren(s)}-{ren(t)} walk", inp,
                                      site="find_idom")
            else:
                break       # the dict is left half-modified by the exception


def check_walk_safety(ctx, aug, seqs, X, site, inp):
    """oracle B on a list of sequences (renamed) for trusted edges X (renamed)"""
    edges = [tuple(e) for e in aug["edges"]]
    bad = 0
    for q in seqs:
        ctx.rep.cov["oracle_evaluations"] += 1
        if not walk_safe(aug["nodes"], edges, "source", "sink", q, X):
            bad += 1
            ctx.violation(f"sequence {q} is reported safe for X={X} but some source-sink walk cover of X has no walk "
                          f"containing it", dict(inp, bad_sequence=q), site=site)
    return bad


def k1_maxseq(ctx, rng, nodes, edges, starts, ends, tags, it):
    spcc = mods(ctx)[1]
    st = build_st(ctx, nodes, edges, starts, ends, dag=False)
    if st is None:
        return None
    ren = renamer(st)
    aug = aug_of(st)
    X, mode = pick_X(rng, st)
    Xr = ren_edges(ren, X)
    inp = dict(aug, X=Xr, base={"nodes": nodes, "edges": tl(edges), "starts": starts, "ends": ends})
    as_set = rng.random() < 0.3
    impl = call_real(spcc.maximal_safe_sequences_via_dominators, st, set(X) if as_set else X)
    if impl["status"] == "ok":
        impl["value"] = {"seqs": [ren_edges(ren, q) for q in impl["value"]]}
    model = ctx.driver.call(dict(aug, X=Xr, op="safety.maxseq"))
    nt = impl["status"] == "ok" and any(len(q) >= 2 for q in impl["value"]["seqs"])
    compare(ctx, "K1.maximal_safe_sequences", inp, impl, model, ["seqs"], nontrivial=nt, as_multiset=as_set,
            hist=["X:" + mode, "set" if as_set else "list"] + ["tag:" + x for x in tags])
    if impl["status"] == "ok":
        check_walk_safety(ctx, aug, impl["value"]["seqs"], Xr, "maximal_safe_sequences_via_dominators", inp)
        if it < 2:
            ctx.rep.sample({"op": "maximal_safe_sequences_via_dominators", "input": inp, "returned": impl["value"]["seqs"]})
    return impl


def k1_dag(ctx, rng, nodes, edges, starts, ends, it):
    """safe_paths and safe_sequences on a real stDAG"""
    spc = mods(ctx)[0]
    st = build_st(ctx, nodes, edges, starts, ends, dag=True)
    if st is None:
        return
    ren = renamer(st)
    aug = aug_of(st)
    augE = [tuple(e) for e in aug["edges"]]
    paths = all_st_paths(augE, "source", "sink")
    X, mode = pick_X(rng, st)
    Xr = ren_edges(ren, X)
    threads = rng.choice([1, 2, 4])
    inp = dict(aug, items=Xr, base={"nodes": nodes, "edges": tl(edges), "starts": starts, "ends": ends})
    # ---- safe_paths
    nodup = rng.random() < 0.25
    impl = call_real(spc.safe_paths, st, X, nodup, threads)
    if impl["status"] == "ok":
        impl["value"] = {"paths": [ren_edges(ren, p) for p in impl["value"]]}
    model = ctx.driver.call(dict(aug, items=Xr, op="safety.dagpaths"))
    if nodup and model["status"] == "ok":
        model = dict(model, paths=[json.loads(x) for x in sorted(set(map(json.dumps, model["paths"])))])
        if impl["status"] == "ok":
            impl["value"]["paths"] = [json.loads(x) for x in sorted(map(json.dumps, impl["value"]["paths"]))]
    nt = impl["status"] == "ok" and any(len(p) >= 2 for p in impl["value"]["paths"])
    compare(ctx, "K1.safe_paths", inp, impl, model, ["paths"], nontrivial=nt,
            hist=["X:" + mode, "no_duplicates" if nodup else "list", f"threads={threads}"])
    if impl["status"] == "ok" and paths is not None:
        for p in impl["value"]["paths"]:
            ctx.rep.cov["oracle_evaluations"] += 1
            if not dag_safe(paths, p, [[x] for x in Xr]):
                ctx.violation(f"safe path {p} is not contained in a path of every path cover of X={Xr}",
                              dict(inp, bad_sequence=p), site="safe_paths")
            if not all(a[1] == b[0] for a, b in zip(p, p[1:])):
                ctx.violation(f"safe path {p} is not a path", dict(inp, bad_sequence=p), site="safe_paths")
    # ---- safe_sequences: edges, or subpath constraints (lists of edges)
    use_lists = rng.random() < 0.5
    if use_lists:
        cons = gen.subpaths(rng, nodes, edges, n=rng.randint(1, 3), maxlen=3, contiguous=rng.random() < 0.7)
        items = [[tuple(e) for e in c] for c in cons if c]
        if rng.random() < 0.4:
            items += [tuple(e) for e in rng.sample(X, min(2, len(X)))]
    else:
        items = list(X)
    if not items:
        return
    items_as_lists = [ren_edges(ren, it_) if isinstance(it_, list) else [[ren(it_[0]), ren(it_[1])]] for it_ in items]
    inp = dict(aug, items=items_as_lists, kinds=["list" if isinstance(x, list) else "tuple" for x in items],
               base={"nodes": nodes, "edges": tl(edges), "starts": starts, "ends": ends})
    nodup = rng.random() < 0.2
    impl = call_real(spc.safe_sequences, st, items, nodup, threads)
    if impl["status"] == "ok":
        impl["value"] = {"seqs": [ren_edges(ren, p) for p in impl["value"]]}
    model = ctx.driver.call(dict(aug, items=items_as_lists, op="safety.dagseqs"))
    if nodup and model["status"] == "ok":
        model = dict(model, seqs=[json.loads(x) for x in sorted(set(map(json.dumps, model["seqs"])))])
        if impl["status"] == "ok":
            impl["value"]["seqs"] = [json.loads(x) for x in sorted(map(json.dumps, impl["value"]["seqs"]))]
    nt = impl["status"] == "ok" and any(len(q) > len(i) for q, i in zip(impl["value"]["seqs"], items_as_lists))
    compare(ctx, "K1.safe_sequences", inp, impl, model, ["seqs"], nontrivial=nt,
            hist=["items:lists" if use_lists else "items:" + mode, "no_duplicates" if nodup else "list", f"threads={threads}"])
    if impl["status"] == "ok" and paths is not None:
        for q in impl["value"]["seqs"]:
            ctx.rep.cov["oracle_evaluations"] += 1
            if not dag_safe(paths, q, items_as_lists):
                ctx.violation(f"safe sequence {q} is not contained in a path of every path cover of {items_as_lists}",
                              dict(inp, bad_sequence=q), site="safe_sequences")
        if it < 2:
            ctx.rep.sample({"op": "safe_sequences", "input": inp, "returned": impl["value"]["seqs"]})


def k1_flowsafe(ctx, rng, it, tiny):
    sfd = mods(ctx)[2]
    if tiny:
        nodes, edges = gen.dag(rng, n=rng.randint(3, 5), p=rng.choice([0.4, 0.6]))
        while len(edges) > 6:
            nodes, edges = gen.dag(rng, n=rng.randint(3, 5), p=0.4)
        weights = (1, 1, 2)
    else:
        nodes, edges = gen.dag(rng, n=rng.randint(3, 9), p=rng.choice([0.25, 0.4, 0.6]))
        weights = (1, 2, 3, 5, 8)
    edges = [tuple(e) for e in edges]
    touched = {x for e in edges for x in e}
    nodes = [v for v in nodes if v in touched]
    f, _, _ = gen.flow_from_paths(rng, nodes, edges, npaths=rng.randint(0, 2), weights=weights, cover=rng.random() < 0.85)
    if tiny and max(f.values()) > 4:
        return
    G = nxg(nodes, edges)
    for (u, v) in edges:
        G[u][v]["flow"] = f[(u, v)]
    dec = call_real(lambda: ctx.fp.stDAG(G).decompose_using_max_bottleneck("flow")[0])
    if dec["status"] != "ok":
        return
    nodup = rng.random() < 0.5
    impl = call_real(sfd.compute_flow_decomp_safe_paths, G, "flow", nodup)
    if impl["status"] == "ok":
        impl["value"] = {"paths": tl(impl["value"])}
    inp = {"nodes": nodes, "edges": tl(edges), "flow": [[u, v, qstr(f[(u, v)])] for (u, v) in edges],
           "paths": tl(dec["value"])}
    inp_full = dict(inp, items=[], base={"nodes": nodes, "edges": tl(edges), "starts": [], "ends": []})
    model = ctx.driver.call(dict(inp, op="safety.flowsafe"))
    if nodup and model["status"] == "ok":
        if impl["status"] == "ok" and len(set(map(json.dumps, impl["value"]["paths"]))) != len(impl["value"]["paths"]):
            ctx.disagree("K1.flow_safe_paths", inp, impl, "duplicates with no_duplicates=True")
        model = dict(model, paths=[json.loads(x) for x in sorted(set(map(json.dumps, model["paths"])))])
        if impl["status"] == "ok":
            impl["value"]["paths"] = [json.loads(x) for x in sorted(map(json.dumps, impl["value"]["paths"]))]
    nt = impl["status"] == "ok" and any(len(p) >= 2 for p in impl["value"]["paths"])
    compare(ctx, "K1.flow_safe_paths", inp, impl, model, ["paths"], nontrivial=nt,
            hist=["tiny" if tiny else "large", "no_duplicates" if nodup else "list"])
    if impl["status"] == "ok" and tiny:
        for P in impl["value"]["paths"]:
            r = flow_safe_oracle(nodes, edges, f, P)
            if r is None:
                continue
            ctx.rep.cov["oracle_evaluations"] += 1
            if not r:
                ctx.violation(f"flow-safe path {P} is missing from some decomposition of the flow into unit paths",
                              dict(inp_full, bad_sequence=P), site="compute_flow_decomp_safe_paths")
        if it < 2:
            ctx.rep.sample({"op": "compute_flow_decomp_safe_paths", "input": inp, "returned": impl["value"]["paths"]})


class _Solver:
    def add_constraint(self, *a, **k):
        pass


class _Vars(dict):
    def __missing__(self, k):
        return 0


def real_zero_fix(ctx, st, walks, k):
    """the real `_apply_safety_optimizations_fix_zero_edges` driven through a stub that owns a real stDiGraph"""
    W = ctx.fp.abstractwalkmodeldigraph.AbstractWalkModelDiGraph

    class Stub:
        pass
    Stub._apply_safety_optimizations_fix_zero_edges = W._apply_safety_optimizations_fix_zero_edges
    o = Stub()
    o.G, o.k, o.walks_to_fix = st, k, walks
    o.solver, o.edge_vars, o.edges_set_to_zero, o.solve_statistics = _Solver(), _Vars(), {}, {}
    o._apply_safety_optimizations_fix_zero_edges()
    return list(o.edges_set_to_zero.keys())


def check_zero_fix(ctx, aug, walks_r, zero_r, inp, site="_apply_safety_optimizations_fix_zero_edges"):
    """oracle E"""
    edges = [tuple(e) for e in aug["edges"]]
    for (u, v, i) in zero_r:
        ctx.rep.cov["oracle_evaluations"] += 1
        w = cooccur_walk(edges, "source", "sink", [walks_r[i]], must_use=(u, v))
        if w is not None:
            ctx.violation(f"edge {(u, v)} is fixed to 0 in slot {i} but the source-sink walk {w} contains the slot's "
                          f"sequence {walks_r[i]} and uses it", dict(inp, witness=tl(w)), site=site)


def check_incompatible(ctx, aug, walks_r, inp, site="get_longest_incompatible_sequences"):
    """oracle D"""
    edges = [tuple(e) for e in aug["edges"]]
    for i, j in itertools.combinations(range(len(walks_r)), 2):
        ctx.rep.cov["oracle_evaluations"] += 1
        w = cooccur_walk(edges, "source", "sink", [walks_r[i], walks_r[j]])
        if w is not None:
            ctx.violation(f"sequences {walks_r[i]} and {walks_r[j]} are given to different slots but both occur in the "
                          f"single source-sink walk {w}", dict(inp, witness=tl(w), pair=[i, j]), site=site)
            return False
    return True


def random_walk_subseq(rng, st, maxlen=14):
    """a random subsequence of the edges of a random source-sink walk of the augmented graph (or None)"""
    G = st
    R = nx.DiGraph(); R.add_nodes_from(G.nodes()); R.add_edges_from((v, u) for u, v in G.edges())
    dist = nx.single_source_shortest_path_length(R, G.sink) if G.sink in R else {}
    if G.source not in dist:
        return None
    v, w = G.source, []
    while v != G.sink and len(w) < 40:
        cand = [x for x in G.successors(v) if x in dist]
        if not cand:
            return None
        x = min(cand, key=lambda y: dist[y]) if len(w) >= maxlen else rng.choice(cand)
        w.append((v, x)); v = x
    if v != G.sink:
        return None
    m = rng.randint(1, min(5, len(w)))
    idx = sorted(rng.sample(range(len(w)), m))
    return [w[i] for i in idx]


def k1_zerofix_stub(ctx, rng, nodes, edges, starts, ends, tags):
    st = build_st(ctx, nodes, edges, starts, ends, dag=False)
    if st is None:
        return
    ren = renamer(st)
    aug = aug_of(st)
    walks = []
    for _ in range(rng.randint(1, 3)):
        w = random_walk_subseq(rng, st)
        if w is None:
            continue
        walks.append(w)
    if rng.random() < 0.1:
        walks.insert(rng.randrange(len(walks) + 1), [])
    if not walks:
        return
    k = rng.randint(1, len(walks) + 1)
    walks_r = [ren_edges(ren, w) for w in walks]
    inp = dict(aug, walks=walks_r, k=k, base={"nodes": nodes, "edges": tl(edges), "starts": starts, "ends": ends})
    impl = call_real(real_zero_fix, ctx, st, walks, k)
    if impl["status"] == "ok":
        impl["value"] = {"zero": [[ren(u), ren(v), i] for (u, v, i) in impl["value"]]}
    model = ctx.driver.call(dict(inp, op="safety.zerofix"))
    nt = impl["status"] == "ok" and len(impl["value"]["zero"]) > 0
    compare(ctx, "K1.fix_zero_edges(stub)", inp, impl, model, ["zero"], nontrivial=nt,
            hist=["zero>0" if nt else "zero=0"] + ["tag:" + x for x in tags if x in ("self_loop", "nested_cycles", "parallel_scc_exit")])
    if impl["status"] == "ok":
        check_zero_fix(ctx, aug, walks_r, [tuple(z) for z in impl["value"]["zero"]], inp)


def capture_antichain(st):
    """wrap compute_max_edge_antichain of the expanded condensation so that the antichain it returns is recorded"""
    ce = st._condensation_expanded
    rec = {}
    orig = type(ce).compute_max_edge_antichain

    def wrapped(get_antichain=False, weight_function=None):
        r = orig(ce, get_antichain=get_antichain, weight_function=weight_function)
        if get_antichain:
            rec["antichain"] = [list(e) for e in r[1]]
        return r
    ce.compute_max_edge_antichain = wrapped
    return rec


def check_t6_contracts(ctx, aug, mapping, antichain, inp):
    """the two hypotheses of FP.Props.C06.incompatible_sound about the oracle parameters, by direct search:
    `SccLabelling` (same number iff mutually reachable) and `CondAntichain` (the members handed back by
    compute_max_edge_antichain are pairwise unreachable in the expanded condensation, rebuilt here from the
    numbering as the image of the graph edges)"""
    nodes = aug["nodes"]; edges = [tuple(e) for e in aug["edges"]]
    out = {}
    for (u, v) in edges:
        out.setdefault(u, []).append(v)

    def reach(adj, a):
        seen = {a}; dq = deque([a])
        while dq:
            x = dq.popleft()
            for y in adj.get(x, []):
                if y not in seen:
                    seen.add(y); dq.append(y)
        return seen
    lab = {v: c for v, c in mapping}
    R = {v: reach(out, v) for v in nodes}
    ctx.rep.cov["contract_checks"] = ctx.rep.cov.get("contract_checks", 0) + 1
    for u in nodes:
        for v in nodes:
            if (lab[u] == lab[v]) != (v in R[u] and u in R[v]):
                raise common.Infra(f"nx.condensation mapping is not an SCC numbering at {u},{v} on {json.dumps(inp)[:300]}")
    nontrivial = {lab[u] for (u, v) in edges if lab[u] == lab[v]}
    cadj = {}
    for (u, v) in edges:
        a, b = lab[u], lab[v]
        ce = ((f"{a}_expanded" if a in nontrivial else str(a)), str(b)) if a != b else (str(a), f"{a}_expanded")
        cadj.setdefault(ce[0], []).append(ce[1])
    anti = [tuple(e) for e in antichain]
    ctx.rep.count("contract.T6", inp, nontrivial=len(set(anti)) >= 2, hist=[f"members={min(len(set(anti)), 4)}"])
    for a in anti:
        Ra = reach(cadj, a[1])
        for b in anti:
            if a != b and b[0] in Ra:
                ctx.disagree("contract.T6", inp, {"antichain": [list(x) for x in anti]},
                             {"comparable": [list(a), list(b)]},
                             note="hypothesis CondAntichain of incompatible_sound fails: a member reaches another one")
                return False
    return True


def k1_incompatible(ctx, st, seqs, inp_extra, suite="K1.longest_incompatible"):
    """get_longest_incompatible_sequences on a real stDiGraph; returns the chosen sequences (renamed) or None"""
    ren = renamer(st)
    aug = aug_of(st)
    rec = capture_antichain(st)
    try:
        impl = call_real(st.get_longest_incompatible_sequences, seqs)
    finally:
        try:
            del st._condensation_expanded.compute_max_edge_antichain
        except AttributeError:
            pass
    seqs_r = [ren_edges(ren, q) for q in seqs]
    mapping = [[ren(v), c] for v, c in st._condensation.graph["mapping"].items()]
    inp = dict(aug, seqs=seqs_r, mapping=mapping, antichain=rec.get("antichain", []), **inp_extra)
    if impl["status"] == "ok":
        impl["value"] = {"seqs": [ren_edges(ren, q) for q in impl["value"]]}
    model = ctx.driver.call(dict(aug, seqs=seqs_r, mapping=mapping, antichain=rec.get("antichain", []), op="safety.incompatible"))
    nt = impl["status"] == "ok" and len(impl["value"]["seqs"]) >= 2
    compare(ctx, suite, inp, impl, model, ["seqs"], nontrivial=nt,
            hist=[f"chosen={min(len(impl['value']['seqs']), 4)}" if impl["status"] == "ok" else "raises"])
    if impl["status"] != "ok":
        return None, inp
    check_t6_contracts(ctx, aug, mapping, rec.get("antichain", []), inp)
    return impl["value"]["seqs"], inp


def real_model_case(ctx, rng, it):
    """a real walk model with default options: safe_lists, walks_to_fix, edges_set_to_zero/one"""
    fp = ctx.fp
    nodes, edges, starts, ends, tags = gen_cyc(rng, max_nodes=6)
    cls = rng.choice(["kPathCoverCycles", "kFlowDecompCycles"])
    G = nxg(nodes, edges)
    k = rng.randint(1, 4)
    flow = None
    try:
        if cls == "kFlowDecompCycles":
            f, walks, ws = gen.walk_flow_cyc(rng, nodes, edges, starts, ends)
            if not walks:
                return
            for (u, v) in edges:
                G[u][v]["flow"] = f[(u, v)]
            flow = [[u, v, f[(u, v)]] for (u, v) in edges]
            k = max(1, len(walks) + rng.choice([0, 0, 1]))
            m = fp.kFlowDecompCycles(G, flow_attr="flow", k=k, weight_type=int, additional_starts=starts,
                                     additional_ends=ends, solver_options={"time_limit": 30})
        else:
            m = fp.kPathCoverCycles(G, k=k, additional_starts=starts, additional_ends=ends,
                                    solver_options={"time_limit": 30})
    except Exception as e:
        ctx.rep.count("real." + cls, {"nodes": nodes, "edges": tl(edges), "starts": starts, "ends": ends, "k": k},
                      hist=["constructor raises " + type(e).__name__])
        return
    st = m.G
    ren = renamer(st)
    aug = aug_of(st)
    X = ren_edges(ren, sorted(m.trusted_edges_for_safety))
    safe = [ren_edges(ren, q) for q in m.safe_lists]
    walks_r = [ren_edges(ren, q) for q in getattr(m, "walks_to_fix", [])]
    zero = [(ren(u), ren(v), i) for (u, v, i) in m.edges_set_to_zero]
    inp = dict(aug, cls=cls, k=k, X=X, flow=flow, base={"nodes": nodes, "edges": tl(edges), "starts": starts, "ends": ends})
    ctx.rep.count("real." + cls, inp, nontrivial=len(walks_r) >= 1 and (len(zero) > 0 or len(walks_r) >= 2),
                  hist=[f"walks_to_fix={min(len(walks_r), 4)}", "zero>0" if zero else "zero=0"] + ["tag:" + t for t in tags])
    # model side: the whole pipeline maxseq -> (incompatible with captured antichain) -> zerofix
    mm = ctx.driver.call(dict(aug, X=X, op="safety.maxseq"))
    ctx.rep.cov["traces_validated_against_impl"] += 1
    if mm["status"] != "ok" or sorted(map(json.dumps, mm["seqs"])) != sorted(map(json.dumps, safe)):
        ctx.disagree("real." + cls, dict(inp, stage="safe_lists"), safe, mm)
    mz = ctx.driver.call(dict(aug, walks=walks_r, k=k, op="safety.zerofix"))
    ctx.rep.cov["traces_validated_against_impl"] += 1
    if mz["status"] != "ok" or [tuple(z) for z in mz["zero"]] != zero:
        ctx.disagree("real." + cls, dict(inp, stage="edges_set_to_zero", walks=walks_r), tl(zero), mz)
    # oracles on the real outputs
    check_walk_safety(ctx, aug, safe, X, "maximal_safe_sequences_via_dominators", inp)
    check_incompatible(ctx, aug, walks_r, dict(inp, seqs=safe, walks=walks_r))
    check_zero_fix(ctx, aug, walks_r, zero, dict(inp, walks=walks_r))
    for (u, v, i) in m.edges_set_to_one:
        ctx.rep.cov["oracle_evaluations"] += 1
        if i >= len(walks_r) or [ren(u), ren(v)] not in walks_r[i]:
            ctx.violation(f"edge {(u, v)} fixed to 1 in slot {i} is not in that slot's sequence", inp,
                          site="_apply_safety_optimizations")
    if it < 2:
        ctx.rep.sample({"op": cls, "input": inp, "safe_lists": safe, "walks_to_fix": walks_r, "edges_set_to_zero": tl(zero)})


def real_dag_model_case(ctx, rng, it):
    """real DAG models with default options: `safe_lists` (safe_paths / flow-safe paths / safe sequences of the
    subpath constraints) against the model and the DAG oracle"""
    fp = ctx.fp
    nodes, edges, starts, ends = gen_dag(rng, small=True)
    touched = {x for e in edges for x in e}
    nodes = [v for v in nodes if v in touched]
    starts = [v for v in starts if v in touched]; ends = [v for v in ends if v in touched]
    cls = rng.choice(["kPathCover", "kFlowDecomp", "kMinPathError"])
    G = nxg(nodes, edges)
    cons = []
    f = None
    # partial coverage of the constraints (by number of edges or by length): a path then need not contain a whole constraint,
    # so nothing may be derived from the constraints as if they were sequences every solution contains
    partial = {}
    r = rng.random()
    if r < 0.2:
        partial = {"subpath_constraints_coverage": rng.choice([0.5, 0.75])}
    elif r < 0.45:
        partial = {"subpath_constraints_coverage_length": rng.choice([0.5, 0.6, 1]), "length_attr": "length"}
        for (u, v) in edges:
            G[u][v]["length"] = rng.choice([1, 1, 2, 3])
    full = partial.get("subpath_constraints_coverage", 1) == 1 and partial.get("subpath_constraints_coverage_length", 1) == 1
    try:
        if cls == "kPathCover":
            if rng.random() < 0.5 or partial:
                cons = [[tuple(e) for e in c] for c in gen.subpaths(rng, nodes, edges, n=rng.randint(1, 2)) if c]
            m = fp.kPathCover(G, k=rng.randint(1, 3), subpath_constraints=cons, additional_starts=starts, additional_ends=ends,
                              **partial)
        else:
            starts, ends = [], []
            f, _, _ = gen.flow_from_paths(rng, nodes, edges, weights=(1, 1, 2), npaths=rng.randint(0, 1))
            for (u, v) in edges:
                G[u][v]["flow"] = f[(u, v)]
            if cls == "kFlowDecomp":
                m = fp.kFlowDecomp(G, flow_attr="flow", k=rng.randint(1, 3), weight_type=int)
            else:
                cons = [[tuple(e) for e in c] for c in gen.subpaths(rng, nodes, edges, n=rng.randint(1, 2)) if c]
                m = fp.kMinPathError(G, flow_attr="flow", k=rng.randint(1, 3), weight_type=int, subpath_constraints=cons, **partial)
    except Exception as e:
        ctx.rep.count("real." + cls, {"nodes": nodes, "edges": tl(edges)}, hist=["constructor raises " + type(e).__name__])
        return
    st = m.G
    ren = renamer(st)
    aug = aug_of(st)
    augE = [tuple(e) for e in aug["edges"]]
    safe = [ren_edges(ren, q) for q in (m.safe_lists or [])]
    X = ren_edges(ren, sorted(m.trusted_edges_for_safety or []))
    cons_r = [ren_edges(ren, c) for c in cons] if (full or cls == "kFlowDecomp") else []
    base = {"nodes": nodes, "edges": tl(edges), "starts": starts, "ends": ends}
    inp = dict(aug, cls=cls, items=X, constraints=cons_r, base=base,
               flow=None if f is None else [[u, v, f[(u, v)]] for (u, v) in edges])
    if not full and cls != "kFlowDecomp":
        inp["partial_coverage"] = {k: v for k, v in partial.items()}
        inp["constraints_given"] = [ren_edges(ren, c) for c in cons]
        inp["lengths"] = [[u, v, G[u][v].get("length")] for (u, v) in edges]
    ctx.rep.count("real." + cls, inp, nontrivial=any(len(q) >= 2 for q in safe),
                  hist=[f"safe_lists={min(len(safe), 6)}", "constraints" if cons else "no-constraints"]
                  + (["partial-coverage"] if (cons and not full and cls != "kFlowDecomp") else []))
    paths = all_st_paths(augE, "source", "sink")
    if cls == "kFlowDecomp":
        # safe_lists are the flow-safe paths of the caller's graph
        for P in safe:
            r = flow_safe_oracle(nodes, edges, f, P)
            if r is None:
                continue
            ctx.rep.cov["oracle_evaluations"] += 1
            if not r:
                ctx.violation(f"flow-safe path {P} (kFlowDecomp.safe_lists) is missing from some decomposition into unit paths",
                              dict(inp, bad_sequence=P), site="compute_flow_decomp_safe_paths")
        return
    # model side: safe_paths for the trusted edges, then safe_sequences for the constraints
    expect = []
    if m.optimize_with_safe_paths and X:
        mp = ctx.driver.call(dict(aug, items=X, op="safety.dagpaths"))
        ctx.rep.cov["traces_validated_against_impl"] += 1
        expect += mp.get("paths", [])
    if cons_r:
        ms = ctx.driver.call(dict(aug, items=cons_r, op="safety.dagseqs"))
        ctx.rep.cov["traces_validated_against_impl"] += 1
        expect += ms.get("seqs", [])
    if sorted(map(json.dumps, expect)) != sorted(map(json.dumps, safe)):
        ctx.disagree("real." + cls, inp, safe, expect)
    if paths is not None:
        items = [[x] for x in X] + cons_r
        for q in safe:
            ctx.rep.cov["oracle_evaluations"] += 1
            if not dag_safe(paths, q, items):
                ctx.violation(f"{cls}.safe_lists contains {q}, which is not in a path of every path cover of {items}",
                              dict(inp, bad_sequence=q), site="safe_lists")


def incompat_case(ctx, rng, it):
    """get_longest_incompatible_sequences on the maximal safe sequences of a random digraph"""
    spcc = mods(ctx)[1]
    nodes, edges, starts, ends, tags = gen_cyc(rng, max_nodes=7)
    st = build_st(ctx, nodes, edges, starts, ends, dag=False)
    if st is None:
        return
    ren = renamer(st)
    X, mode = pick_X(rng, st, mode=rng.choice(["all", "base", "subset"]))
    r = call_real(spcc.maximal_safe_sequences_via_dominators, st, X)
    if r["status"] != "ok" or not r["value"]:
        return
    seqs = r["value"]
    base = {"nodes": nodes, "edges": tl(edges), "starts": starts, "ends": ends}
    chosen, inp = k1_incompatible(ctx, st, seqs, {"X": ren_edges(ren, X), "base": base})
    if chosen is not None:
        ok = check_incompatible(ctx, aug_of(st), chosen, inp)
        # and the zero fixing for exactly these sequences
        k = len(chosen)
        impl = call_real(real_zero_fix, ctx, st, [[tuple(e) for e in q] for q in
                                                  [[(st.source if a == "source" else a, st.sink if b == "sink" else b)
                                                    for a, b in q] for q in chosen]], k)
        if impl["status"] == "ok":
            zero = [(ren(u), ren(v), i) for (u, v, i) in impl["value"]]
            check_zero_fix(ctx, aug_of(st), chosen, zero, dict(inp, walks=chosen))


# ----------------------------------------------------------------------------------------------- life cycle

def corpus_cases():
    out = []
    d = common.CORPUS / "C06"
    if d.exists():
        for p in sorted(d.glob("*.json")):
            out.append(json.loads(p.read_text()))
    return out


def run_corpus_case(ctx, c):
    rng = random.Random(c.get("seed", 1))
    kind = c.get("kind", "cyc")
    nodes, edges = c["nodes"], [tuple(e) for e in c["edges"]]
    starts, ends = c.get("starts", []), c.get("ends", [])
    if kind == "dag":
        k1_bridges(ctx, rng, nodes, edges, starts, ends, True, 99)
        k1_dag(ctx, rng, nodes, edges, starts, ends, 99)
    else:
        k1_idom(ctx, rng, nodes, edges, starts, ends, [])
        k1_maxseq(ctx, rng, nodes, edges, starts, ends, [], 99)
        k1_zerofix_stub(ctx, rng, nodes, edges, starts, ends, [])


def finding_case(ctx, inp):
    """replay of a stored minimal input of a listed finding"""
    replay(ctx, {"input": inp})


def oracle_selftest(ctx, rng):
    """the oracles must reject corrupted outputs: a non-dominating edge spliced into a safe sequence, a protected
    edge declared zero-fixed, two sequences along one walk declared incompatible"""
    spcc = mods(ctx)[1]
    det = Counter()
    for _ in range(ctx.n(60, 300)):
        nodes, edges, starts, ends, tags = gen_cyc(rng, max_nodes=6)
        st = build_st(ctx, nodes, edges, starts, ends, dag=False)
        if st is None:
            continue
        ren = renamer(st); aug = aug_of(st); E = [tuple(e) for e in aug["edges"]]
        X = ren_edges(ren, [e for e in st.edges()])
        r = call_real(spcc.maximal_safe_sequences_via_dominators, st, list(st.edges()))
        if r["status"] != "ok" or not r["value"]:
            continue
        q = ren_edges(ren, r["value"][0])
        on = edges_on_walks(aug["nodes"], E, "source", "sink")
        if any(tuple(x) not in on for x in X):
            continue
        # (1) splice an edge that some walk through the core avoids
        extra = [e for e in E if list(e) not in q]
        if extra:
            e = rng.choice(extra)
            bad = q[:rng.randrange(len(q) + 1)]
            bad = bad + [list(e)] + q[len(bad):]
            det["safety:" + ("detected" if not walk_safe(aug["nodes"], E, "source", "sink", bad, X) else "missed")] += 1
        # (2) an edge of the sequence itself declared forbidden
        w = cooccur_walk(E, "source", "sink", [q], must_use=tuple(q[0]))
        det["zerofix:" + ("detected" if w is not None else "missed")] += 1
        # (3) a sequence and its own prefix declared incompatible
        w = cooccur_walk(E, "source", "sink", [q, q[:1]])
        det["incompatible:" + ("detected" if w is not None else "missed")] += 1
    for k, v in det.items():
        for _ in range(v):
            ctx.rep.count("oracle.selftest", k + str(_), hist=[k])
    if not det["safety:detected"] or not det["zerofix:detected"] or not det["incompatible:detected"]:
        raise common.Infra("oracle self-test: a corrupted output was never detected " + str(dict(det)))


def run(ctx):
    rng = ctx.rng
    oracle_selftest(ctx, rng)
    for c in corpus_cases():
        run_corpus_case(ctx, c)
    # quirk probe (not a C06 violation: no result is produced): safe_maximal_paths calls methods stDAG does not have
    spc = mods(ctx)[0]
    st = build_st(ctx, ["a", "b", "c"], [("a", "b"), ("b", "c")], [], [], True)
    r = call_real(spc.safe_maximal_paths, st, [("a", "b")])
    ctx.rep.count("probe.safe_maximal_paths", "abc", hist=[r["status"] + ":" + str(r.get("what", ""))])
    for it in range(ctx.n(2000, 30000)):
        nodes, edges, starts, ends = gen_dag(rng)
        k1_bridges(ctx, rng, nodes, edges, starts, ends, True, it)
        k1_dag(ctx, rng, nodes, edges, starts, ends, it)
    for it in range(ctx.n(2000, 30000)):
        nodes, edges, starts, ends, tags = gen_cyc(rng, max_nodes=rng.choice([4, 6, 7]))
        if it % 4 == 0:
            k1_bridges(ctx, rng, nodes, edges, starts, ends, False, 99)
        k1_idom(ctx, rng, nodes, edges, starts, ends, tags)
        k1_maxseq(ctx, rng, nodes, edges, starts, ends, tags, it)
        k1_zerofix_stub(ctx, rng, nodes, edges, starts, ends, tags)
    for it in range(ctx.n(1800, 25000)):
        k1_flowsafe(ctx, rng, it, tiny=(it % 2 == 0))
    for it in range(ctx.n(1200, 15000)):
        incompat_case(ctx, rng, it)
    for it in range(ctx.n(600, 6000)):
        real_model_case(ctx, rng, it)
    for it in range(ctx.n(900, 12000)):
        real_dag_model_case(ctx, rng, it)


def search(ctx):
    """failing-input search after a broken tie: the oracles on the disagreeing inputs, then on fresh random inputs"""
    rng = random.Random(4242 + ctx.rng.randint(0, 10**6))
    for d in ctx.disagreements:
        try:
            replay(ctx, {"input": d["input"]})
        except Exception:
            pass
        if ctx.violations:
            return
    for it in range(4000):
        n = 3 + it // 800
        nodes, edges, starts, ends, tags = gen_cyc(rng, max_nodes=min(7, n))
        k1_maxseq(ctx, rng, nodes, edges, starts, ends, tags, 99)
        k1_zerofix_stub(ctx, rng, nodes, edges, starts, ends, tags)
        if it % 2 == 0:
            incompat_case(ctx, rng, 99)
        nodes, edges, starts, ends = gen_dag(rng, small=it < 2000)
        k1_dag(ctx, rng, nodes, edges, starts, ends, 99)
        k1_flowsafe(ctx, rng, 99, tiny=True)
        real_dag_model_case(ctx, rng, 99)
        if len(ctx.violations) > 20:
            break
    ctx.violations.sort(key=lambda v: len(json.dumps(v["input"])))


def replay_dag(ctx, inp, nodes, edges, starts, ends):
    """safe_paths / safe_sequences on exactly the stored items, judged by the DAG oracle"""
    spc = mods(ctx)[0]
    st = build_st(ctx, nodes, edges, starts, ends, dag=True)
    if st is None:
        return
    ren = renamer(st)
    unren = lambda v: st.source if v == "source" else st.sink if v == "sink" else v
    aug = aug_of(st)
    paths = all_st_paths([tuple(e) for e in aug["edges"]], "source", "sink")
    items_r = [it if it and isinstance(it[0], list) else [it] for it in inp["items"]]
    cons_r = [c for c in inp.get("constraints", [])]
    ctx.rep.count("replay", inp, nontrivial=True, hist=["dag"])
    singles = [(unren(it[0][0]), unren(it[0][1])) for it in items_r if len(it) == 1]
    r = call_real(spc.safe_paths, st, singles, False, 1)
    if r["status"] == "ok" and paths is not None:
        for p in r["value"]:
            p = ren_edges(ren, p)
            if not dag_safe(paths, p, items_r + cons_r):
                ctx.violation(f"safe path {p} is not contained in a path of every path cover of {items_r + cons_r}",
                              dict(inp, bad_sequence=p), site="safe_paths")
    real_items = [[(unren(a), unren(b)) for a, b in it] for it in items_r + cons_r]
    kinds = inp.get("kinds") or ["list"] * len(real_items)
    real_items = [it[0] if k == "tuple" and len(it) == 1 else it for it, k in zip(real_items, kinds + ["list"] * len(real_items))]
    r = call_real(spc.safe_sequences, st, real_items, False, 1)
    if r["status"] == "ok" and paths is not None:
        for q in r["value"]:
            q = ren_edges(ren, q)
            if not dag_safe(paths, q, items_r + cons_r):
                ctx.violation(f"safe sequence {q} is not contained in a path of every path cover of {items_r + cons_r}",
                              dict(inp, bad_sequence=q), site="safe_sequences")
    if inp.get("flow"):
        f = {(u, v): int(q) for u, v, q in inp["flow"]}
        Gb = nxg(nodes, edges)
        for (u, v) in edges:
            Gb[u][v]["flow"] = f[(u, v)]
        rr = call_real(mods(ctx)[2].compute_flow_decomp_safe_paths, Gb, "flow", False)
        if rr["status"] == "ok":
            for P in tl(rr["value"]):
                ok = flow_safe_oracle(nodes, edges, f, P)
                if ok is False:
                    ctx.violation(f"flow-safe path {P} is missing from some decomposition of the flow into unit paths",
                                  dict(inp, bad_sequence=P), site="compute_flow_decomp_safe_paths")


def replay(ctx, payload):
    inp = payload.get("input") or (payload.get("disagreements") or [{}])[0].get("input")
    if not inp:
        print("nothing to replay"); return
    base = inp.get("base")
    rng = random.Random(7)
    if base is None:
        print("replay: input without base graph; driver-level input only"); return
    nodes, edges = base["nodes"], [tuple(e) for e in base["edges"]]
    starts, ends = base.get("starts", []), base.get("ends", [])
    G = nxg(nodes, edges)
    if nx.is_directed_acyclic_graph(G) and "items" in inp:
        replay_dag(ctx, inp, nodes, edges, starts, ends)
        return
    st = build_st(ctx, nodes, edges, starts, ends, dag=False)
    if st is None:
        return
    unren = lambda v: st.source if v == "source" else st.sink if v == "sink" else v
    ren = renamer(st)
    aug = aug_of(st)
    spcc = mods(ctx)[1]
    if "X" in inp:
        X = [(unren(u), unren(v)) for u, v in inp["X"]]
        r = call_real(spcc.maximal_safe_sequences_via_dominators, st, X)
        if r["status"] == "ok":
            seqs = [ren_edges(ren, q) for q in r["value"]]
            ctx.rep.count("replay", inp, nontrivial=True, hist=["maxseq"])
            check_walk_safety(ctx, aug, seqs, inp["X"], "maximal_safe_sequences_via_dominators", inp)
            if r["value"]:
                chosen, inp2 = k1_incompatible(ctx, st, r["value"], {"X": inp["X"], "base": base}, suite="replay")
                if chosen is not None:
                    check_incompatible(ctx, aug, chosen, inp2)
                    walks = [[(unren(a), unren(b)) for a, b in q] for q in chosen]
                    z = call_real(real_zero_fix, ctx, st, walks, len(walks))
                    if z["status"] == "ok":
                        check_zero_fix(ctx, aug, chosen, [(ren(u), ren(v), i) for (u, v, i) in z["value"]], dict(inp2, walks=chosen))
    if "walks" in inp and "X" not in inp:
        walks = [[(unren(a), unren(b)) for a, b in q] for q in inp["walks"]]
        k = inp.get("k", len(walks))
        z = call_real(real_zero_fix, ctx, st, walks, k)
        ctx.rep.count("replay", inp, nontrivial=True, hist=["zerofix"])
        if z["status"] == "ok":
            check_zero_fix(ctx, aug, inp["walks"], [(ren(u), ren(v), i) for (u, v, i) in z["value"]], inp)
