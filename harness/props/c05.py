"""C05 — optimisation options never change solvability or the optimal objective.

Proof: FP/Props/C05.lean (abstract optimum-preservation lemma, row/bound equivalence of fixing, LP append semantics,
search shortcuts) — see MODEL_SCOPE for what is and is not covered by theorems.
Tie/oracle: metamorphic end-to-end runs: the same input under sampled subsets of every documented option flag must give
the same solved status and the same objective as the all-off baseline (K5); K2 LP-dump equality of the encoders with
option flags that do not touch the LP.
"""
import json, random, itertools
from fpv import models, k2, gen
from fpv.common import frac

THEOREMS = ["FP.Props.C05.opt_preserved", "FP.Props.C05.sat_append", "FP.Props.C05.lowerBound_row_equiv",
            "FP.Props.C05.fix_row_equiv", "FP.Props.C05.shortcut_preserves_search"]
IMPORTS = ["FP.Props.C05"]
K2_ADAPTERS = ["kfd", "kcover", "kfdc"]
RULE = ("for every class that accepts optimization_options: random inputs; the all-flags-off run is the reference; quick tier "
        "samples single flags plus random subsets, thorough tier more inputs and the full cross product on small inputs. A case "
        "= (class, input, flag set); non-trivial iff the flag set is non-empty and the model is constructible with it.")
MODEL_SCOPE = ("theorems: abstract optimum preservation under added constraints, LP append semantics, equivalence of fixing through "
               "bounds and through rows (given C12's exact batch update), search shortcuts (greedy / given weights accepted only at "
               "the k under test). NOT yet proven: that the concrete safe sequences satisfy the hypothesis of opt_preserved "
               "(needs C06's safety and incompatibility theorems) — covered by the metamorphic oracle only.")
TRUSTED = ["HiGHS proves optimality/infeasibility correctly on the small instances used by the metamorphic oracle"]
ASSUMPTIONS = ["documented option conflicts raise ValueError and are skipped"]

DAG_FLAGS = ["optimize_with_safe_paths", "optimize_with_safe_sequences", "optimize_with_safe_zero_edges",
             "optimize_with_subpath_constraints_as_safe_sequences", "optimize_with_safety_as_subpath_constraints",
             "optimize_with_safety_from_largest_antichain"]
KFD_FLAGS = ["optimize_with_greedy", "optimize_with_flow_safe_paths"]
MFD_FLAGS = ["use_min_gen_set_lowerbound", "optimize_with_guessed_weights",
             "use_min_gen_set_lowerbound_partition_constraints"]
CYC_FLAGS = ["optimize_with_safe_sequences", "optimize_with_safe_sequences_allow_geq_constraints",
             "optimize_with_safe_sequences_fix_via_bounds", "optimize_with_safe_sequences_fix_zero_edges",
             "optimize_with_safety_as_subset_constraints", "optimize_with_max_safe_antichain_as_subset_constraints"]
MFDC_FLAGS = ["use_min_gen_set_lowerbound", "optimize_with_guessed_weights"]


def flags_of(cls):
    if models.is_cyc(cls):
        return CYC_FLAGS + (MFDC_FLAGS if cls == "MinFlowDecompCycles" else [])
    fl = list(DAG_FLAGS)
    if cls in ("kFlowDecomp", "MinFlowDecomp"):
        fl += KFD_FLAGS
    if cls == "MinFlowDecomp":
        fl += MFD_FLAGS
    return fl


def outcome(fp, inst, opts):
    """(status, objective) where status in solved/unsolved/rejected/<exception>"""
    inst2 = dict(inst, options=dict(opts))
    try:
        m = models.build(fp, inst2)
    except ValueError as e:
        return ("rejected", str(e)[:80])
    try:
        ok = bool(m.solve())
    except SystemExit:
        return ("exit() called", None)
    except ValueError as e:             # Min* wrappers construct their k-models (and meet option conflicts) in solve()
        return ("rejected", str(e)[:80])
    if not ok:
        return ("unsolved", None)
    try:
        obj = m.get_objective_value()
    except Exception as e:
        return ("solved", f"<objective raised {type(e).__name__}>")
    return ("solved", obj)


def same(a, b):
    if a[0] != b[0]:
        return False
    if a[0] != "solved":
        return True
    try:
        return abs(float(a[1]) - float(b[1])) <= 1e-6 * max(1.0, abs(float(a[1])))
    except Exception:
        return a[1] == b[1]


def metamorphic(ctx, inst, flagsets, suite="K5.metamorphic"):
    fp = ctx.fp
    cls = inst["cls"]
    allf = flags_of(cls)
    base_opts = {f: False for f in allf}
    ref = outcome(fp, inst, base_opts)
    ctx.rep.count(suite, [inst, "baseline"], nontrivial=False, hist=[cls, "baseline:" + ref[0]])
    for fs in flagsets:
        opts = dict(base_opts, **{f: True for f in fs})
        got = outcome(fp, inst, opts)
        ctx.rep.cov["oracle_evaluations"] += 1
        ctx.rep.count(suite, [inst, sorted(fs)], nontrivial=bool(fs) and got[0] != "rejected",
                      hist=[cls, got[0]] + [f"flag:{f}" for f in fs])
        if got[0] == "rejected":
            continue
        if not same(ref, got):
            ctx.violation(f"{cls}: with options {sorted(fs)} the outcome is {got}, with all options off it is {ref}",
                          dict(inst, flags=sorted(fs), baseline=list(ref), outcome=list(got)),
                          site=f"{cls}:" + "+".join(sorted(fs)))
    # defaults (no options given at all) must agree as well
    got = outcome(fp, inst, {})
    ctx.rep.cov["oracle_evaluations"] += 1
    ctx.rep.count(suite, [inst, "defaults"], nontrivial=True, hist=[cls, "defaults", got[0]])
    if got[0] != "rejected" and not same(ref, got):
        ctx.violation(f"{cls}: with default options the outcome is {got}, with all options off it is {ref}",
                      dict(inst, flags=["<defaults>"], baseline=list(ref), outcome=list(got)), site=f"{cls}:defaults")
    return ref


def sample_flagsets(rng, allf, n_random, full=False):
    if full:
        return [list(c) for r in range(1, len(allf) + 1) for c in itertools.combinations(allf, r)]
    sets = [[f] for f in allf]
    for _ in range(n_random):
        sets.append(rng.sample(allf, rng.randint(2, min(4, len(allf)))))
    return sets


def gen_inst(rng, cls):
    inst = models.instance(rng, cls, features=True)
    inst["starts"], inst["ends"] = [], []          # keep the input inside every class's documented domain
    if cls in ("MinFlowDecomp", "MinFlowDecompCycles", "kFlowDecomp", "kFlowDecompCycles"):
        inst["ignore"] = []
    return inst


def run(ctx):
    rng = ctx.rng
    k2.run_k2(ctx, K2_ADAPTERS, ctx.n(30, 400))
    per = ctx.n(2, 12)
    first = True
    for cls in models.ALL_CLASSES:
        for it in range(per):
            inst = gen_inst(rng, cls)
            full = (not ctx.quick()) and it < 2 and len(inst["edges"]) <= 6
            fsets = sample_flagsets(rng, flags_of(cls), ctx.n(3, 10), full=full)
            ref = metamorphic(ctx, inst, fsets)
            if first:
                ctx.rep.sample({"class": cls, "instance": inst, "flag_sets": fsets[:6], "baseline": list(ref)})
                first = False


def finding_case(ctx, inp):
    flags = inp.get("flags", [])
    inst = {k: v for k, v in inp.items() if k not in ("flags", "baseline", "outcome")}
    metamorphic(ctx, inst, [[f for f in flags if not f.startswith("<")]] if flags else [], suite="known-findings")


def search(ctx):
    rng = random.Random(5150)
    for cls in models.ALL_CLASSES:
        for it in range(6):
            inst = gen_inst(rng, cls)
            metamorphic(ctx, inst, sample_flagsets(rng, flags_of(cls), 6), suite="search.metamorphic")


def replay(ctx, payload):
    inp = payload.get("input") or {}
    if "cls" in inp:
        finding_case(ctx, inp)
