"""C05 — optimisation options never change solvability or the optimal objective.

Proof: FP/Props/C05.lean.
 * generic: abstract optimum-preservation lemma, row/bound equivalence of fixing, LP append semantics, search shortcuts;
 * the six safety flags of the cyclic (walk) models — a real theorem for kPathCoverCycles (feasibility AND minimum) and
   kFlowDecompCycles without given weights (feasibility; the k-model has no objective), for every subset of the flags:
   layer-permutation invariance of the LPs (T1), every solution can be re-indexed so that slot j contains the safe
   sequence handed to it (T2, from C01 walkcore_sound, C04 nonScc_once, C06 T3/T5/T6), hence the rows / bound changes /
   simplified product rows / appended subset constraints of `_apply_safety_optimizations` change nothing (T3, T4).
 * the six safety flags of the DAG (path) models — on this tree `create_solver_and_paths` never calls
   `_apply_safety_optimizations`, so the flags reach the LP in one way only: under
   optimize_with_safety_as_subpath_constraints the safe lists assembled by __init__ join the subpath constraints. Proven
   for every subset of the flags: without that flag the LP of kFlowDecomp / kPathCover / kLeastAbsErrors / kMinPathError is
   term by term the option-free LP; with it, kPathCover (feasibility and minimum) and kFlowDecomp without given weights
   (feasibility) are unchanged, because every appended list lies in one path of every solution (C06 T1/T2, C10
   constraint_honoured; "every trusted edge is used" is derived from the cover rows / the flow rows; kFlowDecomp's flow-safe
   paths, computed only when nothing is ignored: C02 kfd_exact + C06 excess_flow_safe) and C10 constraint_complete re-chooses
   the r columns.
Tie: K2 LP-dump equality of the Lean generators `kcovercLPS` / `kfdcLPS` with the REAL constructors built with random
subsets of the safety flags ON (adapters kcoverc_safety, kfdc_safety; SCC numbering, antichain and the iteration order
of the trusted set are captured from the real run; the contracts of the first two — the only hypotheses the `…_full`
pipeline theorems make about them — are re-checked by direct search), the same for the DAG generators `kfdLPS` /
`kcoverLPS` / `klaeLPS` / `kmpeLPS` (adapters kfd_safety, kcover_safety, klae_safety, kmpe_safety: random subsets of ALL
six DAG flags, so the tie breaks if the unreachable fixing routine is ever wired in), plus the option-free encoders.
Oracle: metamorphic end-to-end runs (K5): the same input under sampled subsets of every documented option flag of every
class must give the same solved status and the same objective as the all-off baseline.
"""
import json, random, itertools, time
from fpv import models, k2, gen, inject, common
from fpv.common import frac

THEOREMS = ["FP.Props.C05.opt_preserved", "FP.Props.C05.sat_append", "FP.Props.C05.lowerBound_row_equiv",
            "FP.Props.C05.fix_row_equiv", "FP.Props.C05.shortcut_preserves_search",
            # T1
            "FP.Props.C05.layer_perm_invariant", "FP.Props.C05.layer_perm_invariant_kcoverc",
            "FP.Props.C05.layer_perm_invariant_kfdc",
            # T2
            "FP.Props.C05.safety_rows_satisfiable_after_perm", "FP.Props.C05.zero_fix_keys_sound",
            # T3
            "FP.Props.C05.safety_options_preserve_optimum", "FP.Props.C05.bounds_variant_equiv",
            "FP.Props.C05.sat_walkCoreS",
            # T4
            "FP.Props.C05.subset_variants_extend", "FP.Props.C05.subset_variants_drop",
            # the two classes, every subset of the flags; with the computed fragment
            "FP.Props.C05.kcoverc_safety_options_preserve_optimum",
            "FP.Props.C05.kcoverc_safety_pipeline_preserves_optimum",
            "FP.Props.C05.kfdc_safety_options_preserve_feasibility",
            "FP.Props.C05.kfdc_safety_pipeline_preserves_feasibility",
            "FP.Props.C05.pipeline_data_sound",
            # the same under the contracts of the two oracle parameters only (C06 incompatible_sound)
            "FP.Props.C05.kcoverc_safety_pipeline_preserves_optimum_full",
            "FP.Props.C05.kfdc_safety_pipeline_preserves_feasibility_full",
            "FP.Props.C05.pipeline_data_sound_full",
            # non-vacuity (README graph)
            "FP.Props.C05.readme_maxSafeSeqs", "FP.Props.C05.readme_data",
            # DAG (path) models: the six safety flags, every subset
            "FP.Props.C05.dag_safety_flags_lp_identical", "FP.Props.C05.dag_safety_fragment_shape",
            "FP.Props.C05.dag_safety_lp_is_extended_input",
            "FP.Props.C05.dag_safe_lists_in_layers",
            "FP.Props.C05.dag_append_constraints", "FP.Props.C05.dag_drop_constraints",
            "FP.Props.C05.dag_safety_options_preserve_optimum",
            "FP.Props.C05.layer_perm_invariant_dag", "FP.Props.C05.layer_perm_invariant_kcover",
            "FP.Props.C05.layer_perm_invariant_kfd",
            "FP.Props.C05.kcover_uses_trusted", "FP.Props.C05.kfd_uses_trusted",
            "FP.Props.C05.kcover_safety_options_preserve_optimum",
            "FP.Props.C05.kfd_safety_options_preserve_feasibility",
            "FP.Props.C05.kfd_flow_safe_paths_in_layers",
            # non-vacuity (diamond of C03, DAG of C09)
            "FP.Props.C05.diamond_safeLists", "FP.Props.C05.diamond_pipeline", "FP.Props.C05.diamond_domain",
            "FP.Props.C05.inp2_domain", "FP.Props.C05.inp2_safeLists",
            "FP.Props.C05.diamond_externalOK", "FP.Props.C05.diamond_safeLists_fs"]
IMPORTS = ["FP.Props.C05"]
K2_ADAPTERS = ["kfd", "kcover", "kfdc"]
K2_SAFETY_ADAPTERS = ["kcoverc_safety", "kfdc_safety"]
K2_DAG_SAFETY_ADAPTERS = ["kfd_safety", "kcover_safety", "klae_safety", "kmpe_safety"]
RULE = ("for every class that accepts optimization_options: random inputs; the all-flags-off run is the reference; quick tier "
        "samples single flags plus random subsets, thorough tier more inputs and the full cross product on small inputs. A case "
        "= (class, input, flag set); non-trivial iff the flag set is non-empty and the model is constructible with it.")
MODEL_SCOPE = ("PROVEN (Lean, full): abstract optimum preservation under added constraints, LP append semantics, equivalence of "
               "fixing through bounds and through rows, search shortcuts (greedy / given weights accepted only at the k under "
               "test). For the cyclic models' six safety flags (optimize_with_safe_sequences, ..._allow_geq_constraints, "
               "..._fix_via_bounds, ..._fix_zero_edges, optimize_with_safety_as_subset_constraints, "
               "optimize_with_max_safe_antichain_as_subset_constraints), every subset: kPathCoverCycles — the LP with the options "
               "(model kcovercLPS = the real LP by K2) is feasible iff the LP without them is and both have the same minimum; "
               "kFlowDecompCycles without given_weights — feasibility equivalence including the simplified product rows for "
               "edges_set_to_zero/one; a generic version for any layer-symmetric model/objective on _encode_walks (applies to "
               "the error models' row variants). Hypotheses of these theorems: well-formed input graph, subset constraints made "
               "of graph edges with coverage <= 1, distinct product-block names (kfdc), w_max > 0 when some edge carries flow "
               "(kfdc), and for the fragment computed by the code (`…_pipeline_…_full`, `pipeline_data_sound_full`) only the "
               "contracts of the two captured oracle parameters: `mapping` numbers the strongly connected components and the "
               "captured antichain is pairwise unreachable in the expanded condensation (C06 `incompatible_sound`; C17 "
               "`antichain_sound` proves the second for the extraction; both re-checked by direct search in every real "
               "construction, histogram label t6_contracts). The older `…_pipeline` forms under AntichainHyp / "
               "NoSharedParallel are kept; NoSharedParallel is not a property of the maximal safe sequences. For the DAG (path) models' six safety "
               "flags (optimize_with_safe_paths, optimize_with_safe_sequences, optimize_with_subpath_constraints_as_safe_sequences, "
               "optimize_with_safe_zero_edges, optimize_with_safety_as_subpath_constraints, "
               "optimize_with_safety_from_largest_antichain), every subset (model FP/Model/PathSafetyRows.lean = the real LPs by "
               "K2 with random subsets of all six flags ON): (a) without optimize_with_safety_as_subpath_constraints the LP of "
               "kFlowDecomp / kPathCover / kLeastAbsErrors / kMinPathError is term by term the LP built without options "
               "(dag_safety_flags_lp_identical), with it the option-free LP of the input with the safe lists appended to the "
               "subpath constraints; (b) kPathCover: feasibility and minimum unchanged, kFlowDecomp without given weights: "
               "feasibility unchanged (kcover_/kfd_safety_options_…), derived from C06 T1 (safe_paths_univocal), C06 T2 "
               "(bridge_sound_graph, no assumption on the order in which a constraint lists its edges), C10 constraint_honoured / "
               "constraint_complete, with 'every trusted edge is used by some path of every solution' derived from the cover rows "
               "resp. the flow rows; generic form for any DAG model whose class-specific part does not mention the r columns. "
               "Hypotheses: well-formed acyclic user graph; ConstraintDomain = subpath constraints made of graph edges, coverage "
               "fraction <= 1 (the constructor validates it only when the user passes constraints, the appended lists use it "
               "too), edge lengths >= 0 and > 0 on the user's constraints when they are covered completely by length (a "
               "zero-length edge is not forced, the sequence computed from the constraint would not be safe); the appended lists "
               "share the user's coverage fraction, which only weakens them. kFlowDecomp's flow-safe paths "
               "(external_safe_paths, class default) are covered too: since fix 3d0fcdd they are computed only when nothing is "
               "ignored (model kfdExternalOK, which the driver op lp.kfd.safety re-checks on every real construction: no ignored "
               "edge, every captured list is reported by the modelled scan flowSafePaths on the captured greedy decomposition), "
               "and then they lie in some path of every solution (kfd_flow_safe_paths_in_layers: C02 kfd_exact turns a solution "
               "into a flow decomposition of the whole flow, C06 excess_flow_safe does the rest); with ignored edges that is false "
               "— the defect repaired by 3d0fcdd, kept as corpus case corpus/C05/flow_safe_ignored_edges.json and exercised by the "
               "suite K5.flow_safe_paths_with_ignored_edges (edge and node origin). Further hypotheses of the kFlowDecomp theorem: "
               "no additional ends (the class has none), flow attributes on graph edges. "
               "OBSERVATION (performance, outside the 20 properties): on "
               "this tree the x=1 / zero-edge fixes of the DAG models are unreachable — create_solver_and_paths calls "
               "_apply_safety_optimizations_fix_zero_edges, which returns at its hasattr(self, 'paths_to_fix') guard, and never "
               "_apply_safety_optimizations (which, called by hand, raises TypeError: stDAG.nodes_reaching is a dict property and "
               "stDAG has no nodes_reachable); edges_set_to_zero/one stay empty, the simplified product rows of kFlowDecomp / "
               "kLeastAbsErrors / kMinPathError are never emitted, optimize_with_safe_zero_edges and "
               "optimize_with_safety_from_largest_antichain have no effect (histogram labels paths_to_fix:absent, fix_rows=0, "
               "antichain_calls=0 of the K2 suites; a wired-in routine would break the K2 tie). ORACLE-ONLY (metamorphic runs): "
               "the DAG models with given weights, the error models' feasibility/optimum under appended safe lists (their trusted "
               "set is a user parameter), flow-safe paths, greedy, "
               "min-generating-set and subgraph-scanning lower bounds, guessed weights, kFlowDecompCycles with given_weights "
               "(rows weights_i = w_i are not layer-symmetric; only used as a heuristic upper bound by MinFlowDecompCycles), "
               "kLeastAbsErrorsCycles / kMinPathErrorCycles instances, node-weighted modes.")
TRUSTED = ["HiGHS proves optimality/infeasibility correctly on the small instances used by the metamorphic oracle"]
ASSUMPTIONS = ["documented option conflicts raise ValueError and are skipped"]

DAG_FLAGS = ["optimize_with_safe_paths", "optimize_with_safe_sequences", "optimize_with_safe_zero_edges",
             "optimize_with_subpath_constraints_as_safe_sequences", "optimize_with_safety_as_subpath_constraints",
             "optimize_with_safety_from_largest_antichain"]
KFD_FLAGS = ["optimize_with_greedy", "optimize_with_flow_safe_paths"]
MFD_FLAGS = ["use_min_gen_set_lowerbound", "optimize_with_guessed_weights",
             "use_min_gen_set_lowerbound_partition_constraints", "use_subgraph_scanning_lowerbound"]
CYC_FLAGS = ["optimize_with_safe_sequences", "optimize_with_safe_sequences_allow_geq_constraints",
             "optimize_with_safe_sequences_fix_via_bounds", "optimize_with_safe_sequences_fix_zero_edges",
             "optimize_with_safety_as_subset_constraints", "optimize_with_max_safe_antichain_as_subset_constraints"]
MFDC_FLAGS = ["use_min_gen_set_lowerbound", "optimize_with_guessed_weights"]


def flags_of(cls):
    if models.is_cyc(cls):
        return CYC_FLAGS + (MFDC_FLAGS if cls == "MinFlowDecompCycles" else [])
    fl = list(DAG_FLAGS)
    if cls in ("kFlowDecomp", "MinFlowDecomp"):
        fl += KFD_FLAGS
    if cls == "MinFlowDecomp":
        fl += MFD_FLAGS
    return fl


def outcome(fp, inst, opts):
    """(status, objective) where status in solved/unsolved/rejected/<exception>"""
    inst2 = dict(inst, options=dict(opts))
    try:
        m = models.build(fp, inst2)
    except ValueError as e:
        return ("rejected", str(e)[:80])
    except common.Infra:
        raise
    except Exception as e:              # a crash of the constructor is an outcome too (and differs from any other)
        return (f"constructor raised {type(e).__name__}", str(e)[:80])
    log = inject.instrument_statuses(fp)
    del log[:]
    try:
        ok = bool(m.solve())
    except SystemExit:
        return ("exit() called", None)
    except ValueError as e:             # Min* wrappers construct their k-models (and meet option conflicts) in solve()
        return ("rejected", str(e)[:80])
    except common.Infra:
        raise
    except Exception as e:
        return (f"solve() raised {type(e).__name__}", str(e)[:80])
    if not ok:
        # a run that ended on a time limit / solver error is no verdict: nothing to compare (C13 covers what is reported)
        bad = [st for st in log if st not in ("kOptimal", "kInfeasible")]
        if bad:
            return ("inconclusive", bad[0])
        return ("unsolved", None)
    try:
        obj = m.get_objective_value()
    except Exception as e:
        return ("solved", f"<objective raised {type(e).__name__}>")
    return ("solved", obj)


def same(a, b):
    if a[0] != b[0]:
        return False
    if a[0] != "solved":
        return True
    try:
        return abs(float(a[1]) - float(b[1])) <= 1e-6 * max(1.0, abs(float(a[1])))
    except Exception:
        return a[1] == b[1]


def metamorphic(ctx, inst, flagsets, suite="K5.metamorphic"):
    fp = ctx.fp
    cls = inst["cls"]
    allf = flags_of(cls)
    base_opts = {f: False for f in allf}
    t0 = time.time()
    ref = outcome(fp, inst, base_opts)
    t_ref = time.time() - t0
    ctx.rep.count(suite, [inst, "baseline"], nontrivial=False, hist=[cls, "baseline:" + ref[0]])
    if ref[0] == "inconclusive":
        return ref                      # the solver gave no verdict on the baseline: nothing to compare with
    if t_ref > (8 if ctx.quick() else 40):
        flagsets = list(flagsets)[:3]   # a hard instance: a few flag sets only, the run stays within its budget
    for fs in flagsets:
        opts = dict(base_opts, **{f: True for f in fs})
        got = outcome(fp, inst, opts)
        ctx.rep.cov["oracle_evaluations"] += 1
        ctx.rep.count(suite, [inst, sorted(fs)], nontrivial=bool(fs) and got[0] not in ("rejected", "inconclusive"),
                      hist=[cls, got[0]] + [f"flag:{f}" for f in fs])
        if got[0] in ("rejected", "inconclusive"):
            continue
        if not same(ref, got):
            ctx.violation(f"{cls}: with options {sorted(fs)} the outcome is {got}, with all options off it is {ref}",
                          dict(inst, flags=sorted(fs), baseline=list(ref), outcome=list(got)),
                          site=f"{cls}:" + "+".join(sorted(fs)))
    # defaults (no options given at all) must agree as well
    got = outcome(fp, inst, {})
    ctx.rep.cov["oracle_evaluations"] += 1
    ctx.rep.count(suite, [inst, "defaults"], nontrivial=True, hist=[cls, "defaults", got[0]])
    if got[0] not in ("rejected", "inconclusive") and not same(ref, got):
        ctx.violation(f"{cls}: with default options the outcome is {got}, with all options off it is {ref}",
                      dict(inst, flags=["<defaults>"], baseline=list(ref), outcome=list(got)), site=f"{cls}:defaults")
    return ref


def sample_flagsets(rng, allf, n_random, full=False):
    if full:
        return [list(c) for r in range(1, len(allf) + 1) for c in itertools.combinations(allf, r)]
    sets = [[f] for f in allf]
    # structured combinations: the class defaults plus one non-default flag at a time
    if "optimize_with_safe_sequences_fix_via_bounds" in allf:
        dflt = ["optimize_with_safe_sequences", "optimize_with_safe_sequences_allow_geq_constraints",
                "optimize_with_safe_sequences_fix_zero_edges"]
        sets += [dflt, dflt + ["optimize_with_safe_sequences_fix_via_bounds"],
                 dflt[:2] + ["optimize_with_safe_sequences_fix_via_bounds"]]
    else:
        dflt = [f for f in ("optimize_with_safe_paths", "optimize_with_safe_zero_edges",
                            "optimize_with_subpath_constraints_as_safe_sequences", "optimize_with_greedy",
                            "optimize_with_flow_safe_paths") if f in allf]
        sets += [dflt, [f for f in dflt if f != "optimize_with_greedy"]]
    for _ in range(n_random):
        sets.append(rng.sample(allf, rng.randint(2, min(4, len(allf)))))
    return sets


def loop_twice_instance(rng, cls):
    """cyclic input whose only decomposition is one walk running twice through an SCC edge (s a b c a b t): the safe
    sequence carries multiplicity 2 on (a,b), so lower bounds queued through variable bounds differ between edges;
    node/edge insertion orders are shuffled so that column order and queue order disagree"""
    w = rng.choice([1, 2, 3])
    edges = [("s", "a"), ("a", "b"), ("b", "c"), ("c", "a"), ("b", "t")]
    fl = {("s", "a"): w, ("a", "b"): 2 * w, ("b", "c"): w, ("c", "a"): w, ("b", "t"): w}
    if rng.random() < 0.5:       # a second, disjoint route
        edges += [("s", "d"), ("d", "t")]; fl[("s", "d")] = fl[("d", "t")] = rng.choice([1, 2])
    nodes = sorted({x for e in edges for x in e}); rng.shuffle(nodes); rng.shuffle(edges)
    inst = {"cls": cls, "nodes": nodes, "edges": [list(e) for e in edges], "origin": "edge", "weight_type": "int",
            "constraints": [], "coverage": "1", "ignore": [], "starts": [], "ends": [], "options": {},
            "flow": [[u, v, str(fl[(u, v)])] for (u, v) in edges]}
    if cls in models.HAS_K:
        inst["k"] = 1 + (1 if ("s", "d") in fl else 0)
    if cls in models.COVER:
        inst.pop("flow")
    return inst


def unreachable_cycle_instance(rng, cls):
    """a valid cyclic input plus a cycle that nothing enters (its nodes are not reachable from any source), leading into
    the graph, all of it with flow 0: no walk can use those edges, nothing has to be explained on them"""
    inst = loop_twice_instance(rng, cls) if rng.random() < 0.5 else pendant_cycle_instance(rng, cls)
    at = rng.choice([v for v in inst["nodes"] if any(e[0] == v for e in inst["edges"]) and any(e[1] == v for e in inst["edges"])])
    extra = [["x9", "y9"], ["y9", "x9"], [rng.choice(["x9", "y9"]), at]]
    if rng.random() < 0.3:
        extra.append(["x9", "x9"])
    inst["nodes"] = inst["nodes"] + ["x9", "y9"]; rng.shuffle(inst["nodes"])
    inst["edges"] = inst["edges"] + extra; rng.shuffle(inst["edges"])
    if "flow" in inst:
        inst["flow"] = inst["flow"] + [[u, v, "0"] for u, v in extra]
        if rng.random() < 0.3:
            inst["ignore"] = [list(e) for e in extra]
    return inst


def pendant_cycle_instance(rng, cls):
    """a cycle hanging at a node v of the main route (the walk enters and leaves the SCC at the same node), followed by a
    fork: the safe sequence holds the entry and exit edges of v next to each other with no SCC edge between them"""
    w = rng.choice([1, 2, 3]); m = rng.choice([1, 2])
    L = rng.choice([1, 2, 3])
    cyc = ["v"] + [f"x{i}" for i in range(1, L)] + ["v"]
    fl = {("s", "v"): 2 * w, ("v", "t"): 2 * w, ("t", "p"): w, ("t", "q"): w}
    for e in zip(cyc[:-1], cyc[1:]):
        fl[e] = m * w                      # one of the two walks goes round m times
    edges = list(fl)
    nodes = sorted({x for e in edges for x in e}); rng.shuffle(nodes); rng.shuffle(edges)
    inst = {"cls": cls, "nodes": nodes, "edges": [list(e) for e in edges], "origin": "edge", "weight_type": "int",
            "constraints": [], "coverage": "1", "ignore": [], "starts": [], "ends": [], "options": {},
            "flow": [[u, v, str(fl[(u, v)])] for (u, v) in edges]}
    if cls in models.HAS_K:
        inst["k"] = 2
    if cls in models.COVER:
        inst.pop("flow")
    return inst


def crossing_instance(rng, cls):
    """two flows crossing at a node: greedy pairs the heavy in-edge with the heavy out-edge, a constraint asks for the
    heavy in-edge followed by the light out-edge with a fractional coverage threshold (2 edges at 3/4 -> 1.5)"""
    x = rng.choice([5, 6, 8]); y = rng.choice([2, 3])
    edges = [("a", "v"), ("b", "v"), ("v", "c"), ("v", "d")]
    fl = {("a", "v"): x, ("b", "v"): y, ("v", "c"): x, ("v", "d"): y}
    if rng.random() < 0.5:
        edges = [("s", "a"), ("s", "b")] + edges + [("c", "t"), ("d", "t")]
        fl.update({("s", "a"): x, ("s", "b"): y, ("c", "t"): x, ("d", "t"): y})
    nodes = sorted({n for e in edges for n in e}); rng.shuffle(nodes); rng.shuffle(edges)
    inst = {"cls": cls, "nodes": nodes, "edges": [list(e) for e in edges], "origin": "edge", "weight_type": "int",
            "constraints": [[["a", "v"], ["v", "d"]]], "coverage": rng.choice(["3/4", "2/3", "3/5"]), "ignore": [],
            "starts": [], "ends": [], "options": {}, "flow": [[u, v, str(fl[(u, v)])] for (u, v) in edges]}
    if cls in models.HAS_K:
        inst["k"] = rng.choice([2, 3])
    return inst


def rounding_instance(rng, cls):
    """DAG flow decomposition with subpath constraints whose length*coverage is not an integer (2 edges at 3/4, 3 edges
    at 1/2, ...): the greedy shortcut and the MILP must apply the same threshold"""
    inst = models.instance(rng, cls, features=False)
    nodes, edges = inst["nodes"], [tuple(e) for e in inst["edges"]]
    cons = []
    for _ in range(rng.randint(1, 2)):
        p = gen.random_path(rng, nodes, edges)
        es = list(zip(p[:-1], p[1:]))
        if len(es) >= 2:
            i = rng.randrange(len(es) - 1)
            cons.append([list(e) for e in es[i:i + rng.choice([2, 3])]])
    if cons:
        inst["constraints"] = cons
        inst["coverage"] = rng.choice(["3/4", "1/2", "3/5", "2/3"])
    return inst


def scanning_instance(rng):
    """a long DAG (more nodes than the scanning window of MinFlowDecomp.subgraph_lowerbound_size = 20 nodes in
    topological order): a chain of single edges and bubbles carrying planted paths. Most bubbles split the paths the same
    way (so the optimum is the number of groups); a bubble whose edges cross the window boundary — found in the
    topological order networkx really yields for the graph — splits them differently and is ignored (wholly or in part),
    i.e. ignoring really lowers the optimum and the ignored edges cross the boundary."""
    import networkx as nx
    npaths = rng.randint(3, 4)
    wts = rng.sample(range(1, 12), npaths)

    def split(other=None):
        while True:
            side = [rng.randrange(2) for _ in range(npaths)]
            if len(set(side)) == 2 and (other is None or (side != other and side != [1 - x for x in other])):
                return side
    side0 = split()
    target = rng.randint(23, 30)
    segs = []                       # (cur, nxt, mids or None)
    cur, n, i = "c00", 1, 0
    while n < target:
        i += 1
        nxt = f"c{i:02d}"
        if rng.random() < 0.3 or 14 <= n <= 21:
            segs.append((cur, nxt, [f"m{i:02d}a", f"m{i:02d}b"])); n += 3
        else:
            segs.append((cur, nxt, None)); n += 1
        cur = nxt
    edges = []
    for (u, v, mids) in segs:
        edges += [(u, v)] if mids is None else [(u, mids[0]), (mids[0], v), (u, mids[1]), (mids[1], v)]
    rng.shuffle(edges)
    nodes = sorted({x for e in edges for x in e}); rng.shuffle(nodes)
    G = nx.DiGraph(); G.add_nodes_from(nodes); G.add_edges_from(edges)
    pos = {v: j for j, v in enumerate(nx.topological_sort(G))}
    W = 20
    fl, ignore = {}, []
    for (u, v, mids) in segs:
        if mids is None:
            fl[(u, v)] = sum(wts); continue
        es = [(u, mids[0]), (mids[0], v), (u, mids[1]), (mids[1], v)]
        crossing = [e for e in es if (pos[e[0]] < W) != (pos[e[1]] < W)]
        odd = bool(crossing) or rng.random() < 0.2
        side = split(side0) if odd else side0
        for b, m in enumerate(mids):
            f = sum(w for w, sd in zip(wts, side) if sd == b)
            fl[(u, m)] = f; fl[(m, v)] = f
        if crossing:
            r = rng.random()
            ignore += es if r < 0.5 else crossing if r < 0.8 else es[1::2] if r < 0.9 else es[0::2]
        elif odd and rng.random() < 0.85:
            ignore += es
    for e in fl:
        if e not in ignore and rng.random() < 0.03:
            ignore.append(e)
    return {"cls": "MinFlowDecomp", "nodes": nodes, "edges": [list(e) for e in edges], "origin": "edge",
            "weight_type": "int", "constraints": [], "coverage": "1", "ignore": [list(e) for e in ignore],
            "starts": [], "ends": [], "options": {}, "flow": [[u, v, str(fl[(u, v)])] for (u, v) in edges],
            "planted_routes": npaths}


SCANNING_FLAGSETS = [["use_subgraph_scanning_lowerbound"],
                     ["use_subgraph_scanning_lowerbound", "use_min_gen_set_lowerbound", "optimize_with_greedy"]]


def scanning_cases(ctx, suite="K5.subgraph_scanning_lowerbound"):
    """MinFlowDecomp's subgraph-scanning lower bound only does something on graphs with more than 21 nodes"""
    for it in range(ctx.n(10, 60)):
        metamorphic(ctx, scanning_instance(ctx.rng), SCANNING_FLAGSETS, suite=suite)


PARTIAL_FLAGSETS = [["optimize_with_subpath_constraints_as_safe_sequences", "optimize_with_safety_as_subpath_constraints"],
                    ["optimize_with_subpath_constraints_as_safe_sequences", "optimize_with_safety_as_subpath_constraints",
                     "optimize_with_safe_paths"],
                    ["optimize_with_subpath_constraints_as_safe_sequences"]]
STARTS_FLAGSETS = [["optimize_with_safe_paths", "optimize_with_safety_as_subpath_constraints"],
                   ["optimize_with_safe_sequences", "optimize_with_safety_as_subpath_constraints"],
                   ["optimize_with_safe_paths", "optimize_with_safe_zero_edges", "optimize_with_safety_as_subpath_constraints"]]


def crossing_long_middle_instance(rng, cls):
    """a constraint a->b->c->d whose long middle edge alone reaches the length fraction, with a side entrance and a side
    exit at both inner nodes, and three routes of different weights that cross there (s0-a-b-z, x-b-c-y, w-c-d-t0): the
    route over the middle edge need not contain the ends of the constraint"""
    w1, w2, w3 = rng.sample(range(2, 10), 3)
    Lm = rng.choice([8, 10, 12]); La, Lc = rng.choice([1, 2, 4]), rng.choice([1, 2, 4])
    E = [("s0", "a", w1, 3), ("a", "b", w1, La), ("b", "z", w1, 1), ("x", "b", w2, 1), ("b", "c", w2, Lm), ("c", "y", w2, 1),
         ("w", "c", w3, 1), ("c", "d", w3, Lc), ("d", "t0", w3, 3)]
    rng.shuffle(E)
    nodes = sorted({x for e in E for x in e[:2]}); rng.shuffle(nodes)
    inst = {"cls": cls, "nodes": nodes, "edges": [[u, v] for u, v, _, _ in E], "origin": "edge", "weight_type": "int",
            "constraints": [[["a", "b"], ["b", "c"], ["c", "d"]]], "coverage": "1", "coverage_length": "1/2",
            "lengths": [[u, v, str(l)] for u, v, _, l in E], "ignore": [], "starts": [], "ends": [], "options": {},
            "flow": [[u, v, str(f)] for u, v, f, _ in E]}
    if cls in models.HAS_K:
        inst["k"] = 3
    if cls in models.COVER:
        inst.pop("flow")
    return inst


def fan_start_instance(rng, cls):
    """p -> v -> c_1..c_m with v an additional start: one light route comes from p, every child also gets a heavier route
    that starts at v; k is tight (1 + m), so nothing may force a second route through (p, v)"""
    m = rng.randint(2, 3)
    w0 = rng.randint(1, 2)
    ws = [rng.randint(3, 9) for _ in range(m)]
    fl = {("p", "v"): w0}
    for i in range(m):
        fl[("v", f"c{i}")] = ws[i] + (w0 if i == 0 else 0)
    if rng.random() < 0.5:                       # ... and the children lead on
        for i in range(m):
            fl[(f"c{i}", f"d{i}")] = fl[("v", f"c{i}")]
    edges = list(fl); rng.shuffle(edges)
    nodes = sorted({x for e in edges for x in e}); rng.shuffle(nodes)
    inst = {"cls": cls, "nodes": nodes, "edges": [list(e) for e in edges], "origin": "edge", "weight_type": "int",
            "constraints": [], "coverage": "1", "ignore": [], "starts": ["v"], "ends": [], "options": {},
            "flow": [[u, v, str(fl[(u, v)])] for (u, v) in edges]}
    if cls in models.HAS_K:
        inst["k"] = 1 + m
    if cls in models.COVER:
        inst.pop("flow")
    return inst


def partial_length_cases(ctx, n, suite="K5.partial_length_coverage", rng=None):
    """DAG classes with subpath constraints that only have to be covered to a fraction of their LENGTH: the safety lists
    derived from the constraints, imposed as constraints themselves, must not change anything"""
    rng = rng or ctx.rng
    for it in range(n):
        cls = rng.choice(["kFlowDecomp", "MinFlowDecomp", "kMinPathError", "kLeastAbsErrors", "kPathCover", "MinPathCover"])
        if it % 2 == 0:
            inst = crossing_long_middle_instance(rng, cls)
        else:
            inst = rounding_instance(rng, cls)
            if not inst.get("constraints"):
                continue
            inst["starts"], inst["ends"], inst["ignore"] = [], [], []
            inst["coverage"] = "1"
            inst["coverage_length"] = rng.choice(["1/2", "3/5", "3/4"])
            inst["lengths"] = [[u, v, str(rng.choice([1, 1, 2, 4]))] for u, v in inst["edges"]]
        metamorphic(ctx, inst, PARTIAL_FLAGSETS, suite=suite)


def starts_with_safety_cases(ctx, n, suite="K5.additional_starts_with_safety", rng=None):
    """classes that accept additional start / end nodes, safe paths / sequences imposed as constraints"""
    rng = rng or ctx.rng
    for it in range(n):
        cls = rng.choice(["kMinPathError", "kLeastAbsErrors", "kPathCover", "MinPathCover"])
        if it % 2 == 0:
            inst = fan_start_instance(rng, cls)
        else:
            inst = models.instance(rng, cls, features=False)
            inner = [v for v in inst["nodes"] if any(e[1] == v for e in inst["edges"]) and any(e[0] == v for e in inst["edges"])]
            if not inner:
                continue
            inst["starts"] = rng.sample(inner, min(len(inner), rng.randint(1, 2)))
            inst["ends"] = rng.sample(inner, rng.randint(0, 1))
            inst["ignore"] = []
        metamorphic(ctx, inst, STARTS_FLAGSETS, suite=suite)


def gen_inst(rng, cls):
    if models.is_cyc(cls) and cls not in models.COVER and rng.random() < 0.12:
        return unreachable_cycle_instance(rng, cls)
    if models.is_cyc(cls) and rng.random() < 0.5:
        return loop_twice_instance(rng, cls) if rng.random() < 0.6 else pendant_cycle_instance(rng, cls)
    if cls in ("kFlowDecomp", "MinFlowDecomp") and rng.random() < 0.4:
        inst = rounding_instance(rng, cls)
        inst["starts"], inst["ends"], inst["ignore"] = [], [], []
        return inst
    inst = models.instance(rng, cls, features=True)
    inst["starts"], inst["ends"] = [], []          # keep the input inside every class's documented domain
    if cls in ("MinFlowDecomp", "MinFlowDecompCycles", "kFlowDecomp", "kFlowDecompCycles"):
        inst["ignore"] = []
    return inst


def run(ctx):
    rng = ctx.rng
    corpus_cases(ctx)
    k2.run_k2(ctx, K2_ADAPTERS, ctx.n(20, 300))
    k2.run_k2(ctx, K2_SAFETY_ADAPTERS, ctx.n(100, 450))
    # the hypotheses of the `…_full` theorems about the captured SCC numbering / antichain are re-checked by direct
    # search in every real construction (enc/_safety.py: t6_contracts); a violation is a broken proof obligation
    for name in K2_SAFETY_ADAPTERS:
        h = ctx.rep.suite("K2." + name)["histogram"]
        if h.get("t6_contracts:VIOLATED"):
            ctx.disagree("K2." + name, {"t6_contracts": "VIOLATED", "count": h["t6_contracts:VIOLATED"]}, None, None,
                         note="the captured antichain is not pairwise unreachable in the expanded condensation")
    k2.run_k2(ctx, K2_DAG_SAFETY_ADAPTERS, ctx.n(100, 450))
    # the DAG model says: nothing is ever fixed (paths_to_fix absent, no fix rows, no antichain computed). Should the
    # unreachable routine get wired in, the LP dumps differ (disagreement above); the labels make the reason visible
    for name in K2_DAG_SAFETY_ADAPTERS:
        h = ctx.rep.suite("K2." + name)["histogram"]
        wired = {k: v for k, v in h.items() if k in ("fix_rows>0", "zero>0", "one>0", "antichain_calls>0")
                 or (k.startswith("paths_to_fix:") and k != "paths_to_fix:absent")}
        if wired:
            ctx.disagree("K2." + name, {"safety_fixes_reached": wired}, None, None,
                         note="_apply_safety_optimizations ran in a DAG model: FP/Model/PathSafetyRows.lean no longer mirrors the code")
    flow_safe_ignored_cases(ctx)
    scanning_cases(ctx)
    partial_length_cases(ctx, ctx.n(10, 80))
    starts_with_safety_cases(ctx, ctx.n(10, 80))
    for cls in ("kFlowDecompCycles", "MinFlowDecompCycles", "kLeastAbsErrorsCycles", "kMinPathErrorCycles"):
        for it in range(ctx.n(1, 6)):
            metamorphic(ctx, unreachable_cycle_instance(rng, cls), sample_flagsets(rng, flags_of(cls), 1),
                        suite="K5.unreachable_zero_flow_cycle")
    per = ctx.n(4, 16)
    first = True
    for cls in models.ALL_CLASSES:
        for it in range(per):
            inst = gen_inst(rng, cls)
            full = (not ctx.quick()) and it < 2 and len(inst["edges"]) <= 6
            fsets = sample_flagsets(rng, flags_of(cls), ctx.n(3, 10), full=full)
            ref = metamorphic(ctx, inst, fsets)
            if first:
                ctx.rep.sample({"class": cls, "instance": inst, "flag_sets": fsets[:6], "baseline": list(ref)})
                first = False
    rounding_cases(ctx)


def rounding_cases(ctx, suite="K5.greedy_vs_milp_thresholds"):
    """the greedy shortcut and the MILP must agree on fractional coverage thresholds"""
    rng = ctx.rng
    for cls in ("kFlowDecomp", "MinFlowDecomp"):
        for it in range(ctx.n(12, 80)):
            inst = crossing_instance(rng, cls) if it % 3 == 0 else rounding_instance(rng, cls)
            inst["starts"], inst["ends"], inst["ignore"] = [], [], []
            if inst.get("constraints"):
                metamorphic(ctx, inst, [["optimize_with_greedy"]], suite=suite)


def defaults_plus(ctx, inst, ref, plus, suite):
    """the class defaults (flow-safe paths, safe paths, ... as the classes ship them) plus the flags `plus` against the
    all-off outcome `ref`"""
    if ref[0] == "inconclusive":
        return
    got = outcome(ctx.fp, inst, {f: True for f in plus})
    ctx.rep.cov["oracle_evaluations"] += 1
    ctx.rep.count(suite, [inst, "defaults+" + "+".join(sorted(plus))], nontrivial=got[0] not in ("rejected", "inconclusive"),
                  hist=[inst["cls"], "defaults+", got[0]] + [f"flag:{f}" for f in plus])
    if got[0] not in ("rejected", "inconclusive") and not same(ref, got):
        ctx.violation(f"{inst['cls']}: with default options plus {sorted(plus)} the outcome is {got}, with all options off it is {ref}",
                      dict(inst, flags=["<defaults>"] + sorted(plus), baseline=list(ref), outcome=list(got)),
                      site=f"{inst['cls']}:defaults+" + "+".join(sorted(plus)))


def corpus_cases(ctx, suite="corpus"):
    """stored inputs that once exposed something (corpus/C05/*.json), replayed first"""
    from fpv import common
    for pth in sorted((common.CORPUS / "C05").glob("*.json")):
        c = json.load(open(pth))
        ref = metamorphic(ctx, c["instance"], c.get("flag_sets", []), suite=suite)
        if c.get("also_defaults_plus"):
            defaults_plus(ctx, c["instance"], ref, c["also_defaults_plus"], suite)


FS_IGNORED_FLAGSETS = [["optimize_with_flow_safe_paths", "optimize_with_safety_as_subpath_constraints"],
                       ["optimize_with_flow_safe_paths", "optimize_with_safety_as_subpath_constraints",
                        "optimize_with_subpath_constraints_as_safe_sequences"],
                       ["optimize_with_safe_paths", "optimize_with_safety_as_subpath_constraints"],
                       ["optimize_with_safe_sequences", "optimize_with_safety_as_subpath_constraints",
                        "optimize_with_subpath_constraints_as_safe_sequences"]]


def flow_safe_ignored_cases(ctx, suite="K5.flow_safe_paths_with_ignored_edges"):
    """flow-decomposition classes WITH ignored elements that carry flow (edge and node origin): the safe lists —
    flow-safe paths (the class default; since fix 3d0fcdd only computed when nothing is ignored), safe paths, safe
    sequences — appended as subpath constraints versus all options off. This is the hypothesis `kfdExternalOK` of
    kfd_safety_options_preserve_feasibility on the real code."""
    rng = ctx.rng
    for cls in ("kFlowDecomp", "MinFlowDecomp"):
        for it in range(ctx.n(8, 48)):
            node = it % 3 == 2
            if node:
                inst = models.node_instance(rng, cls)
                cand = list(inst["nodes"])
            else:
                inst = models.instance(rng, cls, features=False)
                cand = [list(e) for e in inst["edges"]]
            ign = [x for x in cand if rng.random() < 0.4]
            if len(ign) == len(cand):
                ign = ign[1:]
            if not ign:
                ign = [rng.choice(cand)] if len(cand) > 1 else []
            inst["ignore"] = ign
            inst["starts"], inst["ends"] = [], []
            if cls == "kFlowDecomp":
                inst["k"] = rng.randint(1, max(1, inst.get("planted_routes", inst.get("k", 2))))
            ref = metamorphic(ctx, inst, FS_IGNORED_FLAGSETS, suite=suite)
            defaults_plus(ctx, inst, ref, ["optimize_with_safety_as_subpath_constraints"], suite)


def finding_case(ctx, inp):
    flags = inp.get("flags", [])
    inst = {k: v for k, v in inp.items() if k not in ("flags", "baseline", "outcome")}
    metamorphic(ctx, inst, [[f for f in flags if not f.startswith("<")]] if flags else [], suite="known-findings")


def search(ctx):
    rng = random.Random(5150)
    partial_length_cases(ctx, 40, suite="search.partial_length_coverage", rng=rng)
    starts_with_safety_cases(ctx, 40, suite="search.additional_starts_with_safety", rng=rng)
    for cls in models.ALL_CLASSES:
        for it in range(6):
            inst = gen_inst(rng, cls)
            metamorphic(ctx, inst, sample_flagsets(rng, flags_of(cls), 6), suite="search.metamorphic")


def replay(ctx, payload):
    inp = payload.get("input") or {}
    if "cls" in inp:
        finding_case(ctx, inp)
