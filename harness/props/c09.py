"""C09 — minimum path/walk covers cover everything with fewest routes; the width equals it.

Proof: FP/Props/C09.lean — the kPathCover LP is feasible exactly when k source-to-sink paths cover the edges that are
not ignored (and contain the subpath constraints), every solution decodes to such paths (T1, T2, kcover_feasible_iff);
monotone in k (T3); the stop-search with a faithful solver and a valid lower bound returns the minimum (T4,
mincover_search); an antichain is a lower bound, for digraphs with cycles too, and pairwise unreachability makes an
antichain (T5, antichain_of_unreachable); an integral feasible flow of cost c decomposes into c covering paths and,
together with an antichain of the same size, certifies the minimum (T6, width_certificate). Cyclic T1
(walkcover_sound, walkcover_hascover): every solution of the kPathCoverCycles LP decodes to k routes of the user's graph
(source-to-sink walks of the augmented graph once the stripped synthetic endpoints are put back) covering every edge that
is not ignored and, at coverage fraction 1, containing every subset constraint. Cyclic T2 (walkcover_complete): k >= 1
source-to-sink walks covering every edge that is not ignored and every subset constraint, each within the repetition caps
of the model (|E|*|V| of the augmented graph inside an SCC, 1 outside), extend to a satisfying assignment whose edge
variables are the traversal counts; the caps cut off nothing (walk_within_caps, walkcover_caps_suffice: every walk has a
companion through the same edges using no edge more than 2|E|+1 <= |E|*|V| times and no non-SCC edge twice), hence
walkcover_feasible_iff (LP feasible <=> a cover with k walks exists) and walkcover_search_minimal /
walkcover_search_finds_minimum (MinPathCoverCycles.solve with a faithful solver, started at an antichain's size, returns
the minimum over ALL walk covers). For digraphs with cycles an integral feasible
flow of the instance stDiGraph.get_width builds on the expanded condensation lifts to that many source-to-sink walks
covering every edge that is not ignored (condensation_flow_to_walkcover), so with an antichain of pairwise unreachable
edges of the same size the cost is the minimum walk cover (digraph_width_is_min_walk_cover); the two extra hypotheses
(edges join nodes, no isolated node) are each necessary (cwc_needs_*); edges_to_ignore may repeat entries (each distinct
edge counts once since fix afcb013; regression on the witness of that defect: cwc_duplicate_ignore_counts_once).
Tie: K2 LP dumps of kPathCover / kPathCoverCycles; K3 search traces of MinPathCover / MinPathCoverCycles (props.c13
machinery); K1 the demands get_width puts on the min-flow instance (DAG and expanded condensation) against the Lean
model; K5 brute-force minimum covers (written against the property text, no flows, no condensation) against
Min*.solve(), get_width(), k-models for k = min-1, min, min+1, plus the run-time certificate (feasible flow + antichain)
checked with plain BFS — the hypotheses of width_certificate / walkcover_condensation_lower_bound.
"""
import itertools, json, random, copy
import networkx as nx
from fpv import gen, models, k2
from fpv.common import frac
from props import c13

THEOREMS = ["FP.Props.C09.kcover_sound", "FP.Props.C09.kcover_complete", "FP.Props.C09.kcover_feasible_iff",
            "FP.Props.C09.cover_monotone", "FP.Props.C09.antichain_weak_duality",
            "FP.Props.C09.antichain_of_unreachable", "FP.Props.C09.cover_search_minimal",
            "FP.Props.C09.cover_search_finds_minimum", "FP.Props.C09.mincover_search",
            "FP.Props.C09.flow_to_cover", "FP.Props.C09.width_certificate", "FP.Props.C09.dag_width_demands",
            "FP.Props.C09.walkcover_condensation_lower_bound", "FP.Props.C09.inter_scc_unreachable",
            "FP.Props.C09.mincover2",
            "FP.Props.C09.walkcover_sound", "FP.Props.C09.walkcover_hascover",
            "FP.Props.C09.walkcover_optimal_has_cover", "FP.Props.C09.walkcover_sound_literal_false",
            "FP.Props.C09.walkcover_complete", "FP.Props.C09.walk_within_caps", "FP.Props.C09.walkcover_caps_suffice",
            "FP.Props.C09.walkcover_within_is_cover", "FP.Props.C09.walkcover_feasible_iff",
            "FP.Props.C09.walkcover_search_minimal", "FP.Props.C09.walkcover_search_finds_minimum",
            "FP.Props.C09.walkcover_feasible_iff_within", "FP.Props.C09.walkcover_search_minimal_within",
            "FP.Props.C09.coverC", "FP.c09c_compress",
            "FP.Props.C09.condensation_flow_to_walkcover", "FP.Props.C09.digraph_width_is_min_walk_cover",
            "FP.Props.C09.cyc1_cover", "FP.cwc_needs_closed", "FP.cwc_needs_no_isolated", "FP.cwc_duplicate_ignore_counts_once",
            "FP.Props.C13.search_sound", "FP.Props.C13.search_complete", "FP.Props.C01.pathcore_sound"]
IMPORTS = ["FP.Props.C09", "FP.Props.C13", "FP.Props.C01", "FP.Proofs.CondWalkCoverNeeds"]
K2_ADAPTERS = ["kcover", "kcoverc"]
RULE = ("K5.dag: random DAGs with at most 8 edges, random ignore sets leaving at least one edge, additional starts/ends, "
        "subpath constraints at coverage 1, edge and node cover type; K5.cyc: digraphs with cycles (self-loops, 2-cycles, "
        "nested cycles, parallel SCC exits/entries, extra sources/sinks, additional starts/ends) with at most 7 edges in which "
        "every edge lies on a start-to-end walk, ignore sets (inside SCCs, parallel inter-SCC edges, source edges), subset "
        "constraints at coverage 1. A case = (class or method, instance); non-trivial iff the brute-force minimum is >= 2 or an "
        "ignore set / constraint / additional start or end is present; K5.cyc.width_dup_ignore: the same instance with "
        "some entries of edges_to_ignore repeated (a repeated inter-SCC, inside-SCC or synthetic edge), always non-trivial. "
        "K1: the same instances (with and without repeated entries) plus all-ignored and duplicate-ignore lists. K2: generated encoder configurations (non-trivial: LP with more than 8 lines). K3: fault "
        "plans of props.c13 on MinPathCover / MinPathCoverCycles.")
MODEL_SCOPE = ("modelled and proven: kPathCover LP (cover_type='edge', subpath constraints at coverage fraction 1 or none, no "
               "length coverage, safety optimisations adding nothing), MinPathCover search loop, antichain lower bound, flow "
               "decomposition on DAGs, soundness AND completeness of the kPathCoverCycles LP (every solution decodes to k covering "
               "source-to-sink walks; every family of k covering walks within the repetition caps |E|*|V| (SCC edges) / 1 (other "
               "edges) extends to a solution with the traversal counts as edge variables, and every walk cover can be brought "
               "within these caps without changing k; feasible <=> a cover with k walks exists and the MinPathCoverCycles search "
               "returns the minimum, for subset constraints at coverage fraction 1, empty walks not allowed; safety optimisations "
               "off, C05 shows they change nothing), the "
               "min-flow instance of stDiGraph.get_width on the expanded condensation (K1) with the flow-to-walk-cover direction "
               "(given the SCC labelling and every edge on a source-to-sink walk; edges_to_ignore may repeat entries); not "
               "proven: min-flow / max-antichain strong duality; not modelled: network simplex, the residual search extracting "
               "the antichain (their "
               "outputs are checked per run as certificates), safety optimisations of the k-models, node expansion (C11)")
TRUSTED = ["HiGHS reports kOptimal only with an assignment satisfying the LP and kInfeasible only for infeasible LPs "
           "(re-checked end to end: solved iff k >= brute-force minimum)",
           "nx.condensation returns the strongly connected components (the SCC labelling is an oracle parameter of the "
           "Lean model of stDiGraph.get_width)"]
ASSUMPTIONS = ["DAG end-to-end oracles: subpath constraints at coverage 1, at edge-count fractions < 1 and at length fractions; cyclic ones: coverage 1 (fractions < 1 by K2 only)",
               "at least one edge (node) is not ignored",
               "every edge of the digraph lies on a walk from the global source to the global sink (fails for cycles without an "
               "entry from a source: stDiGraph attaches the source only to nodes of in-degree 0)"]


# ===================================================================== brute force (property text only)

def degs(nodes, edges):
    indeg = {v: 0 for v in nodes}; outdeg = {v: 0 for v in nodes}
    for u, v in edges:
        outdeg[u] += 1; indeg[v] += 1
    return indeg, outdeg


def route_sets(nodes, edges, starts, ends):
    """all (edge set, node set) of routes of the user's graph: walks from a node without in-edges or an additional
    start to a node without out-edges or an additional end (on a DAG: paths). Exhaustive search over
    (current node, set of edges used so far)."""
    indeg, outdeg = degs(nodes, edges)
    S = [v for v in nodes if indeg[v] == 0 or v in starts]
    E = {v for v in nodes if outdeg[v] == 0 or v in ends}
    out = {v: [] for v in nodes}
    for i, (u, v) in enumerate(edges):
        out[u].append((i, v))
    seen = set()
    res = set()
    stack = [(s, 0, s) for s in S]
    while stack:
        st = stack.pop()
        if st in seen:
            continue
        seen.add(st)
        v, mask, first = st
        if v in E:
            es = frozenset(edges[i] for i in range(len(edges)) if mask >> i & 1)
            ns = frozenset([first]) | frozenset(x for e in es for x in e)
            res.add((es, ns))
        for i, w in out[v]:
            stack.append((w, mask | (1 << i), first))
    return res


def constraint_met(c, s, inst=None):
    """does the route with edge set `s` contain enough of constraint `c` (property text: all of it, or the stated fraction of
    its edges, or the stated fraction of its length)"""
    c = [tuple(e) for e in c]
    inst = inst or {}
    if inst.get("coverage_length") is not None:
        ln = {(u, v): frac(q) for u, v, q in inst.get("lengths", [])}
        tot = sum(ln.get(e, 1) for e in c)
        return sum(ln.get(e, 1) for e in c if e in s) >= frac(inst["coverage_length"]) * tot
    cov = frac(inst.get("coverage", "1"))
    return sum(1 for e in c if e in s) >= cov * len(c)


def min_cover(sets, need, cons=(), inst=None):
    """smallest number of sets whose union contains `need` and such that every constraint is met by one of them"""
    need = frozenset(need)
    cons = [[tuple(e) for e in c] for c in cons]
    sets = list(set(sets))
    maximal = [s for s in sets if not any(s < t for t in sets)]
    for k in range(0, len(maximal) + 1):
        for combo in itertools.combinations(maximal, k):
            u = frozenset().union(*combo) if combo else frozenset()
            if need <= u and all(any(constraint_met(c, s, inst) for s in combo) for c in cons):
                return k
    return None


def bf_minimum(inst, with_constraints=True):
    nodes = inst["nodes"]; edges = [tuple(e) for e in inst["edges"]]
    rs = route_sets(nodes, edges, set(inst.get("starts", [])), set(inst.get("ends", [])))
    if inst.get("origin", "edge") == "node":
        need = [v for v in nodes if v not in set(inst.get("ignore", []))]
        return min_cover([ns for (_, ns) in rs], need)
    ign = {tuple(e) for e in inst.get("ignore", [])}
    need = [e for e in edges if e not in ign]
    cons = [[tuple(e) for e in c] for c in inst.get("constraints", [])] if with_constraints else []
    return min_cover([es for (es, _) in rs], need, cons, inst)


def cover_problems(inst, routes):
    """property text on returned routes: valid routes, everything not ignored covered, constraints contained"""
    dag = not models.is_cyc(inst["cls"]) if "cls" in inst else inst.get("dag", True)
    probs = []
    for r in routes:
        for p in models.route_problems(inst, list(r), dag):
            probs.append(f"route {list(r)}: {p}")
    if inst.get("origin", "edge") == "node":
        seen = {v for r in routes for v in r}
        for v in inst["nodes"]:
            if v not in set(inst.get("ignore", [])) and v not in seen:
                probs.append(f"node {v!r} is not ignored and lies on no returned route")
        return probs
    on = [set(zip(r[:-1], r[1:])) for r in routes]
    ign = {tuple(e) for e in inst.get("ignore", [])}
    for e in map(tuple, inst["edges"]):
        if e not in ign and not any(e in s for s in on):
            probs.append(f"edge {e} is not ignored and lies on no returned route")
    for c in inst.get("constraints", []):
        if not any(constraint_met(c, s, inst) for s in on):
            probs.append(f"constraint {c} is contained in no returned route"
                         + (f" (coverage {inst.get('coverage')}, coverage_length {inst.get('coverage_length')})"
                            if inst.get("coverage", "1") != "1" or inst.get("coverage_length") is not None else ""))
    return probs


def reach_sets(nodes, edges):
    G = nx.DiGraph(); G.add_nodes_from(nodes); G.add_edges_from(edges)
    return {v: nx.descendants(G, v) | {v} for v in G}


def antichain_problems(nodes, edges, A):
    """plain BFS: distinct edges, no head of one reaches the tail of another (hypothesis of antichain_of_unreachable)"""
    probs = []
    if len(set(A)) != len(A):
        probs.append(f"antichain {A} repeats an edge")
    R = reach_sets(nodes, edges)
    for e1 in A:
        for e2 in A:
            if e1 != e2 and e2[0] in R[e1[1]]:
                probs.append(f"antichain edges {e1} and {e2} lie on a common walk")
    return probs


# ===================================================================== capture (wrapping from outside)

class Capture:
    """records the weight_function handed to stDAG.compute_max_edge_antichain and the instance / result of
    graphutils.min_cost_flow"""

    def __init__(self, fp):
        self.fp = fp
        self.calls = []      # dicts: graph (the stDAG), weight_function, demands, cost, flow

    def __enter__(self):
        fp, me = self.fp, self
        self.SD = fp.stdag.stDAG
        self.gu = fp.utils.graphutils
        self.orig_a = self.SD.compute_max_edge_antichain
        self.orig_f = self.gu.min_cost_flow

        def antichain(obj, get_antichain=False, weight_function=None):
            rec = {"graph": obj, "weight_function": None if weight_function is None else dict(weight_function)}
            me.calls.append(rec)
            me._cur = rec
            try:
                return me.orig_a(obj, get_antichain=get_antichain, weight_function=weight_function)
            finally:
                me._cur = None

        def mcf(G, s, t, *a, **k):
            cost, flow = me.orig_f(G, s, t, *a, **k)
            cur = getattr(me, "_cur", None)
            if cur is not None:
                cur["demands"] = {(u, v): G[u][v]["l"] for u, v in G.edges()}
                cur["cost"], cur["flow"] = cost, flow
            return cost, flow

        self.SD.compute_max_edge_antichain = antichain
        self.gu.min_cost_flow = mcf
        return self

    def __exit__(self, *a):
        self.SD.compute_max_edge_antichain = self.orig_a
        self.gu.min_cost_flow = self.orig_f
        return False


def ren_of(st):
    return lambda v: "source" if v == st.source else "sink" if v == st.sink else v


def flow_problems(st, rec):
    """the captured min-cost flow is an integral feasible flow of the instance and its cost is the source out-flow"""
    probs = []
    f, d = rec.get("flow"), rec.get("demands")
    if f is None:
        return ["min_cost_flow returned no flow"]
    val = lambda u, v: f[u][v]
    for (u, v), l in d.items():
        x = val(u, v)
        if x != int(x) or x < l:
            probs.append(f"flow {x} on {(u, v)} below the demand {l} or not integral")
    for v in st.nodes():
        if v in (st.source, st.sink):
            continue
        if sum(val(u, v) for u in st.predecessors(v)) != sum(val(v, w) for w in st.successors(v)):
            probs.append(f"flow not conserved at {v!r}")
    if sum(val(st.source, w) for w in st.successors(st.source)) != rec.get("cost"):
        probs.append("cost differs from the source out-flow")
    return probs


# ===================================================================== instances

def plain_names(nodes, edges):
    m = {v: f"v{i}" for i, v in enumerate(nodes)}
    return [m[v] for v in nodes], [(m[u], m[v]) for u, v in edges], m


def dag_instance(rng, node_mode=False):
    for _ in range(100):
        nodes, edges = gen.dag(rng, n=rng.randint(2, 6), min_edges=rng.randint(1, 4))
        touched = {x for e in edges for x in e}
        nodes = [v for v in nodes if v in touched]
        if len(edges) <= 8:
            break
    if node_mode:
        nodes, edges, _ = plain_names(nodes, edges)
    inst = {"cls": "MinPathCover", "nodes": list(nodes), "edges": [list(e) for e in edges],
            "origin": "node" if node_mode else "edge", "constraints": [], "coverage": "1", "ignore": [],
            "starts": [], "ends": [], "options": {}, "weight_type": "int"}
    r = rng.random()
    if node_mode:
        if r < 0.5 and len(nodes) > 1:
            keep = rng.choice(nodes)
            inst["ignore"] = [v for v in nodes if v != keep and rng.random() < 0.35]
    else:
        if r < 0.5 and len(edges) > 1:
            keep = rng.randrange(len(edges))
            inst["ignore"] = [list(e) for i, e in enumerate(edges) if i != keep and rng.random() < 0.35]
        if rng.random() < 0.35:
            inst["constraints"] = [[list(e) for e in c] for c in gen.subpaths(rng, nodes, edges, contiguous=True)]
            r2 = rng.random()
            if inst["constraints"] and r2 < 0.25:            # partial coverage by number of edges
                inst["coverage"] = rng.choice(["1/2", "3/4", "2/3"])
            elif inst["constraints"] and r2 < 0.5:           # partial coverage by length
                inst["lengths"] = [[u, v, str(rng.choice([1, 1, 2, 4]))] for u, v in edges]
                inst["coverage_length"] = rng.choice(["3/4", "1/2", "1"])
    if rng.random() < 0.35:
        inst["starts"] = rng.sample(nodes, rng.randint(0, min(2, len(nodes))))
        inst["ends"] = rng.sample(nodes, rng.randint(0, min(2, len(nodes))))
    return inst


def every_edge_on_route(nodes, edges, starts, ends):
    indeg, outdeg = degs(nodes, edges)
    S = [v for v in nodes if indeg[v] == 0 or v in starts]
    E = [v for v in nodes if outdeg[v] == 0 or v in ends]
    if not S or not E:
        return False
    G = nx.DiGraph(); G.add_nodes_from(nodes); G.add_edges_from(edges)
    fw = set().union(*[nx.descendants(G, s) | {s} for s in S])
    bw = set().union(*[nx.ancestors(G, t) | {t} for t in E])
    return all(u in fw and v in bw for u, v in edges) and all(G.degree(v) > 0 for v in nodes)


def cyc_instance(rng, node_mode=False, natural_only=False):
    for _ in range(400):
        if natural_only or rng.random() < 0.5:
            nodes, edges = models.cyc_graph(rng, max_nodes=rng.choice([3, 4, 5]), min_edges=2)
            starts, ends, tags = [], [], []
        else:
            nodes, edges, starts, ends, tags = gen.digraph_cyc(rng, max_nodes=rng.choice([3, 4]))
        edges = [tuple(e) for e in edges]
        if len(edges) > 7 or nx.is_directed_acyclic_graph(nx.DiGraph(edges)):
            continue
        if every_edge_on_route(nodes, edges, set(starts), set(ends)):
            break
    else:
        nodes, edges, starts, ends, tags = ["s", "a", "b", "t"], [("s", "a"), ("a", "b"), ("b", "a"), ("a", "t")], [], [], []
    if node_mode:
        nodes, edges, m = plain_names(nodes, edges)
        starts = [m[v] for v in starts]; ends = [m[v] for v in ends]
    inst = {"cls": "MinPathCoverCycles", "nodes": list(nodes), "edges": [list(e) for e in edges],
            "origin": "node" if node_mode else "edge", "constraints": [], "coverage": "1", "ignore": [],
            "starts": list(starts), "ends": list(ends), "options": {}, "weight_type": "int", "tags": list(tags)}
    if node_mode:
        if rng.random() < 0.5 and len(nodes) > 1:
            keep = rng.choice(nodes)
            inst["ignore"] = [v for v in nodes if v != keep and rng.random() < 0.35]
    else:
        if rng.random() < 0.6 and len(edges) > 1:
            keep = rng.randrange(len(edges))
            inst["ignore"] = [list(e) for i, e in enumerate(edges) if i != keep and rng.random() < 0.4]
        if rng.random() < 0.3:
            inst["constraints"] = [[list(e) for e in c] for c in gen.subset_constraints_cyc(rng, edges, n=rng.randint(1, 2))]
    return inst


def features(inst, mn):
    fs = [inst["cls"], inst.get("origin", "edge"), f"min={mn}"]
    for key in ("ignore", "constraints", "starts", "ends"):
        if inst.get(key):
            fs.append(key)
    return fs


def nontrivial(inst, mn):
    return (mn or 0) >= 2 or any(inst.get(k) for k in ("ignore", "constraints", "starts", "ends"))


# ===================================================================== end-to-end checks

def viol(ctx, what, inst, site):
    """at most a few violations per site, so that one defect does not use up the engine's list"""
    seen = ctx.__dict__.setdefault("_c09_sites", {})
    seen[site] = seen.get(site, 0) + 1
    if seen[site] <= 4:
        ctx.violation(what, inst, site=site)


def safe(ctx, what, inst, site, fn):
    """the property says solve() succeeds: an exception of the code on a valid instance is a violation"""
    try:
        return True, fn()
    except Exception as e:     # noqa
        viol(ctx, f"{what} raised {type(e).__name__}: {str(e)[:160]}", inst, site=site)
        return False, None


def check_min_model(ctx, inst, mn, suite, mn0=None):
    """Min*.solve(): succeeds, covers, fewest"""
    fp = ctx.fp
    cls = inst["cls"]
    key = models.route_key(cls)
    ctx.rep.cov["oracle_evaluations"] += 1
    ok, m = safe(ctx, f"{cls}(...)", inst, f"{cls}.init", lambda: models.build(fp, inst))
    if not ok:
        return
    ok, ret = safe(ctx, f"{cls}.solve()", inst, f"{cls}.solve", lambda: m.solve())
    if not ok:
        return
    if not ret:
        viol(ctx, f"{cls}.solve() returned False although a cover by {mn} routes exists", inst, site=f"{cls}.solve")
        return
    routes = [list(r) for r in m.get_solution()[key]]
    probs = cover_problems(inst, routes)
    if probs:
        viol(ctx, f"{cls}.get_solution(): {probs[0]}", dict(inst, routes=routes), site=f"{cls}.coverage")
    if len(routes) != mn:
        lb = m.get_lowerbound_k()
        # the width under the convention of the k-models (additional starts/ends kept, synthetic edges ignored)
        try:
            kcls = "kPathCoverCycles" if models.is_cyc(cls) else "kPathCover"
            conv = models.build(fp, dict(inst, cls=kcls, k=1)).get_lowerbound_k()
        except Exception as e:     # noqa
            conv = f"{type(e).__name__}"
        viol(ctx, f"{cls} returned {len(routes)} routes, the minimum cover has {mn} (lower bound used by the search: {lb}; "
                      f"width under the k-models' convention: {conv})",
                      dict(inst, routes=routes, returned=len(routes), minimum=mn, minimum_unconstrained=mn0, lowerbound=lb,
                           width_convention=conv),
                      site=f"{cls}.minimality")
    return m


def check_k_models(ctx, inst, mn, suite):
    """k-models solved exactly for k >= minimum"""
    fp = ctx.fp
    kcls = "kPathCoverCycles" if models.is_cyc(inst["cls"]) else "kPathCover"
    key = models.route_key(kcls)
    for k in (mn - 1, mn, mn + 1):
        if k < 1:
            continue
        ki = dict(inst, cls=kcls, k=k)
        ctx.rep.cov["oracle_evaluations"] += 1
        ok, m = safe(ctx, f"{kcls}(k={k}, cover_type={inst.get('origin', 'edge')!r})", ki, f"{kcls}.init",
                     lambda: models.build(fp, ki))
        if not ok:
            return
        ok, ret = safe(ctx, f"{kcls}.solve()", ki, f"{kcls}.solve", lambda: m.solve())
        if not ok:
            return
        ctx.rep.count(suite + ".k", [ki], nontrivial=True, hist=[kcls, "k<min" if k < mn else "k=min" if k == mn else "k>min"])
        if bool(ret) != (k >= mn):
            viol(ctx, f"{kcls}(k={k}).solve() = {ret}, status {m.solver.get_model_status()}; minimum cover size is {mn}",
                          ki, site=f"{kcls}.solve")
        elif ret:
            routes = [list(r) for r in m.get_solution()[key]]
            probs = cover_problems(ki, routes)
            if probs:
                viol(ctx, f"{kcls}(k={k}).get_solution(): {probs[0]}", dict(ki, routes=routes), site=f"{kcls}.coverage")
            if len(routes) != k:
                viol(ctx, f"{kcls}(k={k}) returned {len(routes)} routes", dict(ki, routes=routes), site=f"{kcls}.count")


def build_graph(inst):
    G = nx.DiGraph(); G.add_nodes_from(inst["nodes"]); G.add_edges_from([tuple(e) for e in inst["edges"]])
    return G


def check_dag_width(ctx, inst, mn0, suite):
    """stDAG.get_width with the convention of the models == minimum cover (no constraints); certificate; K1 demands"""
    fp = ctx.fp
    st = fp.stDAG(build_graph(inst), additional_starts=list(inst["starts"]), additional_ends=list(inst["ends"]))
    ign = [tuple(e) for e in inst["ignore"]]
    to_ignore = list(st.source_sink_edges) + ign
    ctx.rep.cov["oracle_evaluations"] += 1
    with Capture(fp) as cap:
        ok, w = safe(ctx, "stDAG.get_width", inst, "stDAG.get_width", lambda: st.get_width(edges_to_ignore=to_ignore))
    if not ok:
        return
    if w != mn0:
        viol(ctx, f"stDAG.get_width(source/sink edges + ignored) = {w}, minimum path cover is {mn0}", inst,
                      site="stDAG.get_width")
    k1_dag_demands(ctx, inst, st, to_ignore, cap.calls[-1] if cap.calls else None)
    # run-time certificate: feasible flow + antichain of the same size
    active = [e for e in st.edges() if e not in set(to_ignore)]
    wf = {e: 1 for e in active}
    with Capture(fp) as cap:
        ok, res = safe(ctx, "stDAG.compute_max_edge_antichain(get_antichain=True)", inst, "stDAG.antichain",
                       lambda: st.compute_max_edge_antichain(get_antichain=True, weight_function=wf))
    if not ok:
        return
    cost, A = res
    ctx.rep.cov["oracle_evaluations"] += 1
    probs = antichain_problems(list(st.nodes()), list(st.edges()), list(A))
    probs += [f"antichain edge {e} is ignored or synthetic" for e in A if e not in wf]
    if len(A) != cost or cost != mn0:
        probs.append(f"antichain of {len(A)} edges, flow cost {cost}, minimum path cover {mn0}")
    probs += flow_problems(st, cap.calls[-1])
    if probs:
        viol(ctx, f"stDAG.compute_max_edge_antichain certificate: {probs[0]}", dict(inst, antichain=[list(e) for e in A]),
                      site="stDAG.antichain")


def k1_dag_demands(ctx, inst, st, to_ignore, rec, suite="K1.dagdemands", ren=None):
    ren = ren or ren_of(st)
    req = {"op": "width.dagdemands", "nodes": inst["nodes"], "edges": inst["edges"], "starts": inst["starts"],
           "ends": inst["ends"], "ignore": [[ren(u), ren(v)] for (u, v) in to_ignore]}
    model = ctx.driver.call(req)
    ctx.rep.cov["traces_validated_against_impl"] += 1
    ctx.rep.count(suite, req, nontrivial=len(inst["edges"]) > 1, hist=["stDAG.get_width"] + (["all_ignored"] if rec and not rec["weight_function"] else []))
    if rec is None:
        ctx.disagree(suite, req, "compute_max_edge_antichain not called", model)
        return
    impl_w = sorted([ren(u), ren(v), w] for (u, v), w in (rec["weight_function"] or {}).items())
    impl_d = sorted([ren(u), ren(v), l] for (u, v), l in rec["demands"].items())
    if impl_w != sorted(model["weights"]) or impl_d != sorted(model["demands"]):
        ctx.disagree(suite, req, {"weights": impl_w, "demands": impl_d}, model)


def check_cyc_width(ctx, inst, mn0, suite):
    fp = ctx.fp
    ok, st = safe(ctx, "stDiGraph(...)", inst, "stDiGraph.init",
                  lambda: fp.stDiGraph(build_graph(inst), additional_starts=list(inst["starts"]), additional_ends=list(inst["ends"])))
    if not ok:
        return
    ign = [tuple(e) for e in inst["ignore"]]
    to_ignore = list(st.source_sink_edges) + ign
    ctx.rep.cov["oracle_evaluations"] += 1
    with Capture(fp) as cap:
        ok, w = safe(ctx, "stDiGraph.get_width", inst, "stDiGraph.get_width", lambda: st.get_width(edges_to_ignore=to_ignore))
    if not ok:
        return
    if w != mn0:
        viol(ctx, f"stDiGraph.get_width(source/sink edges + ignored) = {w}, minimum walk cover is {mn0}", inst,
                      site="stDiGraph.get_width")
    rec = cap.calls[-1] if cap.calls else None
    k1_cyc_demands(ctx, inst, st, to_ignore, rec)
    # the same list with some entries repeated: an edge listed twice is still one edge to ignore (fix afcb013), so the
    # width must still be the brute-force minimum walk cover; the instance built goes to the K1 tie as well
    dups = [e for e in to_ignore if ctx.rng.random() < 0.5] or to_ignore[:1]
    to_ignore_dup = to_ignore + dups
    ctx.rng.shuffle(to_ignore_dup)
    ctx.rep.cov["oracle_evaluations"] += 1
    with Capture(fp) as capd:
        okd, wd = safe(ctx, "stDiGraph.get_width(duplicate entries)", inst, "stDiGraph.get_width.duplicates",
                       lambda: st.get_width(edges_to_ignore=to_ignore_dup))
    if okd:
        inter_dup = any(not st.is_scc_edge(*e) for e in dups)
        ctx.rep.count(suite + ".width_dup_ignore", dict(inst, ignore_dup=[list(e) for e in to_ignore_dup]), nontrivial=True,
                      hist=["stDiGraph.get_width", "dup_inter_scc" if inter_dup else "dup_inside_scc",
                            "dup_user_edge" if any(e in ign for e in dups) else "dup_synthetic_only"])
        if wd != mn0:
            viol(ctx, f"stDiGraph.get_width with repeated entries in edges_to_ignore = {wd}, minimum walk cover is {mn0} "
                      f"(without repetitions: {w})", dict(inst, ignore_dup=[list(e) for e in to_ignore_dup]),
                 site="stDiGraph.get_width.duplicates")
        k1_cyc_demands(ctx, inst, st, to_ignore_dup, capd.calls[-1] if capd.calls else None)
    if rec is None:
        return
    # certificate on the expanded condensation, lifted to edges of the digraph
    ce = st._condensation_expanded
    with Capture(fp) as cap2:
        ok, res = safe(ctx, "condensation antichain", inst, "stDiGraph.antichain",
                       lambda: ce.compute_max_edge_antichain(get_antichain=True, weight_function=rec["weight_function"]))
    if not ok:
        return
    cost, A = res
    ctx.rep.cov["oracle_evaluations"] += 1
    probs = antichain_problems(list(ce.nodes()), list(ce.edges()), list(A))
    wsum = sum(rec["weight_function"].get(e, 0) for e in A)
    if wsum != cost or cost != w:
        probs.append(f"antichain weight {wsum}, flow cost {cost}, width {w}")
    probs += flow_problems(ce, cap2.calls[-1])
    # lift: weight-many active edges of the digraph per antichain edge
    active = [e for e in st.edges() if e not in set(to_ignore)]
    lifted = []
    for ca in A:
        pre = [e for e in active if st._edge_to_condensation_expanded_edge(*e) == ca]
        need = rec["weight_function"].get(ca, 0)
        if len(pre) < need:
            probs.append(f"condensation edge {ca} has weight {need} but only {len(pre)} active edges map to it")
        lifted += pre[:need]
    probs += antichain_problems(list(st.nodes()), list(st.edges()), lifted)
    if len(lifted) != mn0:
        probs.append(f"lifted antichain has {len(lifted)} edges, minimum walk cover is {mn0}")
    if probs:
        viol(ctx, f"stDiGraph.get_width certificate: {probs[0]}", dict(inst, antichain=[list(e) for e in A]),
                      site="stDiGraph.antichain")


def k1_cyc_demands(ctx, inst, st, to_ignore, rec, suite="K1.demands"):
    ren = ren_of(st)
    ce = st._condensation_expanded
    renc = ren_of(ce)
    mapping = st._condensation.graph["mapping"]
    req = {"op": "width.demands", "nodes": [ren(v) for v in st.nodes()],
           "edges": [[ren(u), ren(v)] for u, v in st.edges()],
           "scc": [[ren(v), int(c)] for v, c in mapping.items()],
           "ignore": [[ren(u), ren(v)] for (u, v) in to_ignore]}
    model = ctx.driver.call(req)
    ctx.rep.cov["traces_validated_against_impl"] += 1
    tags = []
    if any(st.is_scc_edge(*e) for e in to_ignore if e in st.edges()):
        tags.append("ignored_inside_scc")
    mult = st._condensation.graph["edge_multiplicity"]
    if any(v > 1 for v in mult.values()):
        tags.append("parallel_inter_scc")
    if len(set(to_ignore)) != len(to_ignore):
        tags.append("duplicate_ignore_entries")
    ctx.rep.count(suite, req, nontrivial=bool(tags) or len(inst["edges"]) > 3, hist=["stDiGraph.get_width"] + tags)
    if rec is None:
        ctx.disagree(suite, req, "compute_max_edge_antichain not called", model)
        return
    impl_w = sorted([renc(u), renc(v), w] for (u, v), w in rec["weight_function"].items())
    impl_d = sorted([renc(u), renc(v), l] for (u, v), l in rec["demands"].items())
    impl_e = sorted([renc(u), renc(v)] for u, v in ce.edges())
    if "error" in model:
        ctx.disagree(suite, req, {"weights": impl_w}, model)
    elif (impl_w != sorted(model["weights"]) or impl_d != sorted(model["demands"])
          or impl_e != sorted(model["expanded"]["edges"])):
        ctx.disagree(suite, req, {"weights": impl_w, "demands": impl_d, "expanded": impl_e}, model)


def k5_dag(ctx, inst, suite="K5.dag"):
    mn = bf_minimum(inst)
    mn0 = bf_minimum(inst, with_constraints=False)
    ctx.rep.count(suite, inst, nontrivial=nontrivial(inst, mn), hist=features(inst, mn))
    ctx.rep.sample({"suite": suite, "instance": inst, "brute_force_minimum": mn})
    if mn is None or mn == 0:
        return
    check_min_model(ctx, inst, mn, suite, mn0)
    if inst["origin"] == "edge":
        check_k_models(ctx, inst, mn, suite)
        check_dag_width(ctx, inst, mn0, suite)
        check_dag_lowerbound(ctx, inst, mn0)
    else:
        check_k_models(ctx, inst, mn, suite)


def k5_cyc(ctx, inst, suite="K5.cyc"):
    mn = bf_minimum(inst)
    mn0 = bf_minimum(inst, with_constraints=False)
    ctx.rep.count(suite, inst, nontrivial=nontrivial(inst, mn), hist=features(inst, mn) + ["graph:" + t for t in inst.get("tags", [])])
    ctx.rep.sample({"suite": suite, "instance": inst, "brute_force_minimum": mn})
    if mn is None or mn == 0:
        return
    check_min_model(ctx, inst, mn, suite, mn0)
    check_k_models(ctx, inst, mn, suite)
    if inst["origin"] == "edge":
        check_cyc_width(ctx, inst, mn0, suite)


def check_dag_lowerbound(ctx, inst, mn0):
    """MinPathCover.get_lowerbound_k builds stDAG(self.G) on the already augmented graph: the demands of that doubly
    augmented instance against the Lean model (K1) and the value against the brute-force minimum"""
    fp = ctx.fp
    try:
        m = models.build(fp, inst)
    except Exception:      # reported by check_min_model
        return
    with Capture(fp) as cap:
        ok, lb = safe(ctx, "MinPathCover.get_lowerbound_k()", inst, "MinPathCover.lowerbound", lambda: m.get_lowerbound_k())
    if not ok or not cap.calls:
        return
    ctx.rep.cov["oracle_evaluations"] += 1
    if lb != mn0:
        viol(ctx, f"MinPathCover.get_lowerbound_k() = {lb}, minimum path cover (constraints aside) is {mn0}", inst,
             site="MinPathCover.lowerbound")
    rec = cap.calls[-1]
    outer = rec["graph"]
    ren = lambda v: ("source" if v == outer.source else "sink" if v == outer.sink else
                     "inner_source" if v == m.G.source else "inner_sink" if v == m.G.sink else v)
    inner = {"nodes": [ren(v) for v in m.G.nodes()], "edges": [[ren(u), ren(v)] for u, v in m.G.edges()],
             "starts": [], "ends": []}
    k1_dag_demands(ctx, inner, outer, list(m.edges_to_ignore), rec, suite="K1.dagdemands.double_augmentation", ren=ren)


def k1_big(ctx, rng):
    """K1 on larger digraphs (no brute force): parallel inter-SCC edges, ignore lists inside SCCs and across"""
    fp = ctx.fp
    nodes, edges, starts, ends, tags = gen.digraph_cyc(rng, max_nodes=rng.choice([5, 6, 7]))
    inst = {"nodes": nodes, "edges": [list(e) for e in edges], "starts": starts, "ends": ends}
    try:
        st = fp.stDiGraph(build_graph(inst), additional_starts=list(starts), additional_ends=list(ends))
    except ValueError:
        return
    es = list(st.edges())
    to_ignore = [e for e in es if rng.random() < 0.3]
    if rng.random() < 0.5:
        to_ignore = list(st.source_sink_edges) + to_ignore
    with Capture(fp) as cap:
        try:
            st.get_width(edges_to_ignore=to_ignore)
        except Exception:
            pass
    if to_ignore:
        k1_cyc_demands(ctx, inst, st, to_ignore, cap.calls[-1] if cap.calls else None, suite="K1.demands.large")


def k1_extra(ctx, rng):
    """K1 only: ignore lists the property excludes or that are unusual (everything ignored; duplicate entries on instances
    without a brute-force minimum — K5 repeats entries in check_cyc_width)"""
    fp = ctx.fp
    inst = dag_instance(rng)
    st = fp.stDAG(build_graph(inst), additional_starts=list(inst["starts"]), additional_ends=list(inst["ends"]))
    with Capture(fp) as cap:
        st.get_width(edges_to_ignore=list(st.edges()))
    k1_dag_demands(ctx, inst, st, list(st.edges()), cap.calls[-1] if cap.calls else None)
    inst = cyc_instance(rng)
    try:
        st = fp.stDiGraph(build_graph(inst), additional_starts=list(inst["starts"]), additional_ends=list(inst["ends"]))
    except ValueError:
        return
    ign = [tuple(e) for e in inst["ignore"]]
    for to_ignore in (ign, ign + ign[:1] + list(st.source_sink_edges), list(st.edges())):
        with Capture(fp) as cap:
            try:
                st.get_width(edges_to_ignore=to_ignore)
            except Exception:
                pass
        if to_ignore:
            k1_cyc_demands(ctx, inst, st, to_ignore, cap.calls[-1] if cap.calls else None)


def k3(ctx):
    fp, rng = ctx.fp, ctx.rng
    for it in range(ctx.n(2, 10)):
        G = c13.mfd_input(rng)
        mk = lambda: fp.MinPathCover(G, solver_options={"time_limit": 300})
        c13.sweep(ctx, "K3.MinPathCover", "MinPathCover", "stop", mk, [fp.kPathCover],
                  lambda m: ctx.model_hi("MinPathCover", m), c13.gdesc(G), pairs=False)
    for it in range(ctx.n(2, 10)):
        G = c13.cyc_input(rng)
        mk = lambda: fp.MinPathCoverCycles(G, solver_options={"time_limit": 300})
        c13.sweep(ctx, "K3.MinPathCoverCycles", "MinPathCoverCycles", "stop", mk, [fp.kPathCoverCycles],
                  lambda m: ctx.model_hi("MinPathCoverCycles", m), c13.gdesc(G, None), pairs=False)


def run(ctx):
    rng = ctx.rng
    k2.run_k2(ctx, K2_ADAPTERS, ctx.n(150, 1500))
    k3(ctx)
    for it in range(ctx.n(250, 5000)):
        k5_dag(ctx, dag_instance(rng, node_mode=False))
    for it in range(ctx.n(40, 800)):
        k5_dag(ctx, dag_instance(rng, node_mode=True))
    for it in range(ctx.n(200, 4000)):
        k5_cyc(ctx, cyc_instance(rng, node_mode=False))
    for it in range(ctx.n(40, 800)):
        k5_cyc(ctx, cyc_instance(rng, node_mode=True, natural_only=True))
    for it in range(ctx.n(150, 3000)):
        k1_extra(ctx, rng)
        k1_big(ctx, rng)


def dense_scc_instance(p, q):
    """one big SCC u -> v -> a_i -> b_j -> u (all p*q pairs) between a single source and a single sink: one walk covers
    everything (the SCC is strongly connected), but it has to run through the bottleneck edges u->v and b_j->u many
    times - an input for the per-edge repetition caps"""
    A = [f"a{i}" for i in range(p)]; B = [f"b{j}" for j in range(q)]
    edges = [("s", "u"), ("u", "v")] + [("v", a) for a in A] + [(a, b) for a in A for b in B] + [(b, "u") for b in B] + [("v", "t")]
    nodes = ["s", "u", "v"] + A + B + ["t"]
    return {"cls": "MinPathCoverCycles", "nodes": nodes, "edges": [list(e) for e in edges], "origin": "edge",
            "constraints": [], "coverage": "1", "ignore": [], "starts": [], "ends": [], "options": {}, "weight_type": "int",
            "tags": ["dense-scc"]}


def dense_scc_cases(ctx, suite="K5.dense_scc"):
    for (p, q) in ([(2, 2), (3, 3), (4, 4)] if ctx.quick() else [(2, 2), (3, 3), (3, 4), (4, 4), (4, 5)]):
        inst = dense_scc_instance(p, q)
        ctx.rep.count(suite, inst, nontrivial=True, hist=["dense-scc", f"D({p},{q})"])
        check_min_model(ctx, inst, 1, suite)      # minimum is 1: a closed walk through all edges of the SCC exists
        check_k_models(ctx, inst, 1, suite)


def finding_case(ctx, inp):
    if models.is_cyc(inp["cls"]):
        k5_cyc(ctx, dict(inp, cls="MinPathCoverCycles"), suite="known-findings")
    else:
        k5_dag(ctx, dict(inp, cls="MinPathCover"), suite="known-findings")


def search(ctx):
    rng = random.Random(9009)
    dense_scc_cases(ctx, suite="search.dense_scc")
    for it in range(150):
        k5_dag(ctx, dag_instance(rng), suite="search.dag")
        k5_cyc(ctx, cyc_instance(rng), suite="search.cyc")


def replay(ctx, payload):
    inp = payload.get("input") or {}
    print(json.dumps(payload, indent=1)[:3000])
    if "cls" in inp:
        base = {k: v for k, v in inp.items() if k not in ("routes", "antichain", "k")}
        finding_case(ctx, base)
