"""C19 — invalid inputs are rejected with ValueError instead of being solved.

Technique K4 (translator): `pre_build` regenerates lean/FP/Model/Generated/Guards.lean from the AST of
/repo/flowpaths/*.py (every `raise ValueError` guard reachable from each constructor / solve(), classified
through harness/guards_map.json); FP/Props/C19.lean is re-checked by the kernel against the regenerated table.
Observation: a valid base input per class, every single violation and every compatible pair of violations
(and random triples) applied to it, run on the real code. Oracle (property text): a violating input must end in ValueError at
construction or in solve(); a valid input must be accepted. Translator validation: on the descriptors the
table decides (`determined`), the observed outcome must equal `outcome` of the Lean model (driver op k4.outcome).
"""
import itertools, random
import networkx as nx
import extract
from fpv import common, models, k4inputs as K
from fpv.engine import matches_known
from fpv.common import load_known

THEOREMS = ["FP.Props.C19." + t for t in
            ["no_unmapped_guard", "expected_guarded", "support_guarded", "invalid_rejected", "support_rejected", "valid_accepted",
             "violation_never_ok"]] + \
           ["FP.GuardEval." + t for t in ["outcome_ok", "outcome_valueError", "outcome_not_ok_of_violation"]]
IMPORTS = ["FP.Props.C19"]
RULE = ("per model class: the valid base input (edge and node mode), every single violation of k4inputs.variants "
        "(non-string node, cycle / no source-sink, negative / missing weight, non-conserving flow, 4 malformed constraint "
        "shapes, coverage 0 / 1.5 / -1, coverage_length 0 / 0.0 / -0.5 / 1.5 (with length_attr), coverage_length without length_attr, coverage_length together with coverage < 1, k = 0 / -1 / 2.5 / '2', weight_type=str, origin='vertex', unknown "
        "start / end, scaling 1.5 / -0.1, 2 wrong ignore shapes, empty graph, all elements ignored), every pair (quick: 120 "
        "sampled per class) and random triples of violations touching different arguments; converse: random valid instances of fpv.models.instance. Non-trivial: "
        "distinct violating input (single or pair).")
MODEL_SCOPE = ("modelled: the ordered list of `raise ValueError` guards reachable from __init__ (phase construct) and solve() "
               "(phase solve) of every class, following super().__init__, self.method(), graph-class constructors / methods "
               "and inner model constructions; first guard whose flag is set fires. Not modelled: statements other than guards "
               "(an unguarded violation makes some later statement fail with another exception or not at all — `outcome` says "
               "`other`), the position of such failures relative to guards of other violations (descriptors mixing guarded and "
               "unguarded violations are `determined = false` and only checked by the oracle), guards reached too late "
               "(FP.Spec.Rejections.knownPreempted).")
TRUSTED = ["harness/guards_map.json classifies each guard condition correctly (checked by the observation: a misclassified "
           "guard shows as a disagreement on the single-violation inputs)",
           "FP.Spec.Rejections.expected lists what the docstrings promise (cross-checked against the violations the oracle "
           "exercises: suite K4.expected)"]
ASSUMPTIONS = ["violations are represented by the concrete variants listed in RULE on one base graph per family; other malformed "
               "values of the same kind are assumed to take the same guard"]


def report(ctx, what, inp, site=""):
    """the engine keeps at most 50 violations: pass on one per (site, listed finding) and up to three unlisted ones per
    site, so that no site is crowded out"""
    from fpv.engine import matches_known as _mk
    from fpv.common import load_known as _lk
    v = {"what": what, "input": inp, "site": site}
    f = _mk(ctx.pid, v, _lk())
    key = (site, f["id"] if f else None)
    seen = ctx.__dict__.setdefault("_per_site", {})
    seen[key] = seen.get(key, 0) + 1
    if seen[key] <= (1 if f else 3):
        ctx.violation(what, inp, site=site)


def pre_build(ctx):
    res, changed = extract.regenerate(common.REPO, which=("guards", "aliasing"))
    ctx.k4 = res
    if changed:
        print(f"[{ctx.pid}] translator: regenerated {', '.join(changed)} from {common.REPO}")


# ----------------------------------------------------------------------------------------------- cases

SPECIALS = ["valid", "valid_node", "allIgnored:int", "allIgnored:float"]


def apply_case(fp, cls, names):
    """kwargs for a list of variant names / specials; returns (kwargs, flags) or None if not applicable"""
    node = "valid_node" in names
    kw = K.base_kwargs(fp, cls, node_mode=node)
    flags = []
    table = {n: (f, fn) for f, n, fn, _ in K.variants(fp, cls)}
    for n in names:
        if n in ("valid", "valid_node"):
            continue
        if n == "cycle b->a (valid for MinErrorFlow)":
            if cls != "MinErrorFlow":
                return None
            kw["G"].add_edge("b", "a", flow=1, length=1)
            continue
        if n.startswith("allIgnored"):
            if "elements_to_ignore" not in K.signature(fp, cls):
                return None
            if "weight_type" in kw:
                kw["weight_type"] = int if n.endswith("int") else float
            elif n.endswith("float"):
                return None
            kw["elements_to_ignore"] = list(kw["G"].edges())
            flags.append("allIgnored")
            continue
        if n not in table:
            return None
        f, fn = table[n]
        try:
            fn(kw)
        except Exception:
            return None            # the second variant no longer applies after the first one
        flags.append(f)
    return kw, flags


def classify(o):
    if o["exc"] == "ValueError":
        return "valueError"
    if o["exc"] is None and o.get("solved"):
        return "ok"
    return "other"


def describe_obs(o):
    if o["exc"]:
        return f"{o['exc']} in {o['stage']}: {o.get('msg', '')[:100]}"
    return "accepted and solved" if o.get("solved") else "accepted, solve() returned False without any error (silently unsolved)"


NODE_MODE_VARIANTS = ["constraints=[[]]", "node a -> 1", "empty graph", "edge t->s", "pure cycle a->b->c->a", "weight_type=str", "k=0", "k=-1",
                      "k=2.5", "k='2'", "additional_starts=['zz']", "additional_ends=['zz']", "additional_starts=[7]",
                      "additional_ends=[None]"]


def node_singles(ctx, cls):
    """the single violations that mean the same for node-weighted input, on node-weighted input (the validation of the
    node branch is separate code in every class); MinErrorFlow also on a graph with a cycle, where it builds no s-t graph.
    Oracle only: the guard table describes the edge branch."""
    have = {n for _, n, _, _ in K.variants(ctx.fp, cls)}
    for n in NODE_MODE_VARIANTS:
        if n in have:
            case(ctx, cls, ["valid_node", n], "C19.node_single", validate=False)
    if cls == "MinErrorFlow":
        for n in ("additional_starts=['zz']", "additional_ends=['zz']", "additional_starts=[7]", "additional_ends=[None]"):
            case(ctx, cls, ["valid_node", "cycle b->a (valid for MinErrorFlow)", n], "C19.node_single", validate=False)


def case(ctx, cls, names, suite, single_ok=None, validate=True):
    fp = ctx.fp
    r = apply_case(fp, cls, names)
    if r is None:
        return None
    kw, flags = r
    inp = {"cls": cls, "variants": list(names), "flags": sorted(set(flags)), "kwargs": K.describe(kw)}
    o = K.observe(fp, cls, kw)
    obs = classify(o)
    viol = [f for f in flags if f != "allIgnored"]
    ctx.rep.count(suite, [cls, names], nontrivial=bool(flags), hist=[cls, obs] + sorted(set(flags)))
    ctx.rep.cov["oracle_evaluations"] += 1
    # ---------------------------------------------------------------- oracle (property text)
    v = None
    if viol:
        if obs != "valueError":
            # attribute a pair to the violation that is already not rejected on its own
            site_flag = None
            if single_ok is not None and len(names) > 1:
                bad = [f for f, n in zip(flags, names) if single_ok.get((cls, n)) is False]
                site_flag = bad[0] if bad else None
            site = f"{cls}:{site_flag or '+'.join(sorted(set(viol)))}"
            v = {"what": f"{cls} with {' and '.join(names)}: expected ValueError, got {describe_obs(o)}", "input": inp, "site": site}
    elif "allIgnored" in flags:
        if o["exc"] not in (None, "ValueError"):
            v = {"what": f"{cls} with every element ignored ({names[-1]}): {describe_obs(o)}", "input": inp, "site": f"{cls}:allIgnored"}
    else:
        if obs != "ok":
            v = {"what": f"{cls} on a valid input ({' '.join(names)}): {describe_obs(o)}", "input": inp, "site": f"{cls}:valid"}
    if v:
        report(ctx, v["what"], v["input"], site=v["site"])
    # ---------------------------------------------------------------- translator validation
    if ctx.driver is not None and validate:
        ans = ctx.driver.call({"op": "k4.outcome", "cls": cls, "flags": sorted(set(flags))})
        ctx.rep.cov["traces_validated_against_impl"] += 1
        pred = ans["outcome"]
        if not ans["determined"]:
            ctx.rep.count("K4.guards.undetermined", [cls, names], hist=[cls])
            # a guard known to be reached too late: the defect is reported by the oracle above
        else:
            agree = (pred == obs) if pred in ("ok", "valueError") else (obs != "valueError")
            # `other` = nothing rejects the input: any non-ValueError behaviour, including being solved
            if not agree:
                if v is not None and matches_known(ctx.pid, v, load_known()):
                    # the real code fails on this input for a listed reason the guard table cannot express
                    # (a statement other than a guard raises): reported by the oracle, not a translator fault
                    ctx.rep.count("K4.guards.explained_by_finding", [cls, names], hist=[cls])
                else:
                    ctx.disagree("K4.guards", inp, {"observed": obs, "detail": describe_obs(o)},
                                 {"predicted": pred, "guard": ans.get("guard")})
    return obs


def singles(ctx, cls):
    out = {}
    for f, n, fn, feats in K.variants(ctx.fp, cls):
        obs = case(ctx, cls, [n], "C19.single")
        out[(cls, n)] = (obs == "valueError")
    return out


def pairs(ctx, cls, single_ok, limit=None):
    vs = K.variants(ctx.fp, cls)
    combos = [(a, b) for a, b in itertools.combinations(vs, 2) if not (a[3] & b[3])]
    if limit is not None and len(combos) > limit:
        combos = ctx.rng.sample(combos, limit)
    for a, b in combos:
        case(ctx, cls, [a[1], b[1]], "C19.pair", single_ok)


def triples(ctx, cls, single_ok, limit):
    vs = K.variants(ctx.fp, cls)
    if len(vs) < 3:
        return
    done = 0
    for _ in range(limit * 6):
        a, b, c = ctx.rng.sample(vs, 3)
        if (a[3] & b[3]) or (a[3] & c[3]) or (b[3] & c[3]):
            continue
        case(ctx, cls, [a[1], b[1], c[1]], "C19.triple", single_ok)
        done += 1
        if done >= limit:
            break


def expected_tie(ctx, cls):
    """the hand-written Lean `expected` covers exactly the violations the oracle exercises for the class"""
    ans = ctx.driver.call({"op": "k4.expected", "cls": cls})
    exercised = sorted({f for f, _, _, _ in K.variants(ctx.fp, cls)})
    ctx.rep.count("K4.expected", cls, nontrivial=bool(exercised), hist=[cls])
    if sorted(ans["expected"]) != exercised:
        ctx.disagree("K4.expected", {"cls": cls}, {"oracle_exercises": exercised}, {"lean_expected": sorted(ans["expected"])})


def api_cases(ctx):
    """valid uses outside the flag vocabulary that the documentation allows"""
    fp = ctx.fp
    # MinSetCover: subset_weights is optional ("If not provided, each subset is assumed to have a weight of 1")
    inp = {"cls": "MinSetCover", "variants": ["subset_weights=None"], "flags": []}
    ctx.rep.count("C19.api", inp, hist=["MinSetCover"])
    try:
        m = fp.MinSetCover(universe=[1, 2, 3], subsets=[[1, 2], [2, 3], [3]])
        m.solve()
        if not m.is_solved():
            report(ctx, "MinSetCover without subset_weights: not solved", inp, site="MinSetCover:valid")
    except Exception as e:
        report(ctx, f"MinSetCover(universe, subsets) without the optional subset_weights: {type(e).__name__}: {e}", inp,
                      site="MinSetCover:valid")
    # NumPathsOptimization.is_solved() before solve(): a fresh model must say "not solved"
    inp = {"cls": "NumPathsOptimization", "variants": ["is_solved() before solve()"], "flags": []}
    ctx.rep.count("C19.api", inp, hist=["NumPathsOptimization"])
    try:
        m = K.build(fp, "NumPathsOptimization", K.base_kwargs(fp, "NumPathsOptimization"))
        r = m.is_solved()
        if r:
            report(ctx, "NumPathsOptimization claims to be solved before solve()", inp, site="NumPathsOptimization:is_solved")
    except Exception as e:
        report(ctx, f"NumPathsOptimization.is_solved() before solve(): {type(e).__name__}: {e}", inp,
                      site="NumPathsOptimization:is_solved")
    # the same question to every other class
    for cls in K.ALL_MODELS:
        if cls == "NumPathsOptimization":
            continue
        inp = {"cls": cls, "variants": ["is_solved() before solve()"], "flags": []}
        ctx.rep.count("C19.api", inp, hist=[cls])
        try:
            m = K.build(fp, cls, K.base_kwargs(fp, cls))
            if m.is_solved() and cls not in ("kFlowDecomp",):     # kFlowDecomp may be solved by its greedy pre-solve
                report(ctx, f"{cls} claims to be solved before solve()", inp, site=f"{cls}:is_solved")
        except Exception as e:
            if cls in ("MinSetCover",) and "not yet solved" in str(e).lower():
                continue        # documented behaviour: raises "Model not yet solved"
            report(ctx, f"{cls}.is_solved() before solve(): {type(e).__name__}: {e}", inp, site=f"{cls}:is_solved")


def converse(ctx, n_per_class):
    """random well-formed instances are accepted (constructed without error); a sample is also solved"""
    fp = ctx.fp
    rng = ctx.rng
    for cls in models.ALL_CLASSES:
        for it in range(n_per_class):
            inst = models.instance(rng, cls)
            ctx.rep.count("C19.converse", inst, nontrivial=True, hist=[cls])
            ctx.rep.cov["oracle_evaluations"] += 1
            try:
                m = models.build(fp, inst)
                if it % 8 == 0:
                    m.solve()
            except Exception as e:
                report(ctx, f"{cls} rejected / failed on a well-formed instance: {type(e).__name__}: {e}", inst, site=f"{cls}:valid")


def boundary_valid(ctx, suite="C19.boundary_valid"):
    """inputs just INSIDE the domain, next to each validation (the converse half of the property): a validation that is made
    stricter than documented rejects one of them"""
    fp = ctx.fp
    for cls in K.GRAPH_MODELS:
        sig = K.signature(fp, cls)
        cases = []
        ck, cov = K.constraint_key(cls), K.coverage_key(cls)
        if ck in sig:
            two_branches = [[("a", "b"), ("b", "t")]] if K.is_cyc(cls) else [[("s", "b"), ("a", "t")]]
            # two edges that lie on no common route, required only to one half: each route containing one of them will do
            if not K.is_cyc(cls):
                cases.append(("constraint with mutually unreachable edges, coverage 0.5", {ck: two_branches, cov: 0.5}))
            cases.append(("coverage 0.01", {ck: K._valid_constraint(cls), cov: 0.01}))
            cases.append(("coverage exactly 1 (int)", {ck: K._valid_constraint(cls), cov: 1}))
            cases.append(("empty list of constraints", {ck: []}))
        if "subpath_constraints_coverage_length" in sig:
            cases.append(("coverage_length 1 with length_attr", {ck: K._valid_constraint(cls), "subpath_constraints_coverage_length": 1,
                                                                "length_attr": "length"}))
            cases.append(("mutually unreachable edges, coverage_length 0.5", {ck: [[("s", "b"), ("a", "t")]],
                                                                            "subpath_constraints_coverage_length": 0.5, "length_attr": "length"}))
        if cls in K.FLOW_DECOMP | K.ERROR:
            cases.append(("every flow value 0", {"__zero_flow__": True}))
        if cls in K.HAS_K:
            cases.append(("k=1", {"k": 1}))
        if "additional_starts" in sig and cls not in K.FLOW_DECOMP:
            cases.append(("additional start and end that are nodes", {"additional_starts": ["a"], "additional_ends": ["b"]}))
        if "error_scaling" in sig:
            cases.append(("error_scaling 0 and 1", {"error_scaling": {("s", "a"): 0, ("a", "b"): 1}}))
        if "elements_to_ignore" in sig:
            cases.append(("one ignored edge", {"elements_to_ignore": [("a", "b")]}))
        for name, extra in cases:
            kw = K.base_kwargs(fp, cls)
            extra = dict(extra)
            if extra.pop("__zero_flow__", False):
                for _, _, d in kw["G"].edges(data=True):
                    d["flow"] = 0
            kw.update(extra)
            inp = {"cls": cls, "variants": [name], "flags": [], "kwargs": K.describe(kw)}
            o = K.observe(fp, cls, kw)
            ctx.rep.count(suite, [cls, name], nontrivial=True, hist=[cls, o["exc"] or "accepted"])
            ctx.rep.cov["oracle_evaluations"] += 1
            if o["exc"] is not None:
                report(ctx, f"{cls} on a valid input ({name}): {describe_obs(o)}", inp, site=f"{cls}:valid")


def run(ctx):
    fp = ctx.fp
    thorough = not ctx.quick()
    for cls in K.ALL_MODELS:
        for sp in SPECIALS:
            if sp == "valid_node" and cls in K.MISC:
                continue
            case(ctx, cls, [sp], "C19.base")
        ok = singles(ctx, cls)
        if cls in K.GRAPH_MODELS:
            node_singles(ctx, cls)
        pairs(ctx, cls, ok, limit=None if thorough else 120)
        triples(ctx, cls, ok, limit=150 if thorough else 15)
        if ctx.driver is not None:
            expected_tie(ctx, cls)
    api_cases(ctx)
    boundary_valid(ctx)
    converse(ctx, ctx.n(20, 120))
    ctx.rep.sample({"suite": "C19.single", "cls": "kLeastAbsErrors", "variant": "k=0",
                    "kwargs": K.describe(apply_case(fp, "kLeastAbsErrors", ["k=0"])[0])})


def finding_case(ctx, inp):
    if inp.get("api"):
        return                      # covered by api_cases in run()
    case(ctx, inp["cls"], inp["variants"], "known-findings")


def search(ctx):
    """a proof obligation broke (new / edited / removed guard): look for an input the real code no longer rejects"""
    if ctx.broken_obligations:
        extract.explain_broken(ctx, "FP/Props/C19.lean")
    for cls in K.ALL_MODELS:
        for sp in SPECIALS:
            if sp == "valid_node" and cls in K.MISC:
                continue
            case(ctx, cls, [sp], "search.base")
        ok = {}
        for f, n, fn, feats in K.variants(ctx.fp, cls):
            ok[(cls, n)] = case(ctx, cls, [n], "search.single") == "valueError"
        pairs(ctx, cls, ok, limit=60)
    api_cases(ctx)
    boundary_valid(ctx, suite="search.boundary_valid")


def replay(ctx, payload):
    inp = payload.get("input") or {}
    if "cls" in inp and "variants" in inp:
        print(case(ctx, inp["cls"], inp["variants"], "replay"))
    elif "cls" in inp:
        try:
            models.build(ctx.fp, inp)
            print("constructed")
        except Exception as e:
            print(type(e).__name__, e)
