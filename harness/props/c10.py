"""C10 — constraints, ignored elements and extra start/end nodes behave as documented.

Proof: FP/Props/C10.lean
  T1 constraint_honoured(+_length,_route): rows 7a/7b force every subpath constraint into one decoded path;
  T2 constraint_complete: routes containing the constraints extend (by the r variables only) to a satisfying assignment;
  T3 ignore_is_row_deletion(+_kcover,_klae,_kmpe), ignored_flow_irrelevant, scale_zero_eq_ignore(+_kmpe), ignore_relaxes_*;
     for the cyclic klaecLP the corresponding statements are FALSE: ignored_flow_irrelevant_klaec_false, ignore_relaxes_klaec_false
     (concrete witnesses, replayed on the real code through known_findings.json);
  T4 augment_starts_ends (+ monotone, new_route_starts/ends_there, start_at_source_noop, end_at_sink_noop);
  T5 used_indicator_exact/complete, subset_constraint_honoured, subset_constraint_complete, subset_block_exact (cyclic: the
     feasible set of walkCore projected off the r / used_edge columns == encodeWalks-feasible and every constraint covered).
Tie: K2 LP-dump equality of the six encoders that carry the features; K2 row-difference suite (same configuration with and
without one ignored edge: the difference of the two REAL LP dumps is exactly the block `lp.edgeblock` of the Lean model).
Oracles (K5, written against the property text, on real solved models of the 12 classes + MinErrorFlow):
  (a) containment of every constraint in one returned route, greedy route of kFlowDecomp included;
  (b) brute-force optimum over exactly the constrained solutions on tiny instances; constraint monotonicity for all classes;
  (c) metamorphic ignore: flow of an ignored edge is irrelevant, scale 0 == ignore, ignoring never unsolves error/cover models;
  (d) additional starts/ends: brute-force optimum over the enlarged route set; a start that already is a source is a no-op;
  (e) MinErrorFlow: a flow that is a superposition of routes between admissible starts/ends needs no correction.
"""
import copy, importlib, itertools, json, random
from collections import Counter
from fractions import Fraction
import networkx as nx
from fpv import gen, k2, lpdump, models
from fpv.common import Infra, frac, qstr

THEOREMS = ["FP.Props.C10.constraint_honoured", "FP.Props.C10.constraint_honoured_length",
            "FP.Props.C10.constraint_honoured_route", "FP.Props.C10.constraint_complete",
            "FP.Props.C10.ignore_is_row_deletion", "FP.Props.C10.ignore_is_row_deletion_filter",
            "FP.Props.C10.ignore_inactive_noop", "FP.Props.C10.ignored_flow_irrelevant",
            "FP.Props.C10.ignore_is_row_deletion_kcover", "FP.Props.C10.ignore_relaxes_kcover",
            "FP.Props.C10.ignore_relaxes_kfd", "FP.Props.C10.ignore_is_row_deletion_klae",
            "FP.Props.C10.scale_zero_eq_ignore", "FP.Props.C10.ignore_is_row_deletion_kmpe",
            "FP.Props.C10.scale_zero_eq_ignore_kmpe", "FP.Props.C10.ignore_relaxes_klae", "FP.Props.C10.ignore_relaxes_kmpe",
            "FP.Props.C10.ignored_flow_irrelevant_klaec_false", "FP.Props.C10.ignore_relaxes_klaec_false",
            "FP.Props.C10.augment_starts_ends", "FP.Props.C10.starts_ends_monotone",
            "FP.Props.C10.new_route_starts_there", "FP.Props.C10.new_route_ends_there",
            "FP.Props.C10.start_at_source_noop", "FP.Props.C10.end_at_sink_noop",
            "FP.Props.C10.used_indicator_exact", "FP.Props.C10.used_indicator_complete",
            "FP.Props.C10.subset_constraint_honoured", "FP.Props.C10.subset_constraint_complete",
            "FP.Props.C10.subset_block_exact",
            "FP.Props.C01.pathcore_sound", "FP.Props.C01.dag_routes_valid"]
IMPORTS = ["FP.Props.C10", "FP.Props.C01"]
K2_ADAPTERS = ["kfd", "klae", "kmpe", "kcover", "kfdc", "kcoverc"]
ROWDIFF_ADAPTERS = ["kfd", "kcover", "klae"]
RULE = ("K2: random configurations per adapter (non-trivial: LP with more than 8 lines). K2.rowdiff: adapter configuration without "
        "given weights + one further non-ignored edge e; both LPs are built by the real constructor (non-trivial: e's block is "
        "non-empty and w_max is unchanged, so the exact-block comparison applies). K5: per class random small instances with "
        "constraints (contiguous or not, duplicated edges, duplicated/overlapping constraints, dyadic and non-dyadic coverage, "
        "length coverage), ignore sets, error scalings, additional starts/ends; a case is one (oracle, class, instance[, variant]); "
        "non-trivial iff the model is solved and the feature under test is present.")
MODEL_SCOPE = ("proven: T1/T2 for the DAG path core (any s-t DAG, both coverage variants, whole encodePaths), T3 for kfdLP, kcoverLP, "
               "klaeLP, kmpeLP (row deletion, relaxation, flow irrelevance for kfd, scale 0 == ignore for klae/kmpe), T4 for the "
               "augmentation, T5 soundness and completeness of the subset block of the walk core (any s-t digraph, any coverage "
               "fraction, any repetition caps); refuted on concrete witnesses: flow irrelevance and relaxation for the "
               "cyclic klaecLP. Not modelled: node "
               "origin (C11), safe lists appended to the constraints (given weights + constraints), greedy route (oracle only), Min* "
               "searches (C03/C09), MinErrorFlow encoder (oracle only).")
TRUSTED = ["HiGHS proves optimality/infeasibility correctly on the small instances used by the brute-force and metamorphic oracles",
           "brute-force enumerations are exhaustive within their stated bounds (weights 0..max f; route sets up to 5 routes)"]
ASSUMPTIONS = ["coverage fractions are the exact rational value of the float passed to the constructor; thresholds are compared with 1e-9 slack",
               "option conflicts / documented ValueErrors are skipped (C19)"]

COVS = ["1", "1", "1", "1/2", "3/4", "1/4", "7/10", "1/3", "2/3", "3/5"]
TOL = 1e-6


# ----------------------------------------------------------------------------------------------- instances

def base_instance(rng, cls, max_nodes=5):
    """like models.instance(features=False), but keeps the planted routes and never has isolated nodes"""
    cyc = models.is_cyc(cls)
    if cyc:
        nodes, edges = models.cyc_graph(rng, max_nodes=max_nodes)
    else:
        nodes, edges = gen.dag(rng, n=rng.randint(3, max_nodes), min_edges=3)
    touched = {x for e in edges for x in e}
    nodes = [v for v in nodes if v in touched]
    wint = True if cls in ("MinFlowDecompCycles", "kFlowDecompCycles") else rng.random() < 0.75
    inst = {"cls": cls, "nodes": list(nodes), "edges": [list(e) for e in edges], "origin": "edge",
            "weight_type": "int" if wint else "float", "constraints": [], "coverage": "1", "ignore": [],
            "starts": [], "ends": [], "options": {}}
    routes = []
    if cls not in models.COVER:
        if cyc:
            f, routes, ws = models.walk_flow(rng, nodes, edges)
        else:
            f, routes, ws = gen.flow_from_paths(rng, nodes, edges, wtype=int, weights=(1, 2, 3, 5))
        if not wint:
            f = {e: v * 0.5 for e, v in f.items()}
        if cls in models.ERROR and rng.random() < 0.7:
            for e in list(f):
                if rng.random() < 0.35:
                    f[e] = max(0, f[e] + rng.choice([-1, 1, 2]) * (1 if wint else 0.5))
            if all(v == 0 for v in f.values()):
                f[next(iter(f))] = 1
        inst["flow"] = [[u, v, qstr(f[(u, v)])] for (u, v) in edges]
    if cls in models.HAS_K:
        base = len(routes) if routes else 2
        inst["k"] = max(1, min(5, base + rng.choice([0, 0, 1])))
    return inst, routes


def add_constraints(rng, inst, routes):
    cls = inst["cls"]
    cyc = models.is_cyc(cls)
    nodes = inst["nodes"]; edges = [tuple(e) for e in inst["edges"]]
    if cyc:
        walks = [list(zip(w[:-1], w[1:])) for w in routes if len(w) > 1]
        cons = gen.subset_constraints_cyc(rng, edges, walks=walks, n=rng.randint(1, 2))
    else:
        cons = []
        for _ in range(rng.randint(1, 2)):
            if routes and rng.random() < 0.6:           # from a planted path: satisfiable more often
                p = rng.choice(routes); es = list(zip(p[:-1], p[1:]))
            else:
                p = gen.random_path(rng, nodes, edges); es = list(zip(p[:-1], p[1:]))
            if not es:
                continue
            if rng.random() < 0.6:
                i = rng.randrange(len(es)); j = min(len(es), i + rng.randint(1, 3)); c = es[i:j]
            else:
                m = rng.randint(1, min(3, len(es))); c = [es[t] for t in sorted(rng.sample(range(len(es)), m))]
            cons.append(list(c))
        if cons and rng.random() < 0.25:                 # duplicated edge inside a constraint
            c = rng.choice(cons); c.insert(rng.randrange(len(c) + 1), rng.choice(c))
        if cons and rng.random() < 0.2:                  # duplicated constraint
            cons.append(list(rng.choice(cons)))
        if cons and rng.random() < 0.2:                  # overlapping constraint
            c = rng.choice(cons); cons.append(list(c[: max(1, len(c) - 1)]))
    inst["constraints"] = [[list(e) for e in c] for c in cons]
    inst["coverage"] = rng.choice(COVS) if cons else "1"
    if cons and not cyc and rng.random() < 0.35:
        inst["lengths"] = [[u, v, str(rng.choice([0, 1, 2, 3, 5, 10]))] for (u, v) in edges if rng.random() < 0.8]
        if rng.random() < 0.6:
            inst["coverage"] = "1"
            inst["coverage_length"] = rng.choice(["1", "1/2", "3/4", "7/10", "1/3"])
    return inst


def c10_instance(rng, cls, constraints=None, feats=True, max_nodes=5):
    inst, routes = base_instance(rng, cls, max_nodes=max_nodes)
    edges = [tuple(e) for e in inst["edges"]]
    if constraints is True or (constraints is None and rng.random() < 0.7):
        add_constraints(rng, inst, routes)
    if feats:
        if cls in models.ERROR and rng.random() < 0.3:
            inst["scaling"] = [[u, v, rng.choice(["0", "1/4", "1/2", "1"])] for (u, v) in edges if rng.random() < 0.4]
        if cls in models.ERROR | models.COVER and rng.random() < 0.3:
            inst["ignore"] = [list(e) for e in edges if rng.random() < 0.25][:max(0, len(edges) - 1)]
        if cls not in models.FLOW_DECOMP and rng.random() < 0.3:
            inst["starts"] = rng.sample(inst["nodes"], 1)
            inst["ends"] = rng.sample(inst["nodes"], 1)
    return inst


# ----------------------------------------------------------------------------------------------- running the real code

def objective_kind(cls):
    if cls in models.ERROR:
        return "milp"          # the solver's objective value
    if cls in ("MinFlowDecomp", "MinPathCover", "MinFlowDecompCycles", "MinPathCoverCycles"):
        return "count"         # number of routes
    return None


TIME_LIMIT = 30


def outcome(fp, inst, G=None):
    """dict(status=solved/unsolved/timeout/rejected/raised <exc>, routes, obj, greedy)"""
    import time
    cls = inst["cls"]
    inst = dict(inst, solver_options=dict(inst.get("solver_options") or {}, time_limit=TIME_LIMIT))
    t0 = time.time()
    try:
        m = models.build(fp, inst, G=G)
    except ValueError as e:
        return {"status": "rejected", "msg": str(e)[:100]}
    except Infra:
        raise
    except Exception as e:
        return {"status": "raised " + type(e).__name__ + " (constructor)", "msg": str(e)[:100]}
    try:
        ok = bool(m.solve())
    except ValueError as e:
        return {"status": "rejected", "msg": str(e)[:100]}
    except SystemExit:
        return {"status": "exit() called"}
    except Infra:
        raise
    except Exception as e:
        return {"status": "raised " + type(e).__name__ + " (solve)", "msg": str(e)[:100]}
    if not ok:
        st = None
        try:
            st = m.solver.get_model_status()
        except Exception:
            pass
        if st == "kTimeLimit" or time.time() - t0 > 0.8 * TIME_LIMIT:
            return {"status": "timeout"}       # inconclusive: never judged
        return {"status": "unsolved"}
    sol = m.get_solution()
    if sol is None:
        sol = m.get_solution()
    routes = [list(r) for r in sol[models.route_key(cls)]]
    kind = objective_kind(cls)
    obj = None
    if kind == "milp":
        obj = float(m.solver.get_objective_value())
    elif kind == "count":
        obj = len(routes)
    greedy = getattr(m, "external_solution_paths", None) is not None or \
        getattr(getattr(m, "fd_model", None), "external_solution_paths", None) is not None
    return {"status": "solved", "routes": routes, "obj": obj, "greedy": greedy,
            "weights": list(sol.get("weights", []))}


def same_outcome(a, b):
    if a["status"] != b["status"]:
        return False
    if a["status"] != "solved" or a.get("obj") is None:
        return True
    return abs(a["obj"] - b["obj"]) <= TOL * max(1.0, abs(a["obj"]))


def brief(o):
    return {k: v for k, v in o.items() if k in ("status", "obj", "routes", "greedy", "msg")}


# ----------------------------------------------------------------------------------------------- (a) containment

def cov_exact(q):
    """the exact rational value of the float the constructor receives"""
    return Fraction(float(frac(q)))


def route_edges(r):
    return set(zip(r[:-1], r[1:]))


def constraint_need_best(inst, con, redges):
    """(needed amount, best amount achieved by a single route) for one constraint"""
    cyc = models.is_cyc(inst["cls"])
    con = [tuple(e) for e in con]
    cl = inst.get("coverage_length")
    lengths = {(u, v): frac(q) for u, v, q in (inst.get("lengths") or [])}
    if cyc:
        S = set(con)
        return len(S) * cov_exact(inst.get("coverage", "1")), max((len(S & re) for re in redges), default=0)
    if cl is None:
        return (len(con) * cov_exact(inst.get("coverage", "1")),
                max((sum(1 for e in con if e in re) for re in redges), default=0))
    total = sum(lengths.get(e, Fraction(1)) for e in con)
    return (total * cov_exact(cl),
            max((sum(lengths.get(e, Fraction(1)) for e in con if e in re) for re in redges), default=0))


def route_satisfies(inst, con, re):
    need, best = constraint_need_best(inst, con, [re])
    return best >= need - Fraction(1, 10 ** 9)


def contain_problems(inst, routes):
    redges = [route_edges(r) for r in routes]
    probs = []
    for j, con in enumerate(inst.get("constraints", [])):
        need, best = constraint_need_best(inst, con, redges)
        if best < need - Fraction(1, 10 ** 9):
            probs.append((j, f"constraint {j} {con}: needs {float(need):g} "
                          f"({'length' if inst.get('coverage_length') is not None else 'edges'}), the best single route contains {float(best):g}"))
    return probs


def diagnose_greedy_length_mixup(inst, routes, j):
    """does the failing constraint pass the criterion the greedy check actually evaluates (length-weighted occurrences
    against an edge-count threshold)?"""
    if inst.get("coverage_length") is not None or not inst.get("lengths"):
        return False
    con = [tuple(e) for e in inst["constraints"][j]]
    lengths = {(u, v): frac(q) for u, v, q in inst["lengths"]}
    need = len(con) * cov_exact(inst.get("coverage", "1"))
    best = max((sum(lengths.get(e, Fraction(1)) for e in con if e in route_edges(r)) for r in routes), default=0)
    return best >= need


def k5_containment(ctx, inst, suite="K5.containment"):
    cls = inst["cls"]
    o = outcome(ctx.fp, inst)
    ctx.rep.cov["oracle_evaluations"] += 1
    feats = [cls, o["status"]]
    if inst.get("constraints"):
        feats.append("constraints")
        if inst.get("coverage", "1") != "1": feats.append("coverage<1")
        if inst.get("coverage_length") is not None: feats.append("coverage_length")
        if any(len(c) != len({tuple(e) for e in c}) for c in inst["constraints"]): feats.append("dup_edge_in_constraint")
    if o.get("greedy"): feats.append("greedy_route")
    ctx.rep.count(suite, inst, nontrivial=o["status"] == "solved" and bool(inst.get("constraints")), hist=feats)
    if o["status"] != "solved":
        return o
    for j, p in contain_problems(inst, o["routes"]):
        diag = "greedy-length-mixup" if (o["greedy"] and diagnose_greedy_length_mixup(inst, o["routes"], j)) else None
        ctx.violation(f"{cls}{' [greedy route]' if o['greedy'] else ''}: {p}; returned {o['routes']}",
                      {"oracle": "containment", "inst": inst, "routes": o["routes"], "diagnosis": diag},
                      site=f"{cls}.containment" + (":greedy" if o["greedy"] else ""))
        break
    return o


# ----------------------------------------------------------------------------------------------- brute force

def all_routes(inst):
    """all routes of the user's graph from a source / declared start to a sink / declared end (as node lists)"""
    nodes = inst["nodes"]; edges = [tuple(e) for e in inst["edges"]]
    succ = {v: [] for v in nodes}; indeg = {v: 0 for v in nodes}
    for u, v in edges:
        succ[u].append(v); indeg[v] += 1
    S = [v for v in nodes if indeg[v] == 0 or v in set(inst.get("starts", []))]
    E = {v for v in nodes if not succ[v] or v in set(inst.get("ends", []))}
    out = []

    def rec(p):
        if len(out) > 400:
            return
        if p[-1] in E:
            out.append(list(p))
        for w in succ[p[-1]]:
            rec(p + [w])
    for s in S:
        rec([s])
    return out


def bf_min_fd(inst, max_size=6):
    """minimum number of paths of a decomposition (non-negative integer weights, exact on non-ignored edges) in which every
    constraint is contained in one of the paths; None if there is none with at most max_size paths"""
    edges = [tuple(e) for e in inst["edges"]]
    f = {(u, v): frac(q) for u, v, q in inst["flow"]}
    ign = {tuple(e) for e in inst.get("ignore", [])}
    act = [e for e in edges if e not in ign]
    paths = all_routes(inst)
    pes = [route_edges(p) for p in paths]
    sat = [[route_satisfies(inst, con, pe) for pe in pes] for con in inst.get("constraints", [])]

    def explains(S):
        res = {e: f[e] for e in act}

        def rec(t):
            if t == len(S):
                return all(v == 0 for v in res.values())
            pe = [e for e in pes[S[t]] if e in res]
            hi = min((res[e] for e in pe), default=0)
            w = hi
            while w >= 0:
                for e in pe: res[e] -= w
                if rec(t + 1):
                    for e in pe: res[e] += w
                    return True
                for e in pe: res[e] += w
                w -= 1
            return False
        return rec(0)

    for size in range(1, min(len(paths), max_size) + 1):
        for S in itertools.combinations(range(len(paths)), size):
            if all(any(row[p] for p in S) for row in sat) and explains(S):
                return size
    return None


def bf_min_cover(inst, max_size=5):
    edges = [tuple(e) for e in inst["edges"]]
    ign = {tuple(e) for e in inst.get("ignore", [])}
    need = {e for e in edges if e not in ign}
    routes = all_routes(inst)
    res = [route_edges(p) for p in routes]
    sat = [[route_satisfies(inst, con, re) for re in res] for con in inst.get("constraints", [])]
    if not routes:
        return None
    for size in range(1, min(len(routes), max_size) + 1):
        for S in itertools.combinations(range(len(routes)), size):
            if all(any(row[p] for p in S) for row in sat) and need <= set().union(*[res[p] for p in S]):
                return size
    return None


def bf_min_lae(inst, budget=200000):
    """min over k routes (repetition allowed) with integer weights 0..max f of the scaled absolute errors on the non-ignored
    edges, every constraint contained in one of the k routes; None if the enumeration would exceed the budget"""
    edges = [tuple(e) for e in inst["edges"]]
    f = {(u, v): frac(q) for u, v, q in inst["flow"]}
    sc = {(u, v): frac(q) for u, v, q in inst.get("scaling", []) or []}
    ign = {tuple(e) for e in inst.get("ignore", [])} | {e for e, q in sc.items() if q == 0}
    act = [e for e in edges if e not in ign]
    k = inst["k"]
    routes = all_routes(inst)
    if not routes:
        return "infeasible"
    W = int(max([f[e] for e in act], default=0))
    n_sets = 1
    for t in range(k):
        n_sets = n_sets * (len(routes) + t) // (t + 1)
    if n_sets * (W + 1) ** k > budget:
        return None
    res = [route_edges(p) for p in routes]
    sat = [[route_satisfies(inst, con, re) for re in res] for con in inst.get("constraints", [])]
    best = None
    for S in itertools.combinations_with_replacement(range(len(routes)), k):
        if not all(any(row[p] for p in S) for row in sat):
            continue
        on = [[1 if e in res[p] else 0 for e in act] for p in S]
        for ws in itertools.product(range(W + 1), repeat=k):
            tot = Fraction(0)
            for idx, e in enumerate(act):
                got = sum(w * on[t][idx] for t, w in enumerate(ws))
                tot += abs(f[e] - got) * sc.get(e, Fraction(1))
                if best is not None and tot >= best:
                    break
            else:
                if best is None or tot < best:
                    best = tot
    return "infeasible" if best is None else best


def double_diamond_instance(rng, cls):
    """s -> {a1,a2} -> m -> {b1,b2} -> t with lengths: two constraints through a1 whose edges are all long (both edges needed),
    and one constraint (s,a2),(a2,m),(m,b),(b,t) whose two short first edges are not needed for the length fraction: the path
    that satisfies it need not cover them, so a third path has to"""
    L = rng.choice([8, 10, 12])
    b = rng.choice(["b1", "b2"]); other = "b2" if b == "b1" else "b1"
    ln = {("s", "a1"): 1, ("s", "a2"): 1, ("a1", "m"): L, ("a2", "m"): 1, ("m", "b1"): L, ("m", "b2"): L,
          ("b1", "t"): 1, ("b2", "t"): 1}
    ln[(b, "t")] = L
    edges = list(ln); rng.shuffle(edges)
    nodes = sorted({x for e in edges for x in e}); rng.shuffle(nodes)
    cons = [[["a1", "m"], ["m", "b1"]], [["a1", "m"], ["m", "b2"]], [["s", "a2"], ["a2", "m"], ["m", b], [b, "t"]]]
    rng.shuffle(cons)
    inst = {"cls": cls, "nodes": nodes, "edges": [list(e) for e in edges], "origin": "edge", "weight_type": "int",
            "constraints": cons, "coverage": "1", "coverage_length": rng.choice(["4/5", "3/4"]),
            "lengths": [[u, v, str(ln[(u, v)])] for (u, v) in edges], "ignore": [], "starts": [], "ends": [], "options": {}}
    if cls in models.HAS_K:
        inst["k"] = rng.choice([2, 3])
    return inst


def tiny(inst):
    return len(inst["edges"]) <= 6 and inst.get("weight_type") == "int"


def k5_bruteforce(ctx, inst, suite="K5.bruteforce"):
    cls = inst["cls"]
    fp = ctx.fp
    o = outcome(fp, inst)
    if o["status"] not in ("solved", "unsolved"):
        ctx.rep.count(suite, inst, nontrivial=False, hist=[cls, o["status"]]); return
    if cls in ("kFlowDecomp", "MinFlowDecomp"):
        want = bf_min_fd(inst)
        k = inst.get("k")
    elif cls in ("kPathCover", "MinPathCover"):
        want = bf_min_cover(inst)
        k = inst.get("k")
    elif cls == "kLeastAbsErrors":
        want = bf_min_lae(inst)
        if want is None:
            ctx.rep.count(suite, inst, nontrivial=False, hist=[cls, "enumeration too large"]); return
        ctx.rep.cov["oracle_evaluations"] += 1
        ctx.rep.count(suite, inst, nontrivial=True, hist=[cls, o["status"]] + feat_labels(inst))
        if want == "infeasible":
            if o["status"] == "solved":
                ctx.violation(f"{cls}: solved with objective {o['obj']} although no {inst['k']} routes contain all constraints",
                              {"oracle": "bruteforce", "inst": inst, "got": brief(o), "want": "infeasible"}, site=f"{cls}.optimum")
        elif o["status"] != "solved":
            ctx.violation(f"{cls}: unsolved although {inst['k']} routes with total error {want} exist",
                          {"oracle": "bruteforce", "inst": inst, "got": brief(o), "want": str(want)}, site=f"{cls}.optimum")
        elif abs(o["obj"] - float(want)) > TOL * max(1.0, float(want)):
            ctx.violation(f"{cls}: objective {o['obj']} but the optimum over the routes that satisfy the constraints "
                          f"(starts {inst.get('starts')}, ends {inst.get('ends')}) is {want}",
                          {"oracle": "bruteforce", "inst": inst, "got": brief(o), "want": str(want)}, site=f"{cls}.optimum")
        return
    else:
        return
    ctx.rep.cov["oracle_evaluations"] += 1
    ctx.rep.count(suite, inst, nontrivial=True, hist=[cls, o["status"]] + feat_labels(inst))
    payload = {"oracle": "bruteforce", "inst": inst, "got": brief(o), "want": want}
    if cls.startswith("Min"):
        if want is None:
            if o["status"] == "solved":
                ctx.violation(f"{cls}: solved with {o['obj']} routes although no admissible solution with <= "
                              f"{'6' if 'Flow' in cls else '5'} routes exists", payload, site=f"{cls}.optimum")
        elif o["status"] != "solved":
            ctx.violation(f"{cls}: unsolved although a solution with {want} routes satisfying all constraints exists", payload,
                          site=f"{cls}.optimum")
        elif o["obj"] != want:
            ctx.violation(f"{cls}: returned {o['obj']} routes, the minimum over the solutions satisfying the constraints is {want}",
                          payload, site=f"{cls}.optimum")
    else:
        feasible = want is not None and want <= k
        if want is None and k > (6 if "Flow" in cls else 5):
            return
        if feasible and o["status"] != "solved":
            ctx.violation(f"{cls}(k={k}): unsolved although a solution with {want} <= k routes satisfying all constraints exists",
                          payload, site=f"{cls}.optimum")
        if not feasible and o["status"] == "solved":
            ctx.violation(f"{cls}(k={k}): solved although the smallest admissible solution needs {want} routes", payload,
                          site=f"{cls}.optimum")


def feat_labels(inst):
    fs = []
    if inst.get("constraints"): fs.append("constraints")
    if inst.get("constraints") and (inst.get("coverage", "1") != "1" or inst.get("coverage_length") not in (None, "1")): fs.append("coverage<1")
    if inst.get("ignore"): fs.append("ignore")
    if inst.get("scaling"): fs.append("scaling")
    if inst.get("starts") or inst.get("ends"): fs.append("starts/ends")
    return fs


def k5_constraint_monotone(ctx, inst, suite="K5.constraint_monotone"):
    """optimum over exactly the constrained solutions, metamorphic form (all classes): constraints never improve the objective;
    if the unconstrained optimum returned happens to satisfy them, they do not change it"""
    cls = inst["cls"]
    if not inst.get("constraints"):
        return
    free = dict(inst, constraints=[], coverage="1")
    free.pop("coverage_length", None)
    a = outcome(ctx.fp, free)
    b = outcome(ctx.fp, inst)
    ctx.rep.cov["oracle_evaluations"] += 1
    ctx.rep.count(suite, inst, nontrivial=a["status"] == "solved", hist=[cls, "free:" + a["status"], "constrained:" + b["status"]])
    if a["status"] not in ("solved", "unsolved") or b["status"] not in ("solved", "unsolved"):
        return
    payload = {"oracle": "constraint_monotone", "inst": inst, "free": brief(a), "constrained": brief(b)}
    if b["status"] == "solved" and a["status"] != "solved":
        ctx.violation(f"{cls}: solved with constraints, unsolved without them", payload, site=f"{cls}.constraint_monotone")
        return
    if a["status"] != "solved":
        return
    free_ok = not contain_problems(inst, a["routes"])
    if b["status"] == "solved" and a["obj"] is not None and b["obj"] < a["obj"] - TOL * max(1.0, abs(a["obj"])):
        ctx.violation(f"{cls}: objective {b['obj']} with constraints is better than {a['obj']} without", payload,
                      site=f"{cls}.constraint_monotone")
    if free_ok:
        if b["status"] != "solved":
            what = f"{cls}: the solution found without constraints satisfies every constraint, yet the constrained model is unsolved"
            # diagnosis: is the MILP feasible after all (HiGHS with presolve switched off)?
            try:
                c = outcome(ctx.fp, dict(inst, solver_options={"time_limit": 60, "presolve": "off"}))
                if c["status"] == "solved":
                    payload["presolve_off"] = brief(c)
                    # the repetition caps are floored since fix fcfd0b0 (former finding
                    # C10-highs-presolve-false-infeasible-fractional-cap): look at the caps the model really has
                    caps = caps_of(ctx.fp, inst, k=inst.get("k")) if models.is_cyc(cls) else None
                    frac_caps = bool(caps) and any(c != int(c) for c in caps.values())
                    what += (" - explained by HiGHS presolve: with presolve off the same model is solved"
                             + (" (an integer column has a fractional upper bound: the repetition cap is a float flow value)"
                                if frac_caps else ""))
            except Exception:
                pass
            ctx.violation(what, payload, site=f"{cls}.constraint_monotone")
        elif a["obj"] is not None and abs(a["obj"] - b["obj"]) > TOL * max(1.0, abs(a["obj"])):
            ctx.violation(f"{cls}: the unconstrained optimum ({a['obj']}) satisfies every constraint but the constrained objective is {b['obj']}",
                          payload, site=f"{cls}.constraint_monotone")


# ----------------------------------------------------------------------------------------------- (c) ignoring

def accepts(fp, cls, param):
    import inspect
    return param in inspect.signature(getattr(fp, cls).__init__).parameters


def caps_of(fp, inst, k=None):
    """diagnostic only: the per-edge repetition caps a walk model derived (None for DAG models); for the Min* wrappers the
    caps of the k-model they would build for `k`"""
    try:
        twin = {"MinFlowDecompCycles": "kFlowDecompCycles", "MinPathCoverCycles": "kPathCoverCycles"}.get(inst["cls"])
        if twin:
            inst = dict(inst, cls=twin, k=k or 1)
        m = models.build(fp, inst)
        b = getattr(m, "edge_upper_bounds", None)
        return None if b is None else {str(k): float(v) for k, v in b.items() if "source" not in str(k) and "sink" not in str(k)}
    except Exception:
        return None


def ignore_flow_case(ctx, inst, v, variant, suite, base=None):
    """the flow value of an ignored edge is irrelevant: `v` is `inst` with changed / dropped flow on ignored edges"""
    cls = inst["cls"]; fp = ctx.fp
    base = base or outcome(fp, inst)
    if base["status"] not in ("solved", "unsolved"):
        return
    o = outcome(fp, v)
    ctx.rep.cov["oracle_evaluations"] += 1
    ctx.rep.count(suite, [inst, variant, v.get("flow")], nontrivial=base["status"] == "solved",
                  hist=[cls, "ignored_flow_" + variant, o["status"]])
    if o["status"] == "timeout" or same_outcome(base, o):
        return
    diag = None
    if models.is_cyc(cls):
        kk = len(base["routes"]) if base["status"] == "solved" else inst.get("k")
        if caps_of(fp, inst, kk) != caps_of(fp, v, kk):
            diag = "repetition-cap-depends-on-ignored-flow"
    ctx.violation(f"{cls}: flow of the ignored edges {inst.get('ignore')} {variant}: outcome {brief(o)} instead of {brief(base)}",
                  {"oracle": "ignore", "variant": "flow_" + variant, "inst": inst, "changed": v, "base": brief(base), "got": brief(o),
                   "diagnosis": diag}, site=f"{cls}.ignored_flow_{variant}")


def scale0_case(ctx, inst, e, suite):
    cls = inst["cls"]; fp = ctx.fp
    e = tuple(e)
    ign = [tuple(x) for x in inst.get("ignore", [])]
    sc = [x for x in (inst.get("scaling") or []) if (x[0], x[1]) != e]
    v1 = dict(copy.deepcopy(inst), scaling=sc + [[e[0], e[1], "0"]])
    v2 = dict(copy.deepcopy(inst), scaling=sc, ignore=[list(x) for x in ign] + [list(e)])
    o1, o2 = outcome(fp, v1), outcome(fp, v2)
    ctx.rep.cov["oracle_evaluations"] += 1
    ctx.rep.count(suite, [inst, "scale0", e], nontrivial=o1["status"] == "solved", hist=[cls, "scale0_vs_ignore", o1["status"]])
    if "timeout" in (o1["status"], o2["status"]):
        return
    if not same_outcome(o1, o2):
        ctx.violation(f"{cls}: error_scaling[{e}]=0 gives {brief(o1)}, elements_to_ignore=[{e}] gives {brief(o2)}",
                      {"oracle": "ignore", "variant": "scale0", "inst": inst, "edge": list(e), "scale0": brief(o1), "ignored": brief(o2)},
                      site=f"{cls}.scale0_vs_ignore")
        return
    # the whole dead set at once: every ignored edge (and e) expressed through scale 0 only, against all of them ignored
    dead = list(dict.fromkeys(ign + [e] + [(x[0], x[1]) for x in sc if frac(x[2]) == 0]))
    live_sc = [x for x in sc if frac(x[2]) != 0]
    v3 = dict(copy.deepcopy(inst), scaling=live_sc + [[a, b, "0"] for a, b in dead], ignore=[])
    v4 = dict(copy.deepcopy(inst), scaling=live_sc, ignore=[list(x) for x in dead])
    o3, o4 = outcome(fp, v3), outcome(fp, v4)
    ctx.rep.cov["oracle_evaluations"] += 1
    ctx.rep.count(suite, [inst, "scale0_all", e], nontrivial=o3["status"] == "solved", hist=[cls, "scale0_all_vs_ignore_all", o3["status"]])
    if "timeout" not in (o3["status"], o4["status"]) and not same_outcome(o3, o4):
        ctx.violation(f"{cls}: error_scaling=0 on {dead} gives {brief(o3)}, elements_to_ignore={dead} gives {brief(o4)}",
                      {"oracle": "ignore", "variant": "scale0", "inst": inst, "edge": list(e), "dead": [list(x) for x in dead],
                       "scale0": brief(o3), "ignored": brief(o4)}, site=f"{cls}.scale0_vs_ignore")


def one_more_case(ctx, inst, e, suite, base=None):
    cls = inst["cls"]; fp = ctx.fp
    e = tuple(e)
    base = base or outcome(fp, inst)
    if base["status"] != "solved":
        return
    ign = [tuple(x) for x in inst.get("ignore", [])]
    v = dict(copy.deepcopy(inst), ignore=[list(x) for x in ign] + [list(e)])
    dead = set(ign) | {e} | {(x[0], x[1]) for x in (inst.get("scaling") or []) if frac(x[2]) == 0}
    all_dead = all(tuple(x) in dead for x in inst["edges"])
    fl = {(a, b): frac(q) for a, b, q in inst.get("flow", [])}
    before = max([fl.get(tuple(x), Fraction(0)) for x in inst["edges"] if tuple(x) not in dead - {e}], default=Fraction(0))
    after = max([fl.get(tuple(x), Fraction(0)) for x in inst["edges"] if tuple(x) not in dead], default=Fraction(0))
    wmax_drops = after < before          # diagnostic: the weight bound k*max(flow over non-ignored edges) shrinks
    o = outcome(fp, v)
    ctx.rep.cov["oracle_evaluations"] += 1
    ctx.rep.count(suite, [inst, "one_more", e], nontrivial=True,
                  hist=[cls, "ignore_one_more", o["status"]] + (["all_edges_ignored"] if all_dead else []))
    payload = {"oracle": "ignore", "variant": "one_more", "inst": inst, "edge": list(e), "base": brief(base), "got": brief(o),
               "all_dead": all_dead, "wmax_drops": wmax_drops, "wmax_after": str(after)}
    if o["status"] in ("timeout", "rejected"):   # inconclusive / documented ValueError (e.g. every edge ignored): C19's business
        return
    if o["status"] != "solved":
        ctx.violation(f"{cls}: solved, but {o['status']} after additionally ignoring {e}"
                      + (" (now every edge is ignored)" if all_dead else ""), payload, site=f"{cls}.ignore_one_more")
    elif base["obj"] is not None and o["obj"] > base["obj"] + TOL * max(1.0, abs(base["obj"])):
        ctx.violation(f"{cls}: objective rises from {base['obj']} to {o['obj']} after additionally ignoring {e}", payload,
                      site=f"{cls}.ignore_one_more")


def k5_ignore(ctx, inst, suite="K5.ignore"):
    cls = inst["cls"]
    fp = ctx.fp
    rng = ctx.rng
    if not accepts(fp, cls, "elements_to_ignore"):
        return
    edges = [tuple(e) for e in inst["edges"]]
    ign = [tuple(e) for e in inst.get("ignore", [])]
    base = outcome(fp, inst)
    if base["status"] not in ("solved", "unsolved"):
        ctx.rep.count(suite, [inst, "base"], nontrivial=False, hist=[cls, base["status"]]); return
    # 1. the flow value of an ignored edge is irrelevant (changed arbitrarily / attribute dropped)
    if ign and "flow" in inst:
        v = copy.deepcopy(inst)
        v["flow"] = [[a, b, (qstr(frac(q) + rng.choice([1, 2, 7, 40])) if (a, b) in ign else q)] for a, b, q in inst["flow"]]
        ignore_flow_case(ctx, inst, v, "changed", suite, base)
        v = copy.deepcopy(inst)
        v["flow"] = [[a, b, q] for a, b, q in inst["flow"] if (a, b) not in ign]
        ignore_flow_case(ctx, inst, v, "dropped", suite, base)
    cand = [e for e in edges if e not in ign]
    # 2. error scale 0 == ignore
    if cls in models.ERROR and cand:
        e0 = rng.choice(cand)
        scale0_case(ctx, inst, e0, suite)
        if models.is_cyc(cls):
            # ... also when the class is told which edges to trust for its safety optimisation (explicitly, or by a
            # percentile of the values): an edge of scale 0 must drop out of that set exactly as an ignored one does
            extra = {"trusted_edges_for_safety": [list(e0)] + [list(x) for x in cand if rng.random() < 0.3]} \
                if rng.random() < 0.5 else {"trusted_edges_for_safety_percentile": rng.choice([0, 25, 50])}
            scale0_case(ctx, dict(inst, ctor_extra=extra), e0, suite)
    # 3. ignoring one more edge never unsolves an error / cover model and never worsens the objective
    if cls in models.ERROR | models.COVER and cand:
        one_more_case(ctx, inst, rng.choice(cand), suite, base)


# ----------------------------------------------------------------------------------------------- (d) starts / ends

def starts_case(ctx, inst, v, variant, suite, base=None):
    """`v` is `inst` with more additional starts/ends; variant noop: they already are sources/sinks"""
    cls = inst["cls"]; fp = ctx.fp
    base = base or outcome(fp, inst)
    if base["status"] not in ("solved", "unsolved"):
        return
    o = outcome(fp, v)
    ctx.rep.cov["oracle_evaluations"] += 1
    ctx.rep.count(suite, [inst, variant, v["starts"], v["ends"]], nontrivial=base["status"] == "solved",
                  hist=[cls, "source_as_start" if variant == "noop" else "one_more_start_end", o["status"]])
    if o["status"] in ("rejected", "timeout"):   # the class does not accept starts/ends in this mode (documented ValueError)
        return
    payload = {"oracle": "starts", "variant": variant, "inst": inst, "changed": v, "base": brief(base), "got": brief(o)}
    if variant == "noop":
        if not same_outcome(base, o):
            ctx.violation(f"{cls}: declaring source/sink nodes as additional start/end ({v['starts']}, {v['ends']}) changes the outcome "
                          f"from {brief(base)} to {brief(o)}", payload, site=f"{cls}.source_as_start")
        return
    if base["status"] == "solved" and o["status"] != "solved":
        ctx.violation(f"{cls}: solved, but {o['status']} with additional starts {v['starts']} / ends {v['ends']}", payload,
                      site=f"{cls}.more_starts_ends")
    elif base["status"] == "solved" and base["obj"] is not None and o["obj"] > base["obj"] + TOL * max(1.0, abs(base["obj"])):
        ctx.violation(f"{cls}: objective rises from {base['obj']} to {o['obj']} with additional starts {v['starts']} / ends {v['ends']}",
                      payload, site=f"{cls}.more_starts_ends")
    if o["status"] == "solved":
        for r in o["routes"]:
            pr = models.route_problems(v, r, not models.is_cyc(cls)) if r else []
            if pr:
                ctx.violation(f"{cls}: route {r}: {pr[0]}", payload, site=f"{cls}.route_validity")
                break


def k5_starts(ctx, inst, suite="K5.starts_ends"):
    cls = inst["cls"]
    fp = ctx.fp
    if not accepts(fp, cls, "additional_starts") or cls in ("MinFlowDecomp",):
        return
    nodes = inst["nodes"]; edges = [tuple(e) for e in inst["edges"]]
    indeg = {v: 0 for v in nodes}; outdeg = {v: 0 for v in nodes}
    for u, v in edges:
        outdeg[u] += 1; indeg[v] += 1
    base = outcome(fp, inst)
    if base["status"] not in ("solved", "unsolved"):
        ctx.rep.count(suite, [inst, "base"], nontrivial=False, hist=[cls, base["status"]]); return
    srcs = [v for v in nodes if indeg[v] == 0]; snks = [v for v in nodes if outdeg[v] == 0]
    if srcs and snks:
        v = dict(copy.deepcopy(inst), starts=list(inst.get("starts", [])) + [ctx.rng.choice(srcs)],
                 ends=list(inst.get("ends", [])) + [ctx.rng.choice(snks)])
        starts_case(ctx, inst, v, "noop", suite, base)
    if cls not in models.FLOW_DECOMP:
        v = dict(copy.deepcopy(inst), starts=list(inst.get("starts", [])) + [ctx.rng.choice(nodes)],
                 ends=list(inst.get("ends", [])) + [ctx.rng.choice(nodes)])
        starts_case(ctx, inst, v, "more", suite, base)


# ----------------------------------------------------------------------------------------------- (e) MinErrorFlow

def k5_minerrorflow(ctx, rng, suite="K5.minerrorflow"):
    fp = ctx.fp
    cyc = rng.random() < 0.6
    if cyc:
        nodes, edges, starts, ends, tags = gen.digraph_cyc(rng, max_nodes=5)
        if not (starts or ends):
            starts = [rng.choice(nodes)]
    else:
        nodes, edges = gen.dag(rng, n=rng.randint(3, 5), min_edges=3)
        touched = {x for e in edges for x in e}
        nodes = [v for v in nodes if v in touched]
        starts, ends = [rng.choice(nodes)], [rng.choice(nodes)]
    f, walks, ws = gen.walk_flow_cyc(rng, nodes, edges, starts, ends)
    if not walks:
        return
    G = nx.DiGraph(); G.add_nodes_from(nodes)
    for (u, v) in edges:
        G.add_edge(u, v, flow=int(f[(u, v)]))
    inp = {"oracle": "minerrorflow", "nodes": nodes, "edges": [[u, v, int(f[(u, v)])] for (u, v) in edges],
           "starts": starts, "ends": ends, "cyclic": not nx.is_directed_acyclic_graph(G)}
    minerrorflow_case(ctx, inp, suite)


def minerrorflow_case(ctx, inp, suite="K5.minerrorflow"):
    fp = ctx.fp
    G = nx.DiGraph(); G.add_nodes_from(inp["nodes"])
    for u, v, q in inp["edges"]:
        G.add_edge(u, v, flow=q)
    try:
        m = fp.MinErrorFlow(G, flow_attr="flow", weight_type=int, additional_starts=list(inp["starts"]),
                            additional_ends=list(inp["ends"]))
        m.solve()
        sol = m.get_solution() if m.is_solved() else None
    except Exception as e:
        ctx.rep.count(suite, inp, nontrivial=False, hist=["MinErrorFlow", "raised " + type(e).__name__])
        ctx.violation(f"MinErrorFlow with additional starts {inp['starts']} / ends {inp['ends']} raised {type(e).__name__}: {str(e)[:80]}",
                      dict(inp, raised=type(e).__name__), site="MinErrorFlow.starts_ends")
        return
    ctx.rep.cov["oracle_evaluations"] += 1
    ctx.rep.count(suite, inp, nontrivial=sol is not None, hist=["MinErrorFlow", "cyclic" if inp["cyclic"] else "dag",
                                                                 "solved" if sol else "unsolved"])
    if sol is None:
        ctx.violation("MinErrorFlow unsolved on a flow that is a superposition of admissible routes", inp, site="MinErrorFlow.starts_ends")
    elif abs(sol["error"]) > TOL:
        ctx.violation(f"MinErrorFlow ({'cyclic' if inp['cyclic'] else 'acyclic'} input): the flow is a superposition of walks from "
                      f"sources/additional starts {inp['starts']} to sinks/additional ends {inp['ends']}, yet it is 'corrected' with error {sol['error']}",
                      dict(inp, error=sol["error"]), site="MinErrorFlow.starts_ends")


# ----------------------------------------------------------------------------------------------- K2 row difference

def wmax_unchanged(name, cfg, e):
    f = {(u, v): frac(q) for u, v, q in cfg.get("flow", [])}
    dead = {tuple(x) for x in cfg["ignore"]} | {(u, v) for u, v, q in cfg.get("scaling", []) if frac(q) == 0}
    act = [tuple(x) for x in cfg["edges"] if tuple(x) not in dead]
    if name == "kcover":
        return True
    a = [f.get(x, Fraction(0)) for x in act]
    b = [f.get(x, Fraction(0)) for x in act if x != tuple(e)]
    if not b:
        return False
    if name == "klae" and cfg["weight_type"] == "int":
        return int(max(a)) == int(max(b))
    return max(a) == max(b)


def split_dump(lines):
    return Counter(l for l in lines if not l.startswith("obj")), [l for l in lines if l.startswith("obj")]


def obj_terms(line):
    parts = line.split(" ")[3:]
    return {t.split("*", 1)[1]: Fraction(t.split("*", 1)[0]) for t in parts if t}


def rowdiff(ctx, name, n):
    mod = importlib.import_module("enc." + name)
    suite = f"K2.rowdiff.{name}"
    done = tries = 0
    while done < n and tries < 8 * n:
        tries += 1
        cfg = mod.gen_cfg(ctx.rng)
        cfg["given_weights"] = None
        dead = {tuple(x) for x in cfg["ignore"]} | {(u, v) for u, v, q in cfg.get("scaling", []) if frac(q) == 0}
        have_flow = {(u, v) for u, v, q in cfg.get("flow", [])} if name != "kcover" else None
        cand = [x for x in cfg["edges"] if tuple(x) not in dead]
        if len(cand) < 2:
            continue
        e = ctx.rng.choice(cand)
        cfgB = copy.deepcopy(cfg); cfgB["ignore"] = cfg["ignore"] + [list(e)]
        try:
            mA = mod.build_real(ctx.fp, cfg); mB = mod.build_real(ctx.fp, cfgB)
        except Infra:
            raise
        except Exception as ex:
            key = "ctor " + type(ex).__name__
            h = ctx.rep.suite(suite)["histogram"]; h[key] = h.get(key, 0) + 1
            continue
        for m in (mA, mB):
            m.solver._apply_pending_bound_updates()
        A = lpdump.from_highs(mA.solver.solver); B = lpdump.from_highs(mB.solver.solver)
        LA = lpdump.from_driver(ctx.driver.call(mod.to_request(cfg)))
        LB = lpdump.from_driver(ctx.driver.call(mod.to_request(cfgB)))
        same_w = wmax_unchanged(name, cfg, e)
        done += 1
        ctx.rep.cov["traces_validated_against_impl"] += 2
        ctx.rep.count(suite, [cfg, e], nontrivial=same_w, hist=[name, "w_max unchanged" if same_w else "w_max changed"])
        inp = {"adapter": name, "cfg": cfg, "edge": e}
        if A != LA or B != LB:
            ctx.disagree(suite, inp, {"without": lpdump.diff(A, LA), "with": lpdump.diff(B, LB)}, None,
                         note="LP of the real constructor differs from the Lean generator")
            continue
        cA, oA = split_dump(A); cB, oB = split_dump(B)
        gone, new = cA - cB, cB - cA
        # property-level reading of the difference: only things that belong to e disappear, nothing appears
        tag = f"('{e[0]}','{e[1]}'"
        if same_w:
            ctx.rep.cov["oracle_evaluations"] += 1
            foreign = [l for l in gone.elements() if tag not in l]
            if new or foreign:
                ctx.violation(f"{name}: ignoring {e} (w_max unchanged) changes the LP beyond the edge's own rows: "
                              f"{len(new)} new lines, foreign removed lines {foreign[:3]}",
                              {"oracle": "rowdiff", **inp, "new": sorted(new.elements())[:6], "foreign": foreign[:6]},
                              site=f"{name}.ignore_row_deletion")
            req = dict(mod.to_request(cfg), op="lp.edgeblock", edge=list(e))
            req["class"] = name
            blk, _ = split_dump(lpdump.from_driver(ctx.driver.call(req)))
            if gone != blk or new:
                ctx.disagree(suite, inp, {"removed_by_real_code": sorted(gone.elements())[:8], "n_removed": sum(gone.values()),
                                          "new_in_real_code": sorted(new.elements())[:4]},
                             {"block_of_the_theorem": sorted(blk.elements())[:8], "n_block": sum(blk.values())},
                             note="difference of the real LP dumps is not the edge block of ignore_is_row_deletion")
            if name == "klae":
                ta, tb = obj_terms(oA[0]), obj_terms(oB[0])
                lost = {k: v for k, v in ta.items() if tb.get(k) != v}
                if set(tb) - set(ta) or any(tag not in k for k in lost):
                    ctx.disagree(suite, inp, {"objective_without": oA, "objective_with": oB}, None,
                                 note="objective changed beyond the ignored edge's error term")
        else:
            # weaker: the two differences agree with the model's (already implied by the dump equalities above)
            pass


# ----------------------------------------------------------------------------------------------- life cycle

def run(ctx):
    rng = ctx.rng
    k2.run_k2(ctx, K2_ADAPTERS, ctx.n(25, 250))
    for name in ROWDIFF_ADAPTERS:
        rowdiff(ctx, name, ctx.n(40, 400))
    sampled = False
    # (a) containment, all 12 classes, greedy forced on/off for the DAG flow decompositions
    per = ctx.n(10, 70)
    for cls in models.ALL_CLASSES:
        for it in range(per):
            inst = c10_instance(rng, cls, constraints=True)
            if cls in ("kFlowDecomp", "MinFlowDecomp"):
                inst["options"] = {"optimize_with_greedy": it % 2 == 0}
            o = k5_containment(ctx, inst)
            if not sampled and o and o["status"] == "solved":
                ctx.rep.sample({"suite": "K5.containment", "instance": inst, "routes": o["routes"]}); sampled = True
    for cls in ("kFlowDecomp", "MinFlowDecomp"):
        for it in range(ctx.n(15, 150)):
            k5_containment(ctx, greedy_length_instance(rng, cls), suite="K5.containment.greedy_lengths")
    # (b) brute force on tiny instances + constraint monotonicity everywhere
    for cls in ("kFlowDecomp", "MinFlowDecomp", "kPathCover", "MinPathCover", "kLeastAbsErrors"):
        for it in range(ctx.n(12, 100)):
            inst = c10_instance(rng, cls, constraints=rng.random() < 0.8, feats=cls not in ("kFlowDecomp", "MinFlowDecomp"), max_nodes=4)
            inst.pop("scaling", None)
            if cls in ("kFlowDecomp", "MinFlowDecomp"):
                inst["options"] = {"optimize_with_greedy": rng.random() < 0.5}
            if not tiny(inst):
                inst["weight_type"] = "int"
                if "flow" in inst and any(frac(x[2]).denominator != 1 for x in inst["flow"]):
                    continue
            k5_bruteforce(ctx, inst)
    for cls in ("kPathCover", "MinPathCover"):
        for it in range(ctx.n(2, 12)):
            k5_bruteforce(ctx, double_diamond_instance(rng, cls), suite="K5.bruteforce.length_coverage")
    for cls in models.ALL_CLASSES:
        for it in range(ctx.n(4, 40)):
            k5_constraint_monotone(ctx, c10_instance(rng, cls, constraints=True))
    # (c) ignoring
    for cls in models.ALL_CLASSES:
        for it in range(ctx.n(5, 40)):
            inst = c10_instance(rng, cls, constraints=rng.random() < 0.3, feats=True)
            if not inst.get("ignore"):
                es = [tuple(e) for e in inst["edges"]]
                inst["ignore"] = [list(e) for e in rng.sample(es, 1)] if len(es) > 1 else []
            k5_ignore(ctx, inst)
    # ... a side route of large values that is to be left out of the account: with the class choosing the edges it trusts
    # by a percentile of the values, the neutralised route must not be among them (k is tight: one walk)
    for cls in ("kLeastAbsErrorsCycles", "kMinPathErrorCycles"):
        for it in range(ctx.n(4, 20)):
            x, big = rng.choice([5, 10]), rng.choice([40, 50])
            fl = {("s", "a"): x, ("a", "b"): 2 * x, ("b", "a"): x, ("b", "t"): x, ("b", "j"): big, ("j", "t"): big}
            edges = list(fl); rng.shuffle(edges)
            nodes = sorted({n for e in edges for n in e}); rng.shuffle(nodes)
            inst = {"cls": cls, "nodes": nodes, "edges": [list(e) for e in edges], "origin": "edge", "weight_type": "int",
                    "constraints": [], "coverage": "1", "ignore": [["j", "t"]], "starts": [], "ends": [], "options": {},
                    "flow": [[u, v, str(fl[(u, v)])] for u, v in edges], "k": 1,
                    "ctor_extra": {"trusted_edges_for_safety_percentile": rng.choice([50, 60])}}
            scale0_case(ctx, inst, ("b", "j"), "K5.ignore.junk_route")
    # (d) starts / ends
    for cls in models.ALL_CLASSES:
        for it in range(ctx.n(4, 40)):
            k5_starts(ctx, c10_instance(rng, cls, constraints=rng.random() < 0.3, feats=True))
    # MinFlowDecomp / MinFlowDecompCycles take additional starts / ends in node mode only: declaring a node that already is a
    # source (sink) must change nothing
    for cls in ("MinFlowDecomp", "MinFlowDecompCycles"):
        for it in range(ctx.n(3, 20)):
            inst = models.node_instance(rng, cls)
            inst["starts"], inst["ends"] = [], []
            es = [tuple(e) for e in inst["edges"]]
            srcs = [v for v in inst["nodes"] if not any(b == v for a, b in es)]
            snks = [v for v in inst["nodes"] if not any(a == v for a, b in es)]
            if not srcs or not snks:
                continue
            if it % 2:
                starts_node_min_case(ctx, inst, [rng.choice(srcs)], [])
            else:
                starts_node_min_case(ctx, inst, [], [rng.choice(snks)])
    # (e) MinErrorFlow
    for it in range(ctx.n(25, 200)):
        k5_minerrorflow(ctx, rng)


def greedy_length_instance(rng, cls):
    """DAG flow decomposition, greedy forced, length attribute present, edge-count coverage"""
    inst, routes = base_instance(rng, cls, max_nodes=6)
    add_constraints(rng, inst, routes)
    edges = [tuple(e) for e in inst["edges"]]
    inst["lengths"] = [[u, v, str(rng.choice([1, 2, 5, 10, 20]))] for (u, v) in edges if rng.random() < 0.9]
    inst.pop("coverage_length", None)
    inst["coverage"] = rng.choice(["1", "1", "3/4", "1/2"])
    if rng.random() < 0.6 and len(edges) >= 2:          # a non-contiguous pair: often in no single greedy path
        inst["constraints"] = inst["constraints"] + [[list(e) for e in sorted(rng.sample(edges, 2))]]
    inst["options"] = {"optimize_with_greedy": True}
    return inst


def starts_node_min_case(ctx, inst, starts, ends, suite="K5.starts_ends.node_mode_min"):
    cls = inst["cls"]
    base = outcome(ctx.fp, inst)
    var = dict(copy.deepcopy(inst), starts=list(starts), ends=list(ends))
    got = outcome(ctx.fp, var)
    ctx.rep.cov["oracle_evaluations"] += 1
    ctx.rep.count(suite, [inst, starts, ends], nontrivial=base["status"] == "solved", hist=[cls, base["status"], got["status"]])
    if "timeout" in (base["status"], got["status"]):
        return
    if not same_outcome(base, got):
        ctx.violation(f"{cls} (node-weighted): declaring the source/sink {starts or ends} as additional start/end "
                      f"changes the result from {brief(base)} to {brief(got)}" + (f" ({got.get('msg')})" if got.get("msg") else ""),
                      {"oracle": "starts_node_min", "inst": inst, "starts": list(starts), "ends": list(ends),
                       "base": brief(base), "got": brief(got), "msg": got.get("msg")}, site=f"{cls}.node_mode_starts_ends")


def finding_case(ctx, inp):
    orc = inp.get("oracle")
    suite = "known-findings"
    if orc == "starts_node_min":
        starts_node_min_case(ctx, inp["inst"], inp.get("starts", []), inp.get("ends", []), suite=suite)
        return
    if orc == "containment":
        k5_containment(ctx, inp["inst"], suite=suite)
    elif orc == "minerrorflow":
        minerrorflow_case(ctx, inp, suite=suite)
    elif orc == "bruteforce":
        k5_bruteforce(ctx, inp["inst"], suite=suite)
    elif orc == "constraint_monotone":
        k5_constraint_monotone(ctx, inp["inst"], suite=suite)
    elif orc == "ignore":
        if inp.get("variant", "").startswith("flow_"):
            ignore_flow_case(ctx, inp["inst"], inp["changed"], inp["variant"][5:], suite)
        elif inp.get("variant") == "scale0":
            scale0_case(ctx, inp["inst"], inp["edge"], suite)
        elif inp.get("variant") == "one_more":
            one_more_case(ctx, inp["inst"], inp["edge"], suite)
        else:
            k5_ignore(ctx, inp["inst"], suite=suite)
    elif orc == "starts":
        if "changed" in inp:
            starts_case(ctx, inp["inst"], inp["changed"], inp.get("variant", "more"), suite)
        else:
            k5_starts(ctx, inp["inst"], suite=suite)


def search(ctx):
    rng = random.Random(1010)
    for cls in models.ALL_CLASSES:
        for it in range(12):
            inst = c10_instance(rng, cls, constraints=True)
            k5_containment(ctx, inst, suite="search.containment")
            k5_constraint_monotone(ctx, inst, suite="search.constraint_monotone")
    for cls in ("kFlowDecomp", "MinFlowDecomp", "kPathCover", "MinPathCover"):
        for it in range(20):
            inst = c10_instance(rng, cls, constraints=True, feats=cls.endswith("Cover"), max_nodes=4)
            if tiny(inst):
                k5_bruteforce(ctx, inst, suite="search.bruteforce")


def replay(ctx, payload):
    inp = payload.get("input") or {}
    finding_case(ctx, inp)
    for v in ctx.violations:
        print("  reproduced:", v["what"][:300])
