"""C04 — MinFlowDecompCycles finds a decomposition into the fewest walks.

Proof: FP/Props/C04.lean — `kfdc_exact` (every satisfying assignment of the kFlowDecompCycles LP decodes to walks and
weights explaining every non-ignored edge exactly, multiplicities within the caps), `kfdc_complete` (every cap-respecting
decomposition with connectivity witnesses extends to a satisfying assignment, natural or fractional w_max; every walk has such
witnesses), `cap_adequate_int` / `cap_adequate_floor` + `nonScc_once` + `within_of_int` (families with weights >= 1 meet all caps by themselves;
the caps of SCC edges are the floors of the flow values since fix fcfd0b0, integers: `kfdc_cap_int`),
`scale_law_counterexample` (the cap is not scale invariant: the self-loop instance is satisfiable with flows 1 and
unsatisfiable for every k with flows 1/2: the loop's cap is floor(1/2) = 0, `scale_law_cap_violated`),
`mfdc_search_minimal` / `mfdc_search_finds` / `mfdc_minimum_int` (the timed search machine of C13 with a faithful status
script returns the least feasible k; no decomposition with weights >= 1 has fewer walks),
`search_range_adequate` / `search_range_adequate_float` / `mfdc_search_complete_plain` (the range k <= |E| contains the minimum
for plain integer instances and for float instances without subset constraints), `search_range_counterexample` /
`search_range_not_adequate` (with subset constraints the OLD range k <= |E| did not: 5 edges, 6 constraints, minimum 6 walks, the
old solve() -> False; reason for fix 26b11a1), `search_range_witness_solved` / `search_range_adequate_constraints(_float)` /
`mfdc_search_complete_constraints(_float)` (the repaired range k <= |E| + #constraints contains the minimum).
Tie: K2 LP-dump equality of kFlowDecompCycles (`enc/kfdc.py`); K3 fault-injected traces of the real MinFlowDecompCycles
loop against the timed Lean machine (machinery of props/c13.py); K1 `kfdc.witness`: for brute-force optimal decompositions
the Lean side builds the assignment of `kfdc_complete` and checks every row and column of `kfdcLP`.
K5 oracles (written against the property text, no model knowledge): brute-force minimum walk decomposition of small
digraphs, exactness of the returned decomposition in Fractions, subset constraints, lower bound <= minimum, all option
settings, and the scale law (c*f with float weights: same status and number of walks for every c > 0).
"""
import json, random
from fractions import Fraction
from collections import Counter
import networkx as nx
from fpv import gen, models, k2
from fpv.common import frac, qstr
from props import c13

THEOREMS = ["FP.Props.C04.kfdc_exact", "FP.Props.C04.kfdc_given_weights", "FP.Props.C04.intProdQ_sound",
            "FP.Props.C04.kfdc_cap", "FP.Props.C04.kfdc_cap_int", "FP.Props.C04.kfdc_complete", "FP.Props.C04.walk_has_conn_witness",
            "FP.Props.C04.kfdc_complete_walks",
            "FP.Props.C04.satCheck_sound", "FP.Props.C04.cap_adequate_int", "FP.Props.C04.cap_adequate_floor",
            "FP.Props.C04.cap_adequate_min_weight",
            "FP.Props.C04.scale_law_counterexample",
            "FP.Props.C04.scale_law_cap_violated", "FP.Props.C04.mfdc_search_minimal",
            "FP.Props.C04.mfdc_search_finds", "FP.Props.C04.mfdc_min_walks", "FP.Props.C04.mfdc_minimum_int",
            "FP.Props.C04.nonScc_once", "FP.Props.C04.caps_are_flows", "FP.Props.C04.within_of_int",
            "FP.Props.C04.search_range_counterexample", "FP.Props.C04.search_range_not_adequate",
            "FP.Props.C04.search_range_witness_solved", "FP.Props.C04.few_walks_suffice",
            "FP.Props.C04.search_range_adequate_constraints", "FP.Props.C04.search_range_adequate_constraints_float",
            "FP.Props.C04.mfdc_search_complete_constraints", "FP.Props.C04.mfdc_search_complete_constraints_float",
            "FP.Props.C04.walks_at_most_edges",
            "FP.Props.C04.search_range_adequate", "FP.Props.C04.search_range_adequate_of_bound",
            "FP.Props.C04.mfdc_search_complete_plain", "FP.Props.C04.caratheodory",
            "FP.Props.C04.search_range_adequate_float", "FP.Props.C04.mfdc_search_complete_float",
            "FP.Props.C13.timed_sound", "FP.Props.C13.timed_complete", "FP.Props.C01.walkcore_sound",
            "FP.Props.C12.intProd_complete"]
IMPORTS = ["FP.Props.C04", "FP.Props.C13", "FP.Props.C01", "FP.Props.C12"]
K2_ADAPTERS = ["kfdc"]
RULE = ("K2: random kFlowDecompCycles configurations of enc/kfdc.py (non-trivial: LP with more than 8 lines). K5: random small "
        "digraphs with cycles (self-loops, 2-cycles, nested cycles, parallel SCC exits/entries, several sources/sinks; at most 6 "
        "edges in the quick tier, 7 in the thorough tier; every edge on a source-to-sink walk) with a positive integer flow built as "
        "a superposition of weighted walks (values at most 6 / 8); per instance the option settings default, safe sequences off, "
        "min-gen-set lower bound, guessed weights; optionally subset constraints (taken from planted walks or random edges, coverage "
        "1 or 1/2); scale factors 1/2, 2, 3, 1/4 with float weights. A case = (instance, option setting | factor). Non-trivial: the "
        "brute-force minimum is at least 2 or some optimal walk runs through an edge more than once. K3: every single "
        "solver-invocation position of the real search forced to each inconclusive status, and the clock made late at every "
        "position. T6: the fixed instance of search_range_counterexample (real solve() -> True with 6 walks since fix 26b11a1, real "
        "k-models k = 1..6, Lean witness assignment for k = 6).")
MODEL_SCOPE = ("modelled and proven: the kFlowDecompCycles LP (walk core with the three safety options off, caps - floored on SCC edges since "
               "fix fcfd0b0 -, product blocks, "
               "10d rows, given weights), the timed k-loop of MinFlowDecompCycles.solve; not modelled (covered by the K5 oracles only): "
               "stDiGraph.get_width and the min-gen-set lower bound, the safety optimisations (C05/C06), the guessed-weights shortcut, "
               "node-weighted mode (C11). "
               "The search range (T6) - `range(lower bound, |E(G)| + len(subset_constraints) + 1)` since fix 26b11a1: what it guarantees "
               "is search_range_adequate_of_bound - if SOME k-model with j < hi layers is satisfiable (lower bound valid, solver conclusive "
               "and in time on lo..j) the loop returns the least satisfiable k. That such a j <= |E| + #constraints exists whenever any "
               "k-model is satisfiable is PROVEN for (a) integer weights, edge mode (no additional starts/ends), nothing ignored, every edge "
               "with the flow attribute, no empty layers, constraint edges in the graph, some flow value >= 1 "
               "(search_range_adequate_constraints: at most |E| walks re-decompose the flow - few_walks_suffice / walks_at_most_edges - plus "
               "one covering walk of weight 0 per constraint; without constraints j <= |E| and the side conditions on empty layers and flow "
               "values are not needed: search_range_adequate) and (b) float weights, every edge with the attribute, some non-ignored flow "
               "value >= 1, ignored edges and additional starts/ends allowed (search_range_adequate_constraints_float / "
               "search_range_adequate_float: Caratheodory on the decoded walks, caps unchanged because the same walks are kept). The OLD "
               "range k <= |E| was REFUTED for inputs with subset constraints (search_range_counterexample / search_range_not_adequate: "
               "5 edges, 6 constraints, minimum 6 walks; the old solve() returned False - repaired by 26b11a1, regression: "
               "search_range_witness_solved and range_witness_case on the real code). OPEN (neither proven nor refuted): integer weights "
               "with ignored edges / additional starts and ends / edges without the attribute; float weights when all non-ignored flow "
               "values are below 1; allow_empty_walks together with subset constraints (the K5 brute-force oracle covers these on small "
               "inputs only)")
TRUSTED = ["HiGHS reports kOptimal only with an assignment satisfying the LP within its tolerance and kInfeasible only for "
           "unsatisfiable LPs (the `Faithful` hypothesis of mfdc_search_minimal), re-checked end to end by the brute-force oracle",
           "the brute-force oracle enumerates all walks by their edge-multiplicity vectors m <= f (complete for weights >= 1 by "
           "cap_adequate_int)"]
ASSUMPTIONS = ["integer weights are positive integers (a walk of weight 0 is not counted as part of a decomposition)",
               "float instances: flows c*f with dyadic c are exact in binary floating point; the number of walks is compared, "
               "weights to 1e-6 relative"]

FACTORS = ["1/2", "2", "3", "1/4"]
OPTION_SETS = [("default", {}),
               ("safe_off", {"optimize_with_safe_sequences": False}),
               ("mingenset_lb", {"use_min_gen_set_lowerbound": True}),
               ("guessed_weights", {"optimize_with_guessed_weights": True}),
               ("all_safety_off", {"optimize_with_safe_sequences": False,
                                   "optimize_with_safety_as_subset_constraints": False,
                                   "optimize_with_max_safe_antichain_as_subset_constraints": False})]


# ------------------------------------------------------------------ brute-force oracle (property text only)

def walk_vectors(nodes, edges, cap):
    """edge-multiplicity vectors (tuples indexed like `edges`) of all walks from a node without in-edges to a node
    without out-edges that run through edge j at most cap[j] times"""
    out = {v: [] for v in nodes}
    indeg = {v: 0 for v in nodes}
    for j, (u, v) in enumerate(edges):
        out[u].append(j); indeg[v] += 1
    srcs = [v for v in nodes if indeg[v] == 0 and out[v]]
    zero = tuple(0 for _ in edges)
    seen, res = set(), set()
    stack = [(s, zero) for s in srcs]
    while stack:
        v, m = stack.pop()
        if (v, m) in seen:
            continue
        seen.add((v, m))
        if not out[v]:
            res.add(m)
            continue
        for j in out[v]:
            if m[j] < cap[j]:
                stack.append((edges[j][1], m[:j] + (m[j] + 1,) + m[j + 1:]))
    return sorted(res)


def covers(m, edges, con, coverage):
    s = set(con)
    hit = sum(1 for j, e in enumerate(edges) if e in s and m[j] > 0)
    return hit >= len(s) * coverage


def min_walk_decomposition(nodes, edges, f, constraints=(), coverage=Fraction(1), kmax=None):
    """least k such that k walks with integer weights >= 0 explain f exactly and every subset constraint is covered (to the given
    fraction) by one of the walks - a walk of weight 0 explains nothing but may be what covers a constraint; returns
    (k, [(weight, vector)]) or None when there is none with k <= kmax"""
    fv = tuple(int(f[e]) for e in edges)
    vecs = walk_vectors(nodes, edges, fv)          # weights >= 1  =>  multiplicity <= flow value
    cons = [list(map(tuple, c)) for c in constraints]
    full = (1 << len(cons)) - 1
    cov = {m: sum(1 << j for j, c in enumerate(cons) if covers(m, edges, c, coverage)) for m in vecs}
    by_edge = [[m for m in vecs if m[j] > 0] for j in range(len(edges))]
    if kmax is None:
        kmax = sum(fv)
    memo = {}

    masks = sorted({c for c in cov.values() if c}, key=lambda c: -bin(c).count("1"))
    wit = {}
    for m in vecs:
        wit.setdefault(cov[m], m)
    zmemo = {}

    def zero_cover(need, k):
        """fewest (<= k) walks of weight 0 whose constraint sets cover `need` (walks within the caps: multiplicity <= flow value)"""
        if need == 0:
            return []
        if k == 0:
            return None
        key = (need, k)
        if key in zmemo:
            return zmemo[key]
        low = need & -need
        best = None
        for c in masks:
            if c & low:
                sub = zero_cover(need & ~c, k - 1)
                if sub is not None and (best is None or len(sub) + 1 < len(best)):
                    best = [(0, wit[c])] + sub
        zmemo[key] = best
        return best

    def rec(r, k, covered):
        if not any(r):
            return zero_cover(full & ~covered, k)
        if k == 0:
            return None
        key = (r, k, covered)
        if key in memo:
            return memo[key]
        j = next(i for i, x in enumerate(r) if x)
        ans = None
        for m in by_edge[j]:
            if any(a > b for a, b in zip(m, r)):
                continue
            maxw = min(b // a for a, b in zip(m, r) if a)
            for w in range(maxw, 0, -1):
                sub = rec(tuple(b - w * a for a, b in zip(m, r)), k - 1, covered | cov[m])
                if sub is not None:
                    ans = [(w, m)] + sub
                    break
            if ans is not None:
                break
        memo[key] = ans
        return ans

    for k in range(1, kmax + 1):
        sol = rec(fv, k, 0)
        if sol is not None:
            return k, sol
    return None


def vector_walk(nodes, edges, m):
    """one walk (node list) with exactly the multiplicities m (Hierholzer on the multigraph)"""
    adj = {v: [] for v in nodes}
    indeg = Counter(); outdeg = Counter()
    for j, (u, v) in enumerate(edges):
        for _ in range(m[j]):
            adj[u].append(v); outdeg[u] += 1; indeg[v] += 1
    start = [v for v in nodes if outdeg[v] - indeg[v] == 1][0]
    stack, walk = [start], []
    adj = {v: list(ws) for v, ws in adj.items()}
    while stack:
        v = stack[-1]
        if adj[v]:
            stack.append(adj[v].pop())
        else:
            walk.append(stack.pop())
    return walk[::-1]


# ------------------------------------------------------------------ instances

FIXED_SHAPES = [
    (["s", "a", "t"], [("s", "a"), ("a", "a"), ("a", "t")]),                                    # self-loop
    (["s", "a", "b", "t"], [("s", "a"), ("a", "b"), ("b", "a"), ("a", "t")]),                   # README 2-cycle
    (["s", "a", "b", "c", "t"], [("s", "a"), ("a", "b"), ("b", "c"), ("c", "a"), ("b", "a"), ("a", "t")]),   # nested cycles
    (["s", "a", "b", "t"], [("s", "a"), ("a", "b"), ("b", "a"), ("a", "t"), ("b", "t")]),       # parallel SCC exits
    (["s", "r", "a", "b", "t"], [("s", "a"), ("r", "b"), ("a", "b"), ("b", "a"), ("a", "t")]),  # parallel SCC entries, 2 sources
    (["s", "a", "t", "u"], [("s", "a"), ("a", "a"), ("a", "t"), ("a", "u")]),                   # two sinks
    (["s", "a", "b", "t"], [("s", "a"), ("a", "a"), ("a", "b"), ("b", "b"), ("b", "t")]),       # two loops in a row
    (["s", "a", "b", "t"], [("s", "a"), ("a", "b"), ("b", "a"), ("b", "b"), ("a", "t")]),       # loop inside a cycle
]


def every_edge_on_walk(nodes, edges):
    G = nx.DiGraph(); G.add_nodes_from(nodes); G.add_edges_from(edges)
    srcs = [v for v in G if G.in_degree(v) == 0]; snks = [v for v in G if G.out_degree(v) == 0]
    if not srcs or not snks or any(G.degree(v) == 0 for v in G):
        return False
    fw = set().union(*[nx.descendants(G, s) | {s} for s in srcs])
    bw = set().union(*[nx.ancestors(G, t) | {t} for t in snks])
    return all(u in fw and v in bw for u, v in G.edges())


def shape(rng, max_edges):
    r = rng.random()
    for _ in range(300):
        if r < 0.3:
            nodes, edges = rng.choice(FIXED_SHAPES)
            nodes, edges = list(nodes), list(edges)
        elif r < 0.65:
            nodes, edges = models.cyc_graph(rng, max_nodes=5)
        else:
            nodes, edges, starts, ends, tags = gen.digraph_cyc(rng, max_nodes=5, valid=False)
            if starts or ends:
                r = rng.random(); continue
        edges = [tuple(e) for e in edges]
        if len(edges) <= max_edges and every_edge_on_walk(nodes, edges):
            return list(nodes), edges
        r = rng.random()
    nodes, edges = FIXED_SHAPES[1]
    return list(nodes), list(edges)


def tags_of(nodes, edges, f):
    G = nx.DiGraph(); G.add_nodes_from(nodes); G.add_edges_from(edges)
    t = []
    if any(u == v for u, v in edges):
        t.append("self_loop")
    sccs = [c for c in nx.strongly_connected_components(G) if len(c) > 1]
    if sccs:
        t.append("scc>1")
    for c in sccs:
        exits = [(u, v) for u, v in edges if u in c and v not in c]
        entries = [(u, v) for u, v in edges if u not in c and v in c]
        if len(exits) > 1:
            t.append("parallel_scc_exits")
        if len(entries) > 1:
            t.append("parallel_scc_entries")
        sub = G.subgraph(c)
        if sub.number_of_edges() > len(c):
            t.append("nested_cycles")
    if sum(1 for v in G if G.in_degree(v) == 0) > 1:
        t.append("several_sources")
    if sum(1 for v in G if G.out_degree(v) == 0) > 1:
        t.append("several_sinks")
    return sorted(set(t))


def instance(rng, max_edges=6, max_flow=6, with_constraints=False):
    for _ in range(200):
        nodes, edges = shape(rng, max_edges)
        f, walks, ws = models.walk_flow(rng, nodes, edges, weights=(1, 1, 2, 3))
        if all(f[e] > 0 for e in edges) and max(f.values()) <= max_flow:
            break
    else:
        nodes, edges = FIXED_SHAPES[1]
        nodes, edges = list(nodes), list(edges)
        f, walks, ws = {("s", "a"): 1, ("a", "b"): 2, ("b", "a"): 2, ("a", "t"): 1}, [["s", "a", "b", "a", "b", "a", "t"]], [1]
    inst = {"nodes": nodes, "edges": [list(e) for e in edges], "flow": [[u, v, qstr(f[(u, v)])] for (u, v) in edges],
            "constraints": [], "coverage": "1", "planted": len(walks), "tags": tags_of(nodes, edges, f)}
    if with_constraints:
        cons = []
        for _ in range(rng.randint(1, 2)):
            if rng.random() < 0.75:
                w = rng.choice(walks)
                pool = list(dict.fromkeys(zip(w[:-1], w[1:])))
            else:
                pool = list(edges)
            c = rng.sample(pool, min(len(pool), rng.randint(1, 3)))
            if rng.random() < 0.2:
                c.append(c[0])                           # duplicate inside a constraint
            cons.append([list(e) for e in c])
        inst["constraints"] = cons
        inst["coverage"] = rng.choice(["1", "1", "1", "1/2"])
    return inst


def build_graph(inst, factor=None, as_float=False):
    G = nx.DiGraph()
    G.add_nodes_from(inst["nodes"])
    for u, v, q in inst["flow"]:
        val = frac(q) * (frac(factor) if factor is not None else 1)
        G.add_edge(u, v, flow=(float(val) if as_float else int(val)))
    return G


def run_model(ctx, inst, opts=None, factor=None, as_float=False):
    """one real MinFlowDecompCycles run; returns dict(solved, n, walks, weights, lb, exc)"""
    fp = ctx.fp
    G = build_graph(inst, factor, as_float)
    kw = dict(flow_attr="flow", weight_type=float if as_float else int,
              optimization_options=dict(opts or {}), solver_options={"time_limit": 120})
    if inst.get("constraints"):
        kw["subset_constraints"] = [[tuple(e) for e in c] for c in inst["constraints"]]
        kw["subset_constraints_coverage"] = float(frac(inst.get("coverage", "1")))
    try:
        m = fp.MinFlowDecompCycles(G, **kw)
        solved = bool(m.solve())
    except Exception as e:            # the property says solve() succeeds
        return {"solved": False, "exc": repr(e), "n": None, "walks": None, "weights": None, "lb": None}
    res = {"solved": solved, "exc": None, "n": None, "walks": None, "weights": None, "lb": None,
           "is_solved": bool(m.is_solved())}
    try:
        res["lb"] = m.get_lowerbound_k()
    except Exception as e:
        res["lb_exc"] = repr(e)
    if solved:
        sol = m.get_solution()
        res["walks"] = [list(w) for w in sol["walks"]]
        res["weights"] = list(sol["weights"])
        res["n"] = len(sol["walks"])
    return res


# ------------------------------------------------------------------ oracles on one run

def explain_problems(inst, res, factor=None, as_float=False):
    """exactness + route validity of a returned decomposition, on the user's graph"""
    edges = {tuple(e) for e in inst["edges"]}
    indeg = Counter(v for _, v in edges); outdeg = Counter(u for u, _ in edges)
    probs = []
    got = Counter()
    for walk, w in zip(res["walks"], res["weights"]):
        if len(walk) < 2:
            probs.append(f"walk {walk} has fewer than two nodes"); continue
        if indeg[walk[0]] != 0 or outdeg[walk[-1]] != 0:
            probs.append(f"walk {walk} does not run from a node without in-edges to a node without out-edges")
        if as_float:
            if not isinstance(w, float):
                probs.append(f"weight {w!r} is not a float")
        elif not isinstance(w, int) or isinstance(w, bool):
            probs.append(f"weight {w!r} is not an int")
        for e in zip(walk[:-1], walk[1:]):
            if e not in edges:
                probs.append(f"{e} of walk {walk} is not an edge of the graph")
            got[e] += Fraction(w) if not as_float else w
    for u, v, q in inst["flow"]:
        want = frac(q) * (frac(factor) if factor is not None else 1)
        g = got.get((u, v), 0)
        if as_float:
            if abs(float(g) - float(want)) > 1e-6 * max(1.0, float(want)):
                probs.append(f"edge ({u!r},{v!r}): weight*traversals sums to {g}, flow is {float(want)}")
        elif Fraction(g) != want:
            probs.append(f"edge ({u!r},{v!r}): weight*traversals sums to {g}, flow is {want}")
    cov = frac(inst.get("coverage", "1"))
    for c in inst.get("constraints", []):
        s = {tuple(e) for e in c}
        ok = False
        for walk in res["walks"]:
            we = set(zip(walk[:-1], walk[1:]))
            if len(s & we) >= len(s) * cov:
                ok = True
        if not ok:
            probs.append(f"subset constraint {c} (coverage {cov}) is covered by no returned walk")
    return probs


def oracle(inst):
    nodes = inst["nodes"]; edges = [tuple(e) for e in inst["edges"]]
    f = {(u, v): frac(q) for u, v, q in inst["flow"]}
    return min_walk_decomposition(nodes, edges, f, inst.get("constraints", []), frac(inst.get("coverage", "1")))


def judge_int(ctx, suite, inst, label, opts, best):
    """one integer-weight run against the brute-force minimum `best` (None = no decomposition satisfies the constraints)"""
    res = run_model(ctx, inst, opts)
    ctx.rep.cov["oracle_evaluations"] += 1
    fl = {(u, v): frac(q) for u, v, q in inst["flow"]}
    src_flow = sum(max(0, sum(q for (a, b), q in fl.items() if a == x) - sum(q for (a, b), q in fl.items() if b == x))
                   for x in inst["nodes"])
    case = dict(inst, options=opts, option_set=label, factor="1", result={k: res[k] for k in ("solved", "n", "walks", "weights", "lb", "exc")},
                oracle_min=(best[0] if best else None), max_flow=qstr(max(fl.values())), source_flow=qstr(src_flow))
    nontriv = bool(best) and (best[0] >= 2 or any(max(m) > 1 for _, m in best[1]))
    ctx.rep.count(suite, [inst, label], nontrivial=nontriv,
                  hist=[label, f"min={best[0] if best else None}"] + inst.get("tags", [])
                  + (["constraints", "coverage=" + inst["coverage"]] if inst.get("constraints") else [])
                  + (["walk_repeats_edge"] if best and any(max(m) > 1 for _, m in best[1]) else []))
    site = "MinFlowDecompCycles.solve"
    if res["exc"]:
        ctx.violation(f"MinFlowDecompCycles [{label}] raised {res['exc']} on a decomposable flow", case, site=site)
        return res
    if best is None:
        if res["solved"]:
            pr = explain_problems(inst, res)
            if pr:
                ctx.violation(f"MinFlowDecompCycles [{label}] reports solved although no decomposition satisfies the subset "
                              f"constraints, and its answer is wrong: {pr[0]}", case, site=site)
            else:
                ctx.violation(f"brute-force oracle found no decomposition but the returned one is valid: {res['walks']}", case,
                              site="oracle")
        return res
    if not res["solved"]:
        ctx.violation(f"MinFlowDecompCycles [{label}] did not solve a flow that {best[0]} walks decompose", case, site=site)
        return res
    pr = explain_problems(inst, res)
    if pr:
        ctx.violation(f"MinFlowDecompCycles [{label}] returned a wrong decomposition: {pr[0]}", case,
                      site="MinFlowDecompCycles.get_solution")
    if res["lb"] is not None and res["lb"] > best[0]:
        # an invalid lower bound makes the search start above the minimum; the wrong count is its consequence
        ctx.violation(f"MinFlowDecompCycles [{label}].get_lowerbound_k() = {res['lb']} exceeds the minimum {best[0]} "
                      f"({res['n']} walks returned, weights {res['weights']})", case,
                      site="MinFlowDecompCycles.get_lowerbound_k")
        return res
    if res["n"] != best[0]:
        zero = any(w == 0 for w in res["weights"])
        ctx.violation(f"MinFlowDecompCycles [{label}] returned {res['n']} walks, the minimum is {best[0]}"
                      + (" (a walk of weight 0 is among the returned ones)" if zero else ""), case,
                      site="MinFlowDecompCycles.zero_weight_walk" if zero and res["n"] < best[0] else site)
    elif any(w == 0 for w in res["weights"]) and not inst.get("constraints"):
        # (with subset constraints a walk of weight 0 can be what covers a constraint: s->a 3, a->a 1, a->t 1, a->u 2 with the
        # constraints {a->u, a->a}, {s->a, a->u} has minimum 3 and [1, 0, 2] is one of its minimum solutions - this line used to
        # flag it, a false alarm of the thorough tier found after the instance stream shifted)
        ctx.violation(f"MinFlowDecompCycles [{label}] returned a walk of weight 0 in a minimum decomposition", case,
                      site="MinFlowDecompCycles.zero_weight_walk")
    return res


def lp_check(ctx, inst, r1, c1, r2, c2):
    """diagnosis of a broken scale law (uses the Lean model of the LP, not part of the oracle): the better of the two
    answers, rescaled to the other factor, is evaluated in the LP of the other instance for the same number of walks;
    returns which columns / how many rows it violates there"""
    def better(a, b):
        return a["solved"] and (not b["solved"] or a["n"] < b["n"])
    if better(r1, r2):
        good, cg, cb = r1, c1, c2
    elif better(r2, r1):
        good, cg, cb = r2, c2, c1
    else:
        return None
    ratio = frac(cb) / frac(cg)
    req = {"op": "kfdc.witness", "nodes": inst["nodes"], "edges": inst["edges"],
           "flow": [[u, v, qstr(frac(q) * frac(cb))] for u, v, q in inst["flow"]], "ignore": [], "starts": [], "ends": [],
           "weight_type": "float", "k": good["n"], "constraints": [], "coverage": "1", "allow_empty": False, "scaling": [],
           "walks": good["walks"], "weights": [qstr(frac(w) * ratio) for w in good["weights"]]}
    try:
        ans = ctx.driver.call(req)
    except Exception as e:
        return {"error": repr(e)}
    return {"evaluated_in": "x" + cb, "solution_from": "x" + cg, "sat": ans["sat"], "bad_cols": ans["bad_cols"][:12],
            "only_edge_caps": bool(ans["bad_cols"]) and all(n.startswith("edge(") for n in ans["bad_cols"])}


def scale_law(ctx, suite, inst, best, factors=FACTORS):
    """c*f with float weights: same solved status and number of walks for every c (the true minimum over real weights is
    scale invariant), and never more walks than the integer minimum of f"""
    base = run_model(ctx, inst, {}, factor="1", as_float=True)
    ctx.rep.cov["oracle_evaluations"] += 1
    case0 = dict(inst, factor="1", weight_type="float", result={k: base[k] for k in ("solved", "n", "walks", "weights", "exc")},
                 oracle_min=(best[0] if best else None))
    ctx.rep.count(suite, [inst, "x1"], nontrivial=False, hist=["factor=1"])
    if best is not None:
        if not base["solved"]:
            ctx.violation(f"MinFlowDecompCycles (float weights) did not solve a flow that {best[0]} integer-weighted walks decompose",
                          case0, site="MinFlowDecompCycles.solve")
        else:
            pr = explain_problems(inst, base, factor="1", as_float=True)
            if pr:
                ctx.violation(f"MinFlowDecompCycles (float weights) returned a wrong decomposition: {pr[0]}", case0,
                              site="MinFlowDecompCycles.get_solution")
            if base["n"] > best[0]:
                ctx.violation(f"MinFlowDecompCycles (float weights) returned {base['n']} walks although {best[0]} integer-weighted "
                              f"walks decompose the flow", case0, site="MinFlowDecompCycles.solve")
    for c in factors:
        res = run_model(ctx, inst, {}, factor=c, as_float=True)
        ctx.rep.cov["oracle_evaluations"] += 1
        case = dict(inst, factor=c, weight_type="float", result={k: res[k] for k in ("solved", "n", "walks", "weights", "exc")},
                    unscaled={"solved": base["solved"], "n": base["n"]}, oracle_min=(best[0] if best else None))
        differs = (res["solved"] != base["solved"]) or (res["n"] != base["n"])
        ctx.rep.count(suite, [inst, "x" + c], nontrivial=True,
                      hist=["factor=" + c, "law_holds" if not differs else "law_broken"] + inst.get("tags", []))
        if res["exc"]:
            ctx.violation(f"scaled by {c}: MinFlowDecompCycles raised {res['exc']}", case, site="MinFlowDecompCycles.scale_law")
        elif differs:
            case["lp_check"] = lp_check(ctx, inst, base, "1", res, c)
            ctx.violation(f"scaled by {c} (float weights): solved={res['solved']} with {res['n']} walks, unscaled: "
                          f"solved={base['solved']} with {base['n']} walks", case, site="MinFlowDecompCycles.scale_law")
        elif res["solved"]:
            pr = explain_problems(inst, res, factor=c, as_float=True)
            if pr:
                ctx.violation(f"scaled by {c}: wrong decomposition: {pr[0]}", case, site="MinFlowDecompCycles.get_solution")


# ------------------------------------------------------------------ K1: the completeness construction, executed

def witness_case(ctx, inst, best):
    """the Lean side builds, from a brute-force optimal decomposition, the assignment of `kfdc_complete` (multiplicities,
    first-entry edges, first-visit ranks, products, bits) and checks every column and row of `kfdcLP` for k = minimum"""
    if best is None or inst.get("constraints"):
        return
    nodes = inst["nodes"]; edges = [tuple(e) for e in inst["edges"]]
    walks = [vector_walk(nodes, edges, m) for _, m in best[1]]
    req = {"op": "kfdc.witness", "nodes": nodes, "edges": inst["edges"], "flow": inst["flow"], "ignore": [], "starts": [],
           "ends": [], "weight_type": "int", "k": best[0], "constraints": [], "coverage": "1", "allow_empty": False,
           "scaling": [], "walks": walks, "weights": [qstr(w) for w, _ in best[1]]}
    ans = ctx.driver.call(req)
    ctx.rep.cov["traces_validated_against_impl"] += 1
    ctx.rep.count("K1.kfdc_witness", [inst, walks], nontrivial=best[0] >= 2 or any(max(m) > 1 for _, m in best[1]),
                  hist=[f"k={best[0]}", "sat" if ans["sat"] else "unsat"])
    if not ans["sat"]:
        ctx.disagree("K1.kfdc_witness", dict(inst, walks=walks, weights=[w for w, _ in best[1]]),
                     "brute-force optimal decomposition", ans,
                     note="the assignment built from an optimal decomposition violates the LP of the real constructor")
    # k = minimum - 1 must be refuted by the real k-model (the search's infeasible verdicts are right)
    return ans


# ------------------------------------------------------------------ suites

def k5_instance(ctx, rng, with_constraints, do_scale, opt_sets):
    inst = instance(rng, max_edges=ctx.n(6, 7), max_flow=ctx.n(6, 8), with_constraints=with_constraints)
    best = oracle(inst)
    suite = "K5.min_walks_constraints" if with_constraints else "K5.min_walks"
    first = None
    for label, opts in opt_sets:
        r = judge_int(ctx, suite, inst, label, opts, best)
        first = first or r
    if not with_constraints:
        witness_case(ctx, inst, best)
    if do_scale:
        scale_law(ctx, "K5.scale_law", inst, best if not with_constraints else None)
    return inst, best, first


def hub_instance(rng):
    """a hub x entered from p sources and left to q sinks, with a cycle of length L through x (beyond the brute-force size):
    the planted walks (each: source -> x -> m rounds of the cycle -> sink, integer weight >= 1) bound the minimum from above"""
    p, q = rng.randint(1, 3), rng.randint(1, 3)
    L = rng.randint(1, 5)
    if rng.random() < 0.3:            # a long cycle through a balanced hub: the closed sequence is the heaviest safe one
        p = q = 2
        L = rng.choice([4, 5, 6])
    cyc = ["x"] + [f"c{i}" for i in range(1, L)] + ["x"]
    nodes = ["x"] + [f"c{i}" for i in range(1, L)] + [f"s{i}" for i in range(p)] + [f"t{j}" for j in range(q)]
    fl = {}
    planted = []
    k = max(p, q)
    for i in range(k):
        w, m = rng.choice([1, 1, 2, 3]), rng.choice([0, 1, 1, 2])
        if i == 0:
            m = max(m, 1)
        walk = [f"s{i % p}"] + cyc[:-1] * m + ["x", f"t{i % q}"] if m else [f"s{i % p}", "x", f"t{i % q}"]
        for e in zip(walk[:-1], walk[1:]):
            if e[0] != e[1] or L == 1:
                fl[e] = fl.get(e, 0) + w
        planted.append((w, walk))
    fl = {e: v for e, v in fl.items() if e[0] != e[1] or L == 1}
    edges = list(fl)
    rng.shuffle(edges); rng.shuffle(nodes)
    return {"nodes": nodes, "edges": [list(e) for e in edges], "flow": [[u, v, str(fl[(u, v)])] for u, v in edges],
            "constraints": [], "coverage": "1", "tags": ["hub", f"cycle_len={L}"]}, planted


def planted_bound_case(ctx, rng, suite="K5.planted_upper_bound"):
    """larger instances: no brute force; the planted decomposition (integer weights >= 1, within the caps) must be matched"""
    inst, planted = hub_instance(rng)
    k = len(planted)
    # (not the min-gen-set lower bound: its over-estimate on cyclic input is a listed finding judged by the brute-force suites)
    for label, opts in [OPTION_SETS[0], rng.choice([OPTION_SETS[1], OPTION_SETS[3], OPTION_SETS[4]])]:
        res = run_model(ctx, inst, opts)
        ctx.rep.cov["oracle_evaluations"] += 1
        ctx.rep.count(suite, [inst, label], nontrivial=True, hist=[label] + inst["tags"] + ["solved" if res["solved"] else "unsolved"])
        case = dict(inst, options=opts, option_set=label, planted=[[w, walk] for w, walk in planted],
                    result={a: res[a] for a in ("solved", "n", "walks", "weights", "lb", "exc")})
        site = "MinFlowDecompCycles.solve"
        if res["exc"]:
            ctx.violation(f"MinFlowDecompCycles [{label}] raised {res['exc']} on a decomposable flow", case, site=site)
        elif not res["solved"]:
            ctx.violation(f"MinFlowDecompCycles [{label}] did not solve a flow that {k} planted walks decompose", case, site=site)
        else:
            pr = explain_problems(inst, res)
            if pr:
                ctx.violation(f"MinFlowDecompCycles [{label}] returned a wrong decomposition: {pr[0]}", case,
                              site="MinFlowDecompCycles.get_solution")
            elif res["n"] > k:
                ctx.violation(f"MinFlowDecompCycles [{label}] returned {res['n']} walks although {k} planted walks decompose the flow",
                              case, site=site)


def k3_traces(ctx, rng, n):
    fp = ctx.fp
    for it in range(n):
        inst = instance(rng, max_edges=6, max_flow=6)
        G = build_graph(inst)
        mk = lambda: fp.MinFlowDecompCycles(G, flow_attr="flow", weight_type=int, solver_options={"time_limit": 300})
        c13.sweep(ctx, "K3.MinFlowDecompCycles", "MinFlowDecompCycles", "timed", mk, [fp.kFlowDecompCycles],
                  lambda m: ctx.model_hi("MinFlowDecompCycles", m), c13.gdesc(G), pairs=False, timed=True)


RANGE_WITNESS = {"nodes": ["s0", "m", "s1", "t0", "t1", "t2"],
                 "edges": [["s0", "m"], ["m", "t0"], ["m", "t1"], ["m", "t2"], ["s1", "m"]],
                 "flow": [["s0", "m", "3"], ["m", "t0", "2"], ["m", "t1", "2"], ["m", "t2", "2"], ["s1", "m", "3"]],
                 "constraints": [[["s%d" % a, "m"], ["m", "t%d" % b]] for a in range(2) for b in range(3)],
                 "coverage": "1", "tags": ["range_witness", "several_sources", "several_sinks"]}


def range_witness_case(ctx):
    """T6 (FP.Props.C04.search_range_counterexample): two sources, a hub, three sinks, the six subset constraints
    {(s_a,m),(m,t_b)}. Oracle: brute-force minimum (6 > |E| = 5). Real code: since fix 26b11a1 solve() must answer True with
    exactly six walks (judged by the oracle; FP.Props.C04.search_range_witness_solved), and the real k-models k = 1..6 agree with
    the theorem (unsatisfiable for k <= 5, satisfiable for k = 6). Lean model: the assignment built from the six paths satisfies
    kfdcLP for k = 6."""
    fp = ctx.fp
    inst = json.loads(json.dumps(RANGE_WITNESS))
    best = oracle(inst)
    ctx.rep.cov["oracle_evaluations"] += 1
    res = judge_int(ctx, "K5.search_range", inst, "default", {}, best)
    if best is None or best[0] != 6:
        ctx.violation(f"brute-force oracle: the range witness needs {best[0] if best else None} walks, expected 6", inst, site="oracle")
    elif not (res["solved"] and res["n"] == 6):
        # (judge_int has already reported it; named here with the regression theorem)
        ctx.disagree("K1.range_witness", inst, {"solved": res["solved"], "n": res["n"]}, {"solved": True, "n": 6},
                     note="search_range_witness_solved: over range(lb, |E| + #constraints + 1) the search returns 6")
    G = build_graph(inst)
    cons = [[tuple(e) for e in c] for c in inst["constraints"]]
    got = {}
    for k in range(1, 7):
        m = fp.kFlowDecompCycles(G, flow_attr="flow", k=k, weight_type=int, subset_constraints=cons,
                                 solver_options={"time_limit": 120})
        m.solve()
        got[k] = (bool(m.is_solved()), str(m.solver.get_model_status()))
        ctx.rep.cov["traces_validated_against_impl"] += 1
    want = {k: k == 6 for k in range(1, 7)}
    ok = all(got[k][0] == want[k] and (want[k] or got[k][1] == "kInfeasible") for k in want)
    ctx.rep.count("K1.range_witness", [inst, "k-models"], nontrivial=True,
                  hist=["k<=5 infeasible, k=6 optimal" if ok else "differs"])
    if not ok:
        ctx.disagree("K1.range_witness", inst, got, {k: ("optimal" if v else "infeasible") for k, v in want.items()},
                     note="search_range_counterexample: the k-model is satisfiable for k = 6 and for no k <= 5")
    walks = [["s%d" % a, "m", "t%d" % b] for a in range(2) for b in range(3)]
    req = {"op": "kfdc.witness", "nodes": inst["nodes"], "edges": inst["edges"], "flow": inst["flow"], "ignore": [],
           "starts": [], "ends": [], "weight_type": "int", "k": 6, "constraints": inst["constraints"], "coverage": "1",
           "allow_empty": False, "scaling": [], "walks": walks, "weights": ["1"] * 6}
    ans = ctx.driver.call(req)
    ctx.rep.count("K1.range_witness", [inst, "witness"], nontrivial=True, hist=["sat" if ans["sat"] else "unsat"])
    if not ans["sat"]:
        ctx.disagree("K1.range_witness", dict(inst, walks=walks), "six paths of weight 1", ans,
                     note="the assignment of the six paths violates the model's LP for k = 6")


def finding_case(ctx, inp):
    """replay of a listed finding from its stored minimal input"""
    inst = {k: inp[k] for k in ("nodes", "edges", "flow") if k in inp}
    inst.setdefault("constraints", inp.get("constraints", [])); inst["coverage"] = inp.get("coverage", "1")
    inst["tags"] = ["known-finding"]
    best = oracle(inst)
    if inp.get("factor") is not None:
        scale_law(ctx, "known-findings", inst, best, factors=[inp["factor"]])
    else:
        judge_int(ctx, "known-findings", inst, "default", inp.get("options", {}), best)


def run(ctx):
    rng = ctx.rng
    k2.run_k2(ctx, K2_ADAPTERS, ctx.n(200, 2500))
    k3_traces(ctx, rng, ctx.n(6, 30))
    range_witness_case(ctx)
    # the README graph and the self-loop first (fixed regression inputs), then random ones
    for shp, fl in [(FIXED_SHAPES[1], [1, 2, 2, 1]), (FIXED_SHAPES[0], [1, 1, 1]), (FIXED_SHAPES[0], [1, 3, 1])]:
        nodes, edges = shp
        inst = {"nodes": list(nodes), "edges": [list(e) for e in edges],
                "flow": [[u, v, str(q)] for (u, v), q in zip(edges, fl)], "constraints": [], "coverage": "1",
                "tags": tags_of(nodes, edges, None)}
        best = oracle(inst)
        for label, opts in OPTION_SETS:
            judge_int(ctx, "K5.min_walks", inst, label, opts, best)
        witness_case(ctx, inst, best)
        scale_law(ctx, "K5.scale_law", inst, best)
    for it in range(ctx.n(120, 1200)):
        sets = OPTION_SETS if it % 3 == 0 else [OPTION_SETS[0], rng.choice(OPTION_SETS[1:])]
        inst, best, res = k5_instance(ctx, rng, False, do_scale=(it % 2 == 0), opt_sets=sets)
        if it < 2 and res:
            ctx.rep.sample({"suite": "K5.min_walks", "instance": inst, "oracle_min": best[0] if best else None,
                            "oracle_decomposition": [[w, list(m)] for w, m in best[1]] if best else None,
                            "returned": {"walks": res["walks"], "weights": res["weights"]}})
    for it in range(ctx.n(25, 250)):
        planted_bound_case(ctx, rng)
    for it in range(ctx.n(60, 500)):
        sets = [OPTION_SETS[0], rng.choice(OPTION_SETS[1:])]
        k5_instance(ctx, rng, True, do_scale=False, opt_sets=sets)


def search(ctx):
    rng = random.Random(404)
    for it in range(150):
        k5_instance(ctx, rng, it % 3 == 0, do_scale=False, opt_sets=[OPTION_SETS[0], OPTION_SETS[4]])


def replay(ctx, payload):
    inp = payload.get("input") or {}
    print(json.dumps(inp, indent=1)[:3000])
    if "nodes" in inp and "flow" in inp:
        finding_case(ctx, inp)
