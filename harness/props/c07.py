"""C07 — k-Least-Absolute-Errors returns a true optimum with a consistent objective.

Proof: FP/Props/C07.lean on the LP generator `klaeLP` (DAG model): soundness (every satisfying assignment decodes to k
routes, pi = x*w, ee(e) >= |f(e) - sum_i w_i[e in p_i]|), completeness (every bounded k-route solution is a satisfying
assignment with objective sum scale*|..|), optimality transfer incl. tightness of the error columns, adequacy of
w_max = k*max f (clamping weights to max f never increases an error), optimality over all routes of the user's graph and
all non-negative weights (klae_optimal), and objective consistency in full: the model of get_objective_value()
(since fix 1c464ac: sum of edge_errors[e] * error_scaling.get(e, 1)) equals the solver objective on every assignment
(objective_consistent), so the objective clause of is_valid_solution() never rejects (objective_check_passes), and at an
optimum it is the total scaled error recomputed from the returned paths (reported_objective_at_optimum); regression
example: every optimum of a -> b -> c, f = (4,1), scaling {(a,b): 1/2} has solver and reported objective 3/2.
Cyclic class (LP generator `klaecLP`, same file): klaec_sound (every satisfying assignment decodes per layer to a route of
the user's graph, traversal counts = edge variables within the repetition caps, pi(e,i) = w_i * traversals_i(e) <= w_max,
ee(e) >= |f(e) - sum_i w_i traversals_i(e)|, objective = sum scale*ee), klaec_complete_within_caps (every family of k
weighted walks within the caps whose products w_i*traversals_i(e) and errors stay <= w_max is a satisfying assignment with
objective sum scale*|..|), klaec_decoded_within_caps (converse), klaec_opt_within_caps / klaec_opt_tight (an LP optimum is
optimal among all such bounded families, tight error columns) and klaec_wmax_cuts_optimum (Lean counterpart of finding
C07-laecycles-wmax-cuts-optimum: on s -> a <-> b the LP optimum is 5 while a route within w_max and the repetition caps has
error 2 — its product 8 exceeds w_max = 4).
Given-weights branch (solution_weights_superset; LP generator `klaeGivenLP`, same file, proofs FP/Proofs/KLAEGiven*.lean):
klae_given_sound (every satisfying assignment: each layer decodes to the empty path or a route of the user's graph, at most
original_k layers non-empty (cap row), layer i carries the i-th given number, |f(e) - sum_{i used} ws[i][e in p_i]| <= ee(e)
<= w_max on every non-ignored edge, objective = sum scale*ee), klae_given_complete (every choice of <= original_k of the
given weights by index with routes whose errors stay <= w_max = max(len(ws)*max f, max ws) is a satisfying assignment with
objective sum scale*|..|; int: integral flows and given numbers), klae_given_opt_transfer (an LP optimum is optimal among
all such bounded choices, tight error columns), klae_given_adequate / klae_given_optimal (if the given numbers are >= 0 and
sum to <= w_max every choice is bounded, so the optimum is optimal among all choices) and klae_given_wmax_cuts_optimum (Lean
counterpart of finding C07-given-weights-wmax-cuts-optimum: a->b 0, b->c->c2 and b->d->d2 all 10, given [12,12], k=2: LP
optimum 36 while both routes have error 32 — the error 24 on (a,b) exceeds w_max = 20).
Tie: K2 LP-dump equality of kLeastAbsErrors (plain and given-weights) against klaeLP / klaeGivenLP; K1 evaluation of the
spec vocabulary (driver op check.klae) on the solutions the real code returns, incl. the model of get_objective_value()
evaluated on the returned edge_errors against the real get_objective_value(); K5 end-to-end oracle with a brute-force
optimum on kLeastAbsErrors and kLeastAbsErrorsCycles.
"""
import json, random
from fractions import Fraction
from fpv import models, k2, errors
from fpv.common import frac, qstr

THEOREMS = ["FP.Props.C07.klae_sound", "FP.Props.C07.klae_routes_valid", "FP.Props.C07.klae_objective",
            "FP.Props.C07.klae_complete", "FP.Props.C07.klae_opt_transfer", "FP.Props.C07.wmax_adequate",
            "FP.Props.C07.klae_optimal", "FP.Props.C07.objective_consistent",
            "FP.Props.C07.objective_check_passes", "FP.Props.C07.reported_objective_at_optimum",
            "FP.Props.C07.objective_regression_example", "FP.Props.C07.every_optimum_consistent",
            "FP.Props.C07.klaec_cap", "FP.Props.C07.klaec_cap_int", "FP.Props.C07.klaec_sound", "FP.Props.C07.klaec_objective",
            "FP.Props.C07.klaec_mult_bits", "FP.Props.C07.klaec_bits_of_le",
            "FP.Props.C07.klaec_complete_within_caps", "FP.Props.C07.klaec_decoded_within_caps",
            "FP.Props.C07.klaec_opt_within_caps", "FP.Props.C07.klaec_opt_tight",
            "FP.Props.C07.klaec_wmax_cuts_optimum",
            "FP.Props.C07.klae_given_sound", "FP.Props.C07.klae_given_complete",
            "FP.Props.C07.klae_given_opt_transfer", "FP.Props.C07.klae_given_adequate",
            "FP.Props.C07.klae_given_optimal", "FP.Props.C07.klae_given_wmax_cuts_optimum",
            "FP.Props.C01.pathcore_sound", "FP.Props.C01.walkcore_sound", "FP.Props.C01.walk_routes_valid",
            "FP.Props.C12.binProd_exact", "FP.Props.C04.intProdQ_sound"]
IMPORTS = ["FP.Props.C07", "FP.Props.C01", "FP.Props.C12", "FP.Props.C04"]
K2_ADAPTERS = ["klae", "klaec"]
RULE = ("K2: random kLeastAbsErrors configurations (scaling incl. 0, ignore sets, additional starts/ends, given weights, "
        "constraints, lengths, option flags). K5: random instances with arbitrary non-negative integer values <= 4 "
        "(conserving superpositions perturbed, or independent draws), DAG classes <= 6 edges, cyclic classes <= 5 edges, "
        "k in 1..3, error_scaling in {0,1/4,1/2,1}, ignore sets, additional starts/ends, solution_weights_superset "
        "(1..3 numbers drawn from the flow values, now and then also numbers above the largest flow value), both "
        "weight types; the oracle enumerates all k-multisets of admissible routes (cyclic: walks with edge multiplicity "
        "<= 2) and all weight vectors on the grid 0..max f (step 1 for int, 1/2 for float; exact on DAGs by "
        "wmax_adequate + vertex argument for k <= 3) and recomputes errors with Fractions. Non-trivial: solved instance "
        "whose optimum is positive or that has >= 2 routes of non-zero weight.")
MODEL_SCOPE = ("modelled and proven: DAG MILP route of kLeastAbsErrors without subpath constraints / length attribute for "
               "completeness and optimality (soundness: all configurations); given-weights branch (klaeGivenLP, tied by K2): "
               "soundness for every configuration (klae_given_sound), completeness and optimum transfer without subpath "
               "constraints / length attribute for the choices of <= original_k given weights (by index) whose per-edge errors "
               "stay <= w_max = max(len(superset)*max f, max superset), integral flows and given numbers for weight_type=int "
               "(klae_given_complete, klae_given_opt_transfer); optimality among all choices only when the given numbers are "
               ">= 0 and sum to <= w_max (klae_given_optimal) — otherwise it is false for the code "
               "(klae_given_wmax_cuts_optimum, finding C07-given-weights-wmax-cuts-optimum); the rounding of non-integral "
               "given numbers in get_solution() for weight_type=int is not modelled; "
               "cyclic class kLeastAbsErrorsCycles (edge mode, safety optimisations off; LP generator klaecLP tied by K2): "
               "soundness for every configuration incl. subset constraints and empty walks (klaec_sound); completeness and "
               "optimum transfer only for families of walks within the repetition caps whose products weight x traversals "
               "and errors stay <= w_max (klaec_complete_within_caps, klaec_opt_within_caps; tight form without empty walks / "
               "subset constraints) — unrestricted optimality is false for the code (klaec_wmax_cuts_optimum, finding "
               "C07-laecycles-wmax-cuts-optimum), so there is no cyclic klae_optimal; the model identifies a column with "
               "its HiGHS name (hypothesis KlaecNameInj: product blocks have distinct names); K5 end-to-end oracle on the "
               "cyclic class as before; node-weighted inputs go through "
               "the node expansion of C11 and are not exercised here; get_objective_value is modelled as the sum of the "
               "error columns times their scale factors (FP.reportedObjective; rounding of solver values not modelled) and "
               "compared with the real method on every returned edge_errors dictionary (K1.objective_model)")
TRUSTED = ["HiGHS returns an optimal assignment of the LP it was given when it reports kOptimal (optimality is re-checked "
           "against the brute-force optimum on every K5 instance)"]
ASSUMPTIONS = ["float weights: comparisons at 1e-6; exactness claims are for exact arithmetic",
               "cyclic classes: the brute-force optimum ranges over walks using an edge at most twice, so it is an upper "
               "bound of the true optimum; 'better than brute force' is therefore not reported for them"]

TOL = Fraction(1, 10**6)


def show(q):
    q = Fraction(q)
    return qstr(q) if q.denominator <= 10**6 else f"{float(q):.9g}"


def close(a, b, wint):
    return a == b if wint else abs(Fraction(a) - Fraction(b)) <= TOL * max(1, abs(Fraction(b)))


def lae_case(ctx, inst, suite="K5.lae", brute=True):
    """drives the real class on `inst` and judges everything the property text says"""
    cls = inst["cls"]
    key = models.route_key(cls)
    wint = inst["weight_type"] == "int"
    try:
        m = errors.build(ctx.fp, inst)
        solved = bool(m.solve())
    except (ValueError, OverflowError) as ex:
        ctx.rep.count(suite, inst, nontrivial=False, hist=[cls, type(ex).__name__]); return None
    if not solved:
        ctx.rep.count(suite, inst, nontrivial=False, hist=[cls, "unsolved"]); return None
    sol = m.get_solution()
    routes, ws = [list(r) for r in sol[key]], list(sol["weights"])
    ug = errors.UG(inst)
    ctx.rep.cov["oracle_evaluations"] += 1
    view = dict(inst, solution={key: routes, "weights": [qstr(w) for w in ws]})
    feats = [cls, inst["weight_type"], f"k={inst['k']}"] + (["scaling"] if inst.get("scaling") else []) \
        + (["ignore"] if inst.get("ignore") else []) + (["starts/ends"] if inst.get("starts") or inst.get("ends") else []) \
        + (["given_weights"] if inst.get("given_weights") is not None else [])
    # --- shape: at most k routes (k = len(superset) with given weights), weights of the requested type, non-negative
    kk = len(inst["given_weights"]) if inst.get("given_weights") is not None else inst["k"]
    if len(routes) > kk or len(ws) != len(routes):
        ctx.violation(f"{cls}: {len(routes)} {key} / {len(ws)} weights returned for k={kk}", view, site=f"{cls}.shape")
    if any((not isinstance(w, int)) if wint else (not isinstance(w, float)) for w in ws) or any(w < (0 if wint else -1e-9) for w in ws):
        ctx.violation(f"{cls}: weights {ws} are not non-negative numbers of type {inst['weight_type']}", view, site=f"{cls}.shape")
    if inst.get("given_weights") is not None:
        pool = Counter_(frac(x) for x in inst["given_weights"])
        used = Counter_(frac(w) for w in ws)
        if any(used[w] > pool[w] for w in used) or len(routes) > inst["k"]:
            ctx.violation(f"{cls}: weights {ws} on {len(routes)} paths are not a sub-multiset of the given weights "
                          f"{inst['given_weights']} on at most k={inst['k']} paths", view, site=f"{cls}.given_weights")
    # --- recomputation from the returned routes
    errs = ug.abs_errors(routes, ws)
    total = ug.total_scaled(errs)
    unscaled = sum(errs.values(), Fraction(0))
    rep_errs = sol.get("edge_errors", {})
    for e in ug.basic:
        if e not in rep_errs or not close(frac(rep_errs[e]), errs[e], wint):
            ctx.violation(f"{cls}.get_solution(): edge_errors[{e}] = {rep_errs.get(e)!r} but |f - sum of weights through it| "
                          f"= {errs[e]} for the returned {key}", view, site=f"{cls}.edge_errors")
            break
    reported = frac(m.get_objective_value())
    solver_obj = frac(m.solver.get_objective_value())
    if not close(reported, total, wint):
        what = (f"{cls}.get_objective_value() = {show(reported)} but the total scaled absolute error of the returned "
                f"solution (the quantity minimised; solver objective {float(solver_obj):.6g}) is {show(total)}")
        if close(reported, unscaled, wint):
            what += " — it reports the unscaled sum of the edge errors"
        ctx.violation(what, view, site=f"{cls}.objective")
    try:
        valid = m.is_valid_solution()
    except Exception as ex:            # the validity check must answer, not raise, on the model's own solution
        valid = f"raised {type(ex).__name__}({ex})"
    if valid is not True:
        edge_ok = all(close(frac(rep_errs.get(e, -1)), errs[e], wint) for e in ug.basic)
        what = f"{cls}.is_valid_solution() = {valid!r} on the model's own optimal solution"
        if edge_ok and abs(reported - solver_obj) > Fraction(1, 1000) * inst["k"]:
            what += (f" — every per-edge check holds; rejected by the objective check: get_objective_value() = "
                     f"{show(reported)} (unscaled) vs solver objective {float(solver_obj):.6g} (scaled)")
        ctx.violation(what, view, site=f"{cls}.is_valid_solution")
    # --- optimality against the brute-force optimum
    opt = None
    if brute:
        if inst.get("given_weights") is not None:
            opt = errors.lae_optimum(ug, None, wint, given=inst["given_weights"], k_user=inst["k"])
        elif inst["k"] <= 3 and all(ug.f[e].denominator == 1 for e in ug.basic):
            opt = errors.lae_optimum(ug, inst["k"], wint)
    if opt is not None:
        ctx.rep.cov["oracle_evaluations"] += 1
        feats.append("brute-force optimum")
        if total > opt and not close(total, opt, wint):
            what = (f"{cls}: returned solution has total scaled absolute error {show(total)} but "
                    f"{'k' if inst.get('given_weights') is None else 'the given weights on <= k'} "
                    f"{key} with total error {show(opt)} exist (brute force)")
            if models.is_cyc(cls):      # diagnosis: is the gap explained by the column bound w_max = k * max f ?
                wmax = inst["k"] * ug.maxf
                capped = errors.lae_optimum(ug, inst["k"], wint, cap=wmax)
                # (the model may use walks outside the enumeration, so its value can be below the capped optimum)
                if capped is None or capped >= total or close(total, capped, wint):
                    what += (f" — explained by the column bound w_max = k*max f = {show(wmax)}: every better choice needs "
                             f"weight x multiplicity (pi) or an edge error (ee) above w_max")
            elif inst.get("given_weights") is not None:
                # diagnosis: is the gap explained by the bound of the error columns,
                # w_max = max(len(superset) * weight_type(max f), max(superset)) ?  (klae_given_opt_transfer: the LP optimum
                # is optimal among the choices whose per-edge errors stay <= w_max)
                W = [frac(x) for x in inst["given_weights"]]
                wmax = max(len(W) * (Fraction(int(ug.maxf)) if wint else ug.maxf), max(W + [Fraction(0)]))
                capped = errors.lae_optimum(ug, None, wint, given=inst["given_weights"], k_user=inst["k"], cap=wmax)
                if capped is not None and close(total, capped, wint):
                    what += (f" — explained by the column bound w_max = max(len(superset)*max f, max(superset)) = {show(wmax)} "
                             f"of the error columns: every better choice has an edge error above w_max")
            ctx.violation(what, dict(view, brute_force_optimum=qstr(opt)), site=f"{cls}.optimality")
        elif total < opt and not close(total, opt, wint) and not models.is_cyc(cls):
            ctx.violation(f"{cls}: returned solution has total error {show(total)} below the optimum {show(opt)} over all "
                          f"admissible choices — it is not an admissible choice", dict(view, brute_force_optimum=qstr(opt)),
                          site=f"{cls}.admissible")
    ctx.rep.count(suite, inst, nontrivial=(total > 0 or sum(1 for w in ws if w) >= 2), hist=feats)
    # --- K1: the Lean spec vocabulary evaluated on the returned solution
    if ctx.driver is not None and not models.is_cyc(cls):
        req = {"op": "check.klae", "nodes": inst["nodes"], "edges": inst["edges"], "flow": inst["flow"],
               "ignore": inst.get("ignore", []), "starts": inst.get("starts", []), "ends": inst.get("ends", []),
               "scaling": inst.get("scaling", []), "weight_type": inst["weight_type"], "k": len(routes),
               "routes": routes, "weights": [qstr(w) for w in ws]}
        ans = ctx.driver.call(req)
        mine = {"basic": sorted(list(e) for e in ug.basic), "errors": sorted([e[0], e[1], qstr(errs[e])] for e in ug.basic),
                "total_scaled": qstr(total), "total_unscaled": qstr(unscaled)}
        theirs = {a: (sorted(ans[a]) if isinstance(ans[a], list) else ans[a]) for a in mine}
        ctx.rep.count("K1.spec_eval", req, nontrivial=total > 0, hist=["check.klae"])
        ctx.rep.cov["traces_validated_against_impl"] += 1
        if mine != theirs:
            ctx.disagree("K1.spec_eval", req, mine, theirs, note="oracle recomputation vs Lean spec (LAE.absErr / totalErr)")
    # --- K1: the Lean model of get_objective_value() on the edge_errors the real code returned
    if ctx.driver is not None and all(e in rep_errs for e in ug.basic):
        req = {"op": "check.klae", "nodes": inst["nodes"], "edges": inst["edges"], "flow": inst["flow"],
               "ignore": inst.get("ignore", []), "starts": inst.get("starts", []), "ends": inst.get("ends", []),
               "scaling": inst.get("scaling", []), "weight_type": inst["weight_type"], "k": len(routes),
               "routes": routes, "weights": [qstr(w) for w in ws],
               "edge_errors": [[e[0], e[1], qstr(rep_errs[e])] for e in ug.basic]}
        model_val = frac(ctx.driver.call(req)["reported_objective"])
        ctx.rep.count("K1.objective_model", req, nontrivial=model_val > 0 and bool(inst.get("scaling")),
                      hist=[cls, "scaling" if inst.get("scaling") else "no scaling"])
        ctx.rep.cov["traces_validated_against_impl"] += 1
        if (model_val != reported) if wint else abs(model_val - reported) > Fraction(1, 10**9) * max(1, abs(model_val)):
            ctx.disagree("K1.objective_model", req, show(reported), show(model_val),
                         note="get_objective_value() of the real class vs FP.reportedObjective on the returned edge_errors")
    return {"routes": routes, "weights": ws, "total": total, "opt": opt, "reported": reported}


def Counter_(it):
    from collections import Counter
    return Counter(it)


def with_given_weights(rng, inst):
    wint = inst["weight_type"] == "int"
    vals = sorted({frac(x[2]) for x in inst["flow"]} | {Fraction(1)})
    vals = [v for v in vals if v > 0]
    if rng.random() < 0.3:       # given numbers above the largest flow value (their sum may exceed the bound w_max)
        top = max(vals)
        vals = vals + [top + 1, top + 2, 2 * top]
    ws = [rng.choice(vals) for _ in range(rng.randint(1, 3))]
    inst = dict(inst, given_weights=[qstr(v) for v in ws], k=rng.randint(1, len(ws)))
    return inst


def run(ctx):
    rng = ctx.rng
    k2.run_k2(ctx, K2_ADAPTERS, ctx.n(80, 1500))
    for it in range(ctx.n(4, 30)):
        for cls in ["kLeastAbsErrors", "kLeastAbsErrorsCycles"]:
            inst = funnel_instance(ctx.rng)
            if cls == "kLeastAbsErrors" and any(e[::-1] in [tuple(x) for x in inst["edges"]] for e in map(tuple, inst["edges"])):
                continue
            lae_case(ctx, dict(inst, cls=cls), suite="K5.funnel")
    per = ctx.n(120, 1000)
    for cls in ["kLeastAbsErrors", "kLeastAbsErrorsCycles"]:
        for it in range(per):
            inst = errors.small_instance(rng, cls)
            if cls == "kLeastAbsErrors" and rng.random() < 0.2:
                inst = with_given_weights(rng, inst)
            r = lae_case(ctx, inst)
            if it == 0 and r:
                ctx.rep.sample({"instance": inst, "result": {a: (qstr(b) if isinstance(b, Fraction) else b) for a, b in r.items()}})


def finding_case(ctx, inp):
    inst = {a: b for a, b in inp.items() if a not in ("solution", "brute_force_optimum")}
    lae_case(ctx, inst, suite="known-findings")


def funnel_instance(rng):
    """two (or three) heavy branches funnelled through one light edge: the optimal error on the light edge exceeds
    the largest flow value (exercises the upper bounds of the error / product columns)"""
    heavy = rng.choice([6, 8, 10]); light = rng.choice([1, 2])
    nb = 2
    nodes = [f"s{i}" for i in range(nb)] + ["u", "v"] + [f"t{i}" for i in range(nb)]
    edges = [(f"s{i}", "u") for i in range(nb)] + [("u", "v")] + [("v", f"t{i}") for i in range(nb)]
    fl = {e: heavy for e in edges}; fl[("u", "v")] = light
    if rng.random() < 0.6:       # put the light edge on a 2-cycle
        edges.append(("v", "u")); fl[("v", "u")] = 0
    order = list(nodes); rng.shuffle(order)
    eorder = list(edges); rng.shuffle(eorder)
    return {"cls": None, "nodes": order, "edges": [list(e) for e in eorder], "origin": "edge", "weight_type": "int",
            "ignore": [], "starts": [], "ends": [], "scaling": [], "options": {},
            "flow": [[u, v, str(fl[(u, v)])] for (u, v) in eorder], "k": nb}


def search(ctx):
    rng = random.Random(707)
    for cls in ["kLeastAbsErrors", "kLeastAbsErrorsCycles"]:
        for it in range(80):
            lae_case(ctx, errors.small_instance(rng, cls), suite="search")


def replay(ctx, payload):
    inp = payload.get("input") or {}
    if "cls" in inp:
        inst = {a: b for a, b in inp.items() if a not in ("solution", "brute_force_optimum")}
        print(lae_case(ctx, inst, suite="replay"))
