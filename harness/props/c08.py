"""C08 — k-Minimum-Path-Error is feasible for k >= width and minimises total slack.

Proof: FP/Props/C08.lean on the LP generator `kmpeLP` (DAG model): soundness with and without path-length factors
(kmpe_sound, kmpe_factors_sound); without factors: soundness (every satisfying
assignment decodes to k routes with gamma = x*slack and |f(e) - sum w_i[e in p_i]| * scale(e) <= sum slack_i[e in p_i] on every
non-ignored edge; objective = sum of slacks), completeness, feasibility from any family of k routes covering the
non-ignored edges (weights 0, slacks max f <= w_max), optimality transfer and optimality over unbounded weights/slacks.
Cyclic class (LP generator `kmpecLP`, same file): kmpec_sound (every satisfying assignment decodes per layer to a route of
the user's graph, traversal counts = edge variables within the repetition caps, pi = w_i * traversals_i(e) <= w_max,
gamma = slack_i * traversals_i(e) <= w_max, slack inequality with traversal counts on every non-ignored edge, objective =
sum of slacks), kmpec_complete_within_caps (every family of k weighted walks with slacks within the caps whose products
stay <= w_max is a satisfying assignment with objective sum slack_i), kmpec_decoded_within_caps (converse),
kmpec_opt_within_caps (the total slack of an LP optimum is minimal among all such bounded families) and
kmpec_wmax_cuts_optimum (Lean counterpart of finding C08-mpecycles-wmax-cuts-optimum: on s -> a <-> b the LP optimum is 2
while a route within w_max and the repetition caps admits slack 1 — its product 8 exceeds w_max = 4).
Given-weights branch (solution_weights_superset; LP generator `kmpeGivenLP`, same file, proofs FP/Proofs/KMPEGiven*.lean):
kmpe_given_sound (no factors: every satisfying assignment decodes to a choice of <= original_k of the given weights by
index on routes of the user's graph with slacks in [0, w_max] of the requested type, gamma = x*slack, the slack inequality
with the given numbers as weights on every non-ignored edge, objective = sum of slacks), kmpe_given_factors_sound (with
path_length_factors: scaled_slack_i = slack_i * factors[j] for a range j containing the path length, gamma = x*scaled_slack
<= w_max, rows 9aa/9ab hold with the length-scaled slacks, cap row, objective = sum of unscaled slacks),
kmpe_given_complete / kmpe_given_opt_transfer (no factors: every such choice with slacks <= w_max = max(len(ws)*max f,
max ws) is a satisfying assignment with objective sum slack_i; the total slack of an LP optimum is minimal among them) and
kmpe_given_wmax_cuts_optimum (Lean counterpart of finding C08-given-weights-wmax-cuts-optimum: s0->u, s1->u, u->v, v->t1,
v->x, s2->x, x->y, f = 1 except f(u,v) = f(x,y) = 0, given [15,15,15], k=3: LP optimum 45 while slacks 14,16,14 on the same
routes are valid — 16 exceeds w_max = 15).
Tie: K2 LP-dump equality of kMinPathError (plain, given weights, path-length factors) against kmpeLP / kmpeGivenLP; K1
evaluation of the spec vocabulary (driver op check.kmpe) on returned solutions; K5 end-to-end oracle: brute-force cover
number, feasibility for k >= cover number and k=None, slack inequality, objective, is_valid_solution, brute-force optimum
(int weights) for kMinPathError and kMinPathErrorCycles.
"""
import json, random, math
from fractions import Fraction
from fpv import models, k2, errors
from fpv.common import frac, qstr

THEOREMS = ["FP.Props.C08.kmpe_sound", "FP.Props.C08.kmpe_routes_valid", "FP.Props.C08.kmpe_complete",
            "FP.Props.C08.kmpe_feasible_of_cover", "FP.Props.C08.kmpe_feasible_of_user_cover",
            "FP.Props.C08.kmpe_opt_transfer", "FP.Props.C08.kmpe_optimal", "FP.Props.C08.kmpe_factors_sound",
            "FP.Props.C08.factors_gt1_problem_has_solution", "FP.Props.C08.factors_gt1_infeasible",
            "FP.Props.C08.kmpe_factors_complete_false", "FP.Props.C12.intProd_sound", "FP.Props.C12.piecewise_sound",
            "FP.Props.C08.kmpec_sound", "FP.Props.C08.kmpec_objective", "FP.Props.C08.kmpec_mult_bits",
            "FP.Props.C08.kmpec_complete_within_caps", "FP.Props.C08.kmpec_decoded_within_caps",
            "FP.Props.C08.kmpec_opt_within_caps", "FP.Props.C08.kmpec_wmax_cuts_optimum",
            "FP.Props.C08.kmpe_given_sound", "FP.Props.C08.kmpe_given_factors_sound",
            "FP.Props.C08.kmpe_given_complete", "FP.Props.C08.kmpe_given_opt_transfer",
            "FP.Props.C08.kmpe_given_wmax_cuts_optimum",
            "FP.Props.C07.wmax_adequate", "FP.Props.C07.klaec_cap", "FP.Props.C01.pathcore_sound",
            "FP.Props.C01.walkcore_sound", "FP.Props.C01.walk_routes_valid", "FP.Props.C12.binProd_exact",
            "FP.Props.C04.intProdQ_sound"]
IMPORTS = ["FP.Props.C08", "FP.Props.C07", "FP.Props.C01", "FP.Props.C12", "FP.Props.C04"]
K2_ADAPTERS = ["kmpe", "kmpec"]
RULE = ("K2: random kMinPathError configurations (as for C07, plus path_length_ranges/factors and k=None). K5: random "
        "instances with arbitrary non-negative integer values <= 4, DAG <= 6 edges / cyclic <= 5 edges; for each instance "
        "the brute-force cover number c of the non-ignored edges (cyclic: walks using an edge at most twice) and runs with "
        "k = c, c+1, k=None, given weights (drawn from the flow values, now and then also above the largest one), and (DAG, int) a single path-length factor in {1/4,1/2,1,3/2,2,3,4} on an "
        "unambiguous range; error_scaling in {0,1/4,1/2,1}, ignore sets, additional starts/ends, both weight types. "
        "The oracle recomputes the slack inequality with Fractions and, for int weights, the least total slack over all "
        "k-multisets of routes, integer weights 0..max f and integer slacks. Non-trivial: solved instance with positive "
        "total slack or >= 2 routes.")
MODEL_SCOPE = ("modelled and proven: DAG MILP route of kMinPathError — soundness with and without path-length factors, "
               "completeness / feasibility / optimality without factors, subpath constraints and length attribute; with "
               "factors the intended completeness statement is refuted in Lean on a concrete witness (factors_gt1_infeasible) "
               "and on the real code (findings C08-factors-*); given-weights branch (kmpeGivenLP, tied by K2): soundness for "
               "every configuration without (kmpe_given_sound) and with path-length factors (kmpe_given_factors_sound: rows "
               "9aa/9ab see the length-scaled slack); completeness and minimality of the total slack without factors / subpath "
               "constraints / length attribute, scales >= 0, among the choices of <= original_k given weights (by index) "
               "whose slacks stay <= w_max = max(len(superset)*max f, max superset) (kmpe_given_complete, "
               "kmpe_given_opt_transfer) — unrestricted minimality is false for the code when the given numbers exceed the "
               "flow values (kmpe_given_wmax_cuts_optimum, finding C08-given-weights-wmax-cuts-optimum); completeness with "
               "factors is not claimed (it is already false without given weights); cyclic class "
               "kMinPathErrorCycles (edge mode, elements_to_ignore_percentile = None, no path-length factors, safety "
               "optimisations off; LP generator kmpecLP tied by K2): soundness for every configuration incl. subset "
               "constraints and empty walks (kmpec_sound); completeness and minimality of the total slack only for families "
               "of walks within the repetition caps whose products weight x traversals and slack x traversals stay <= w_max, "
               "scales >= 0 (kmpec_complete_within_caps, kmpec_opt_within_caps) — unrestricted minimality is false for the "
               "code (kmpec_wmax_cuts_optimum, finding C08-mpecycles-wmax-cuts-optimum) and feasibility at k = width is "
               "false (finding C08-mpecycles-repetition-cap, end-to-end only), so kmpe_feasible_of_cover / kmpe_optimal have "
               "no cyclic counterpart; the model identifies a column with its HiGHS name (hypothesis KmpecNameInj); "
               "node-weighted inputs not exercised here")
TRUSTED = ["HiGHS returns an optimal assignment of the LP it was given when it reports kOptimal, and reports kInfeasible only "
           "for infeasible LPs (both re-checked against brute force on the K5 instances)"]
ASSUMPTIONS = ["float weights: slack inequality checked at 1e-6; optimality is compared for int weights only",
               "cyclic classes: cover number and optimum are brute-forced over walks using an edge at most twice (upper bounds)",
               "path length of a route is only used on ranges where the user's count of edges and the model's count "
               "(two synthetic edges more) select the same factor"]

TOL = Fraction(1, 10**6)
FACTORS = ["1/4", "1/2", "1", "3/2", "2", "3", "4"]


def show(q):
    q = Fraction(q)
    return qstr(q) if q.denominator <= 10**6 else f"{float(q):.9g}"


def factor_of(inst):
    fs = inst.get("path_length_factors") or []
    return frac(fs[0]) if fs else Fraction(1)


def view_of(inst, **extra):
    v = dict(inst, **extra)
    fs = [frac(x) for x in inst.get("path_length_factors") or []]
    if fs:
        v["has_factor_lt1"] = min(fs) < 1
        v["has_factor_gt1"] = max(fs) > 1
    return v


def mpe_case(ctx, inst, ug=None, cover=None, suite="K5.mpe", brute=True):
    cls = inst["cls"]
    key = models.route_key(cls)
    wint = inst["weight_type"] == "int"
    cyc = models.is_cyc(cls)
    ug = ug or errors.UG(inst)
    cover = ug.min_cover() if cover is None else cover
    given = inst.get("given_weights")
    phi = factor_of(inst)
    feats = [cls, inst["weight_type"], "k=None" if inst.get("k") is None else "k=cover" if inst.get("k") == cover else "k>cover"
             if cover is not None and inst.get("k", 0) > cover else "k<cover"] \
        + (["scaling"] if inst.get("scaling") else []) + (["ignore"] if inst.get("ignore") else []) \
        + (["starts/ends"] if inst.get("starts") or inst.get("ends") else []) \
        + (["given_weights"] if given is not None else []) + ([f"factor={qstr(phi)}"] if inst.get("path_length_factors") else [])
    try:
        m = errors.build(ctx.fp, inst)
        solved = bool(m.solve())
    except (ValueError, OverflowError) as ex:
        ctx.rep.count(suite, inst, nontrivial=False, hist=[cls, type(ex).__name__]); return None
    ctx.rep.cov["oracle_evaluations"] += 1
    k_model = m.original_k if hasattr(m, "original_k") else m.k
    # --- k=None picks the covering number
    if inst.get("k") is None and cover is not None and cover >= 1:
        if (not cyc and k_model != cover) or (cyc and k_model > cover):
            ctx.violation(f"{cls}(k=None) chose k={k_model}; the least number of admissible {key} covering the non-ignored "
                          f"edges is {'at most ' if cyc else ''}{cover}", view_of(inst, cover=cover), site=f"{cls}.k_none")
    # --- feasibility for k >= cover number
    k_eff = k_model if given is None else min(inst["k"], len(given))
    if not solved:
        status = str(m.solver.get_model_status()) if getattr(m, "solver", None) is not None else "?"
        if cover is not None and cover >= 1 and k_eff >= cover and "nfeasible" in status:
            what = (f"{cls}(k={k_model}{', given weights' if given is not None else ''}"
                    f"{', path_length_factors=' + str(inst['path_length_factors']) if inst.get('path_length_factors') else ''}) "
                    f"is {status} although {cover} admissible {key} cover every non-ignored edge (k >= cover number)")
            if cyc:                      # diagnosis: do the model's per-edge repetition caps rule out every cover?
                try:
                    caps = {e: int(v) for e, v in m.G.compute_edge_max_reachable_value(flow_attr="flow").items()}
                    capped = ug.min_cover(caps=caps)
                    if capped is None or capped > k_eff:
                        what += (" — explained by the repetition caps (largest value reachable from/to the edge): with them "
                                 f"{'no' if capped is None else 'only a ' + str(capped) + '-'} walk cover exists")
                except Exception:
                    pass
                if "repetition caps" not in what and wint and k_model <= 3:
                    wmax = k_model * ug.maxf       # diagnosis: does the column bound w_max = k * max f rule out every solution?
                    if errors.mpe_optimum(ug, k_model, phi) is not None and errors.mpe_optimum(ug, k_model, phi, cap=wmax) is None:
                        what += (f" — explained by the column bound w_max = k*max f = {show(wmax)}: every solution needs "
                                 f"weight x multiplicity (pi) or slack x multiplicity (gamma) above w_max")
            ctx.violation(what, view_of(inst, cover=cover), site=f"{cls}.feasibility")
        ctx.rep.count(suite, inst, nontrivial=False, hist=feats + ["unsolved " + status]); return None
    sol = m.get_solution()
    routes, ws, sls = [list(r) for r in sol[key]], list(sol["weights"]), list(sol["slacks"])
    view = view_of(inst, cover=cover, solution={key: routes, "weights": [qstr(w) for w in ws], "slacks": [qstr(s) for s in sls]})
    kk = len(given) if given is not None else k_model
    if len(routes) > kk or len(ws) != len(routes) or len(sls) != len(routes):
        ctx.violation(f"{cls}: {len(routes)} {key} / {len(ws)} weights / {len(sls)} slacks for k={kk}", view, site=f"{cls}.shape")
    if given is not None and inst.get("k") is not None and sum(1 for r in routes if len(r) > 0) > inst["k"]:
        ctx.violation(f"{cls}: {sum(1 for r in routes if len(r) > 0)} non-empty {key} returned with given weights although k={inst['k']} "
                      f"(the superset only offers weights, it does not raise the number of {key})", view, site=f"{cls}.shape")
    bad_type = (lambda x: not isinstance(x, int)) if wint else (lambda x: not isinstance(x, float))
    if any(bad_type(x) or x < (0 if wint else -1e-9) for x in ws + sls):
        ctx.violation(f"{cls}: weights {ws} / slacks {sls} are not non-negative numbers of type {inst['weight_type']}", view,
                      site=f"{cls}.shape")
    # --- the slack inequality on every non-ignored edge
    errs = ug.abs_errors(routes, ws)
    scaled = [frac(s) * phi for s in sls]
    have = ug.explained(routes, scaled)
    for e in ug.basic:
        lhs, rhs = errs[e] * ug.sc[e], have.get(e, Fraction(0))
        if lhs > rhs + (0 if wint else TOL * max(1, lhs)):
            ctx.violation(f"{cls}: edge {e}: |flow - sum of weights through it| * scale = {show(lhs)} exceeds the sum of the "
                          f"{'length-scaled ' if phi != 1 else ''}slacks through it = {show(rhs)}", view, site=f"{cls}.slack_inequality")
            break
    if inst.get("path_length_factors"):
        ss = sol.get("scaled_slacks")
        if ss is None or len(ss) != len(sls) or any(abs(frac(a) - b) > TOL * max(1, b) for a, b in zip(ss, scaled)):
            ctx.violation(f"{cls}: scaled_slacks {ss} differ from slack * factor = {[show(x) for x in scaled]}", view,
                          site=f"{cls}.scaled_slacks")
    total = sum((frac(s) for s in sls), Fraction(0))
    reported = frac(m.get_objective_value())
    if (reported != total) if wint else abs(reported - total) > TOL * max(1, total):
        ctx.violation(f"{cls}.get_objective_value() = {show(reported)} but the returned slacks add up to {show(total)}", view,
                      site=f"{cls}.objective")
    try:
        valid = m.is_valid_solution()
    except Exception as ex:            # the validity check must answer, not raise, on the model's own solution
        valid = f"raised {type(ex).__name__}({ex})"
    if valid is not True:
        what = f"{cls}.is_valid_solution() = {valid!r} on the model's own optimal solution"
        ok_scaled = all(errs[e] * ug.sc[e] <= have.get(e, Fraction(0)) + Fraction(1, 1000) for e in ug.basic)
        bad_unscaled = [e for e in ug.basic if errs[e] > have.get(e, Fraction(0)) + Fraction(1, 1000) * 4]
        if valid is False and ok_scaled and bad_unscaled:
            e = bad_unscaled[0]
            what += (f" — the slack inequality holds on every edge, but the check compares the unscaled error: edge {e} has "
                     f"|f - sum| = {show(errs[e])}, scale {qstr(ug.sc[e])}, slacks through it {show(have.get(e, Fraction(0)))}")
        ctx.violation(what, view, site=f"{cls}.is_valid_solution")
    # --- optimality against a planted exact solution (any weight type): total slack 0 is attainable with these routes
    pl = inst.get("planted")
    if pl and len(pl["routes"]) <= k_model and given is None and phi == 1:
        perr = ug.abs_errors([list(r) for r in pl["routes"]], [frac(x) for x in pl["weights"]])
        if all(perr[e] == 0 for e in ug.basic):
            ctx.rep.cov["oracle_evaluations"] += 1
            feats.append("planted exact solution")
            if total > (0 if wint else TOL):
                ctx.violation(f"{cls}: returned total slack {show(total)} although the {len(pl['routes'])} planted {key} with weights "
                              f"{pl['weights']} explain every value exactly (total slack 0)", dict(view, planted=pl),
                              site=f"{cls}.optimality")
    # --- optimality (int weights)
    opt = None
    if brute and wint and all(ug.f[e].denominator == 1 for e in ug.basic):
        if given is not None:
            opt = errors.mpe_optimum(ug, None, phi, given=given, k_user=inst["k"])
        elif k_model <= 3:
            opt = errors.mpe_optimum(ug, k_model, phi)
    if opt is not None:
        ctx.rep.cov["oracle_evaluations"] += 1
        feats.append("brute-force optimum")
        if total > opt:
            what = (f"{cls}: returned total slack {show(total)} but a choice of {key}, weights and slacks with total slack "
                    f"{show(opt)} exists (brute force)")
            if cyc:                      # diagnosis: is the gap explained by the column bound w_max = k * max f ?
                wmax = k_model * ug.maxf
                capped = errors.mpe_optimum(ug, k_model, phi, cap=wmax)
                # (the model may use walks outside the enumeration, so its value can be below the capped optimum)
                if capped is None or capped >= total:
                    what += (f" — explained by the column bound w_max = k*max f = {show(wmax)}: every better choice needs "
                             f"weight x multiplicity (pi) or slack x multiplicity (gamma) above w_max")
            elif given is not None and phi == 1:
                # diagnosis: is the gap explained by the bound of the slack columns,
                # w_max = max(len(superset) * int(max f), max(superset)) ?  (kmpe_given_opt_transfer: the LP optimum is minimal
                # among the choices whose slacks stay <= w_max)
                W = [frac(x) for x in given]
                wmax = max(len(W) * Fraction(int(ug.maxf)), max(W + [Fraction(0)]))
                capped = errors.mpe_optimum(ug, None, phi, given=given, k_user=inst["k"], cap=wmax)
                if capped is not None and capped == total:
                    what += (f" — explained by the column bound w_max = max(len(superset)*max f, max(superset)) = {show(wmax)} "
                             f"of the slack columns: every better choice needs a slack above w_max")
            ctx.violation(what, dict(view, brute_force_optimum=qstr(opt)), site=f"{cls}.optimality")
        elif total < opt and not cyc:
            ctx.violation(f"{cls}: returned total slack {show(total)} is below the least total slack {show(opt)} of all admissible "
                          f"choices", dict(view, brute_force_optimum=qstr(opt)), site=f"{cls}.admissible")
    ctx.rep.count(suite, inst, nontrivial=(total > 0 or len(routes) >= 2), hist=feats)
    # --- K1: Lean spec vocabulary on the returned solution (no factors: the spec has none)
    if ctx.driver is not None and not cyc and not inst.get("path_length_factors"):
        req = {"op": "check.kmpe", "nodes": inst["nodes"], "edges": inst["edges"], "flow": inst["flow"],
               "ignore": inst.get("ignore", []), "starts": inst.get("starts", []), "ends": inst.get("ends", []),
               "scaling": inst.get("scaling", []), "weight_type": inst["weight_type"], "k": len(routes),
               "routes": routes, "weights": [qstr(w) for w in ws], "slacks": [qstr(s) for s in sls]}
        ans = ctx.driver.call(req)
        mine = {"slack_rows": sorted([e[0], e[1], qstr(errs[e] * ug.sc[e]), qstr(have.get(e, Fraction(0))),
                                      errs[e] * ug.sc[e] <= have.get(e, Fraction(0))] for e in ug.basic),
                "total_slack": qstr(total)}
        theirs = {"slack_rows": sorted(ans["slack_rows"]), "total_slack": ans["total_slack"]}
        ctx.rep.count("K1.spec_eval", req, nontrivial=total > 0, hist=["check.kmpe"])
        ctx.rep.cov["traces_validated_against_impl"] += 1
        if mine != theirs:
            ctx.disagree("K1.spec_eval", req, mine, theirs, note="oracle recomputation vs Lean spec (MPE.SlackOK / totalSlack)")
    return {"k": k_model, "routes": routes, "weights": ws, "slacks": sls, "total": total, "opt": opt}


def variants(rng, inst, cover):
    """the runs made for one generated instance"""
    cyc = models.is_cyc(inst["cls"])
    out = [dict(inst, k=cover), dict(inst, k=cover + 1)]
    if rng.random() < 0.5:
        out.append(dict(inst, k=None))
    if not cyc and inst["weight_type"] == "int" and rng.random() < 0.6:
        phi = rng.choice(FACTORS)
        if rng.random() < 0.5:
            rg, fs = [[0, 1000]], [phi]
        else:       # a second range that no route reaches
            rg, fs = [[0, 50], [51, 1000]], [phi, rng.choice(FACTORS)]
        out.append(dict(inst, k=rng.choice([cover, cover + 1]), path_length_ranges=rg, path_length_factors=fs))
    if not cyc and rng.random() < 0.3:
        vals = sorted({frac(x[2]) for x in inst["flow"]} | {Fraction(1)})
        vals = [v for v in vals if v > 0]
        if rng.random() < 0.3:       # given numbers above the largest flow value (a slack above the bound w_max may be needed)
            top = max(vals)
            vals = vals + [top + 1, top + 2, 2 * top]
        ws = [rng.choice(vals) for _ in range(rng.randint(cover, cover + 1))]
        out.append(dict(inst, given_weights=[qstr(v) for v in ws], k=rng.randint(cover, len(ws))))
        if inst["weight_type"] == "int" and rng.random() < 0.6:
            # both at once: given weights AND length-scaled slacks (the given-weights encoding has its own product rows)
            out.append(dict(inst, given_weights=[qstr(v) for v in ws], k=rng.randint(cover, len(ws)),
                            path_length_ranges=[[0, 1000]], path_length_factors=[rng.choice(FACTORS)]))
    return out


def run_instance(ctx, rng, cls, suite="K5.mpe"):
    inst = errors.small_instance(rng, cls)
    ug = errors.UG(inst)
    cover = ug.min_cover()
    if cover is None or cover < 1 or cover > 3:
        ctx.rep.count(suite, inst, nontrivial=False, hist=[cls, "no brute-force cover number"]); return None
    res = None
    for v in variants(rng, inst, cover):
        res = mpe_case(ctx, v, ug=ug, cover=cover, suite=suite) or res
    return inst, res


def overshoot_instance(rng, cls):
    """a 2-cycle a<->b entered from s and left to t whose cycle values are not a multiple of the value entering it: the best
    walk goes round several times and weight x multiplicity exceeds the largest value on some edge (the products pi / gamma
    are then bounded by w_max only); now and then an independent edge x->y that needs a walk of its own"""
    pin = rng.choice([1, 2, 2, 3, 3])
    c = rng.randint(pin + 1, 2 * pin + 2)
    c2 = rng.randint(max(1, c - pin - 1), c)
    fl = {("s", "a"): pin, ("a", "b"): c, ("b", "a"): c2, ("b", "t"): rng.choice([pin, pin, pin + 1])}
    nodes = ["s", "a", "b", "t"]
    if rng.random() < 0.5:
        fl[("x", "y")] = rng.randint(1, 3); nodes += ["x", "y"]
    order = list(nodes); rng.shuffle(order)
    return {"cls": cls, "nodes": order, "edges": [list(e) for e in fl], "origin": "edge", "weight_type": "int", "ignore": [],
            "starts": [], "ends": [], "scaling": [], "options": {}, "flow": [[u, v, str(q)] for (u, v), q in fl.items()], "k": 2}


def deep_tail_instance(rng):
    """float weights: a light walk (weight 1/2) goes r >= 4 times round the 2-cycle a<->b and then down a tail of three edges,
    where a heavy route joins; the repetition cap of the cycle edges (largest value reachable) comes from the far end of the
    tail only. The planted walks explain every value exactly, so the optimum is total slack 0."""
    r = rng.randint(4, 6)
    w = Fraction(1, 2)
    heavy = Fraction(r) - w + rng.choice([0, 1, 2])
    tail = ["c", "d"] + (["e"] if rng.random() < 0.5 else [])
    light = ["s"] + ["a", "b"] * r + tail + ["t"]
    hv = ["s2", tail[-1], "t"]
    fl = {}
    for route, x in ((light, w), (hv, heavy)):
        for e in zip(route[:-1], route[1:]):
            fl[e] = fl.get(e, Fraction(0)) + x
    edges = list(fl); rng.shuffle(edges)
    nodes = sorted({x for e in edges for x in e}); rng.shuffle(nodes)
    return {"cls": "kMinPathErrorCycles", "nodes": nodes, "edges": [list(e) for e in edges], "origin": "edge",
            "weight_type": "float", "ignore": [], "starts": [], "ends": [], "scaling": [], "options": {},
            "flow": [[u, v, qstr(fl[(u, v)])] for (u, v) in edges], "k": 2,
            "planted": {"routes": [light, hv], "weights": [qstr(w), qstr(heavy)]}}


def given_more_than_k_instance(rng):
    """two diamonds in series (width 2) whose values are explained exactly only by THREE paths; the weights of those paths
    (and one more) are offered as the superset, but k = 2: two paths with some slack is all the model may return"""
    w = rng.sample(range(1, 9), 3)
    routes = [["s", "a", "m", "c", "t"], ["s", "b", "m", "d", "t"], ["s", "a", "m", "d", "t"]]
    fl = {}
    for r, x in zip(routes, w):
        for e in zip(r[:-1], r[1:]):
            fl[e] = fl.get(e, 0) + x
    edges = list(fl); rng.shuffle(edges)
    nodes = sorted({x for e in edges for x in e}); rng.shuffle(nodes)
    extra = [rng.randint(1, 9)]
    given = w + extra; rng.shuffle(given)
    return {"cls": "kMinPathError", "nodes": nodes, "edges": [list(e) for e in edges], "origin": "edge", "weight_type": "int",
            "ignore": [], "starts": [], "ends": [], "scaling": [], "options": {}, "flow": [[u, v, str(fl[(u, v)])] for (u, v) in edges],
            "k": 2, "given_weights": [str(x) for x in given]}


def run_given_more_than_k(ctx, rng, n, suite="K5.mpe_given_weights_longer_than_k"):
    for _ in range(n):
        mpe_case(ctx, given_more_than_k_instance(rng), suite=suite)


def run_deep_tail(ctx, rng, n, suite="K5.mpe_deep_tail"):
    for _ in range(n):
        mpe_case(ctx, deep_tail_instance(rng), suite=suite, brute=False)


def run_overshoot(ctx, rng, n, suite="K5.mpe_overshoot"):
    for _ in range(n):
        inst = overshoot_instance(rng, "kMinPathErrorCycles")
        ug = errors.UG(inst)
        cover = ug.min_cover()
        if cover is None or cover < 1 or cover > 2:
            continue
        for k in (cover, cover + 1):
            if k <= 2 or len(inst["edges"]) <= 4:
                mpe_case(ctx, dict(inst, k=k), ug=ug, cover=cover, suite=suite)


def run(ctx):
    rng = ctx.rng
    k2.run_k2(ctx, K2_ADAPTERS, ctx.n(80, 1500))
    per = ctx.n(60, 600)
    for cls in ["kMinPathError", "kMinPathErrorCycles"]:
        sampled = False
        for it in range(per):
            r = run_instance(ctx, rng, cls)
            if r and r[1] and not sampled:
                sampled = True
                ctx.rep.sample({"instance": r[0], "last_run": {a: (qstr(b) if isinstance(b, Fraction) else b) for a, b in r[1].items()}})
    run_overshoot(ctx, rng, ctx.n(16, 80))
    run_deep_tail(ctx, rng, ctx.n(4, 30))
    run_given_more_than_k(ctx, rng, ctx.n(4, 30))


STRIP = ("solution", "brute_force_optimum", "cover", "has_factor_lt1", "has_factor_gt1")


def finding_case(ctx, inp):
    mpe_case(ctx, {a: b for a, b in inp.items() if a not in STRIP}, suite="known-findings")


def search_deep(ctx):
    run_deep_tail(ctx, random.Random(808), 12, suite="search.mpe_deep_tail")


def search(ctx):
    search_deep(ctx)
    rng = random.Random(808)
    for cls in ["kMinPathError", "kMinPathErrorCycles"]:
        for it in range(60):
            run_instance(ctx, rng, cls, suite="search")
    run_overshoot(ctx, rng, 40, suite="search")


def replay(ctx, payload):
    inp = payload.get("input") or {}
    if "cls" in inp:
        print(mpe_case(ctx, {a: b for a, b in inp.items() if a not in STRIP}, suite="replay"))
