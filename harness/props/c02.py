"""C02 — flow decompositions explain every non-ignored edge's flow exactly.

Proof: FP/Props/C02.lean (kfd_exact, kfd_given_exact: every satisfying assignment of the kFlowDecomp LPs decodes
to paths and weights with sum_i w_i*[e in p_i] = f(e) on every non-ignored edge), on top of C01's path-encoding
theorems and C12's product-encoding theorem.
Tie: K2 LP-dump equality of kFlowDecomp (plain and given-weights route); K5 end-to-end oracle on get_solution() of
kFlowDecomp, MinFlowDecomp, kFlowDecompCycles, MinFlowDecompCycles over the MILP, greedy and given-weights routes,
edge and node origin.
"""
import json, random
from fractions import Fraction
from collections import Counter
from fpv import gen, models, k2
from fpv.common import frac, qstr

THEOREMS = ["FP.Props.C02.kfd_exact", "FP.Props.C02.kfd_given_exact", "FP.Props.C12.binProd_exact",
            "FP.Props.C01.pathcore_sound", "FP.Props.C04.kfdc_exact", "FP.Props.C04.kfdc_given_weights",
            "FP.Props.C17.greedy_exact"]
IMPORTS = ["FP.Props.C02", "FP.Props.C12", "FP.Props.C01", "FP.Props.C04", "FP.Props.C17"]
K2_ADAPTERS = ["kfd", "kfdc"]
RULE = ("K2: random kFlowDecomp configurations (constraints, coverage, lengths, ignore sets, given weights, option flags); "
        "K5: random conserving flows (superpositions of weighted paths/walks) for the four flow-decomposition classes, routes "
        "greedy / MILP / given weights / guessed weights, edge and node origin, ignored elements. Non-trivial: solved instance "
        "with >= 2 routes of non-zero weight.")
MODEL_SCOPE = ("modelled and proven: DAG MILP route and given-weights route (kfd_exact, kfd_given_exact), cyclic MILP route with "
               "and without given weights (C04.kfdc_exact, kfdc_given_weights), greedy peeling on DAGs (C17.greedy_exact); "
               "node origin via C11")
TRUSTED = ["HiGHS returns an assignment satisfying the LP within its tolerance when it reports kOptimal"]
ASSUMPTIONS = ["float weights: exactness is in exact arithmetic; numeric residue checked at 1e-6 relative on samples"]


def explain_problems(inst, sol, tol_float=1e-6):
    """property C02 on the user's graph: for every non-ignored edge (node) sum of weight*traversals == flow"""
    cls = inst["cls"]
    key = models.route_key(cls)
    wint = inst["weight_type"] == "int"
    node = inst.get("origin", "edge") == "node"
    routes, ws = sol[key], sol["weights"]
    probs = []
    if wint and not all(isinstance(w, int) for w in ws):
        probs.append(f"weights {ws} are not all of the requested type int")
    if not wint and not all(isinstance(w, float) for w in ws):
        probs.append(f"weights {ws} are not all of the requested type float")
    if node:
        got = Counter()
        for r, w in zip(routes, ws):
            for v in r:
                got[v] += Fraction(w) if wint else w
        ign = set(inst.get("ignore", []))
        for v, q in inst["node_flow"]:
            if v in ign:
                continue
            want = frac(q)
            g = got.get(v, 0)
            if (wint and Fraction(g) != want) or (not wint and abs(float(g) - float(want)) > tol_float * max(1.0, float(want))):
                probs.append(f"node {v!r}: weights through it sum to {g}, flow is {want}")
    else:
        got = Counter()
        for r, w in zip(routes, ws):
            for e in zip(r[:-1], r[1:]):
                got[e] += Fraction(w) if wint else w
        ign = {tuple(e) for e in inst.get("ignore", [])}
        for u, v, q in inst["flow"]:
            if (u, v) in ign:
                continue
            want = frac(q)
            g = got.get((u, v), 0)
            if (wint and Fraction(g) != want) or (not wint and abs(float(g) - float(want)) > tol_float * max(1.0, float(want))):
                probs.append(f"edge ({u!r},{v!r}): weight*traversals sums to {g}, flow is {want}")
    return probs


def fd_instance(rng, cls):
    inst = models.instance(rng, cls, features=False)
    r = rng.random()
    if cls in ("kFlowDecomp", "MinFlowDecomp"):
        inst["options"] = {"optimize_with_greedy": rng.random() < 0.5}
        if r < 0.25:
            inst["constraints"] = [[list(e) for e in c] for c in gen.subpaths(rng, inst["nodes"], [tuple(e) for e in inst["edges"]])]
        if cls == "kFlowDecomp":
            inst["k"] = inst["planted_routes"] + rng.choice([0, 0, 1])
            if rng.random() < 0.2:
                vals = sorted({frac(x[2]) for x in inst["flow"]})
                # given weights: the planted weights are a subset of {1,2,3,5,8}(*1/2)
                base = [1, 2, 3, 5, 8] if inst["weight_type"] == "int" else [0.5, 1.0, 1.5, 2.5, 4.0]
                inst["given_weights"] = [qstr(b) for b in base for _ in range(2)]
        if cls == "MinFlowDecomp" and rng.random() < 0.25:
            inst["options"]["optimize_with_guessed_weights"] = True
    else:
        inst["k"] = inst.get("planted_routes", 2) + rng.choice([0, 1])
        if r < 0.2:
            inst["constraints"] = [[list(e) for e in rng.sample([tuple(e) for e in inst["edges"]], 1)]]
    return inst


def to_node_instance(rng, inst):
    """node-weighted twin: node values = flow through the node (sum of planted route weights)"""
    return None


def k5_case(ctx, inst, suite="K5.flow_explained"):
    cls = inst["cls"]
    try:
        m = models.build(ctx.fp, inst)
        solved = bool(m.solve())
    except ValueError:
        ctx.rep.count(suite, inst, nontrivial=False, hist=[cls, "ValueError"]); return None
    if not solved:
        ctx.rep.count(suite, inst, nontrivial=False, hist=[cls, "unsolved"]); return None
    try:
        sol = m.get_solution()
        if sol is None:          # (C18 finding: first call may return None) ask again
            sol = m.get_solution()
    except Exception as e:               # solved, and then no decomposition: the input that does it is the replay
        from fpv import common as _c
        if isinstance(e, _c.Infra):
            raise
        ctx.rep.count(suite, inst, nontrivial=True, hist=[cls, "get_solution raised"])
        ctx.violation(f"{cls}.solve() reported solved but get_solution() raised {type(e).__name__}: {str(e)[:160]}", inst,
                      site=f"{cls}.get_solution:exception")
        return None
    key = models.route_key(cls)
    route = "greedy" if getattr(m, "external_solution_paths", None) is not None or \
        getattr(getattr(m, "fd_model", None), "external_solution_paths", None) is not None else \
        "given-weights" if inst.get("given_weights") else "milp"
    ctx.rep.cov["oracle_evaluations"] += 1
    ctx.rep.count(suite, inst, nontrivial=sum(1 for w in sol["weights"] if w) >= 2,
                  hist=[cls, route, inst["weight_type"]] + (["constraints"] if inst.get("constraints") else [])
                  + (["ignore"] if inst.get("ignore") else []))
    for p in explain_problems(inst, sol):
        ctx.violation(f"{cls}.get_solution() [{route} route]: {p}", dict(inst, solution={key: sol[key], "weights": sol["weights"]}),
                      site=f"{cls}.get_solution:{route}")
        break
    return sol


def run(ctx):
    rng = ctx.rng
    k2.run_k2(ctx, K2_ADAPTERS, ctx.n(150, 3000))
    per = ctx.n(25, 300)
    for cls in ["kFlowDecomp", "MinFlowDecomp", "kFlowDecompCycles", "MinFlowDecompCycles"]:
        for it in range(per):
            inst = fd_instance(rng, cls)
            sol = k5_case(ctx, inst)
            if it == 0 and sol:
                ctx.rep.sample({"instance": inst, "solution": {k: sol[k] for k in sol if not k.startswith("_")}})
    # node-weighted input (incl. cyclic graphs with self-loops: a node visited several times counts several times)
    for cls in ["kFlowDecomp", "MinFlowDecomp", "kFlowDecompCycles", "MinFlowDecompCycles"]:
        for it in range(ctx.n(10, 100)):
            inst = models.node_instance(rng, cls)
            inst["options"] = {"optimize_with_greedy": rng.random() < 0.5} if cls in ("kFlowDecomp", "MinFlowDecomp") else {}
            k5_case(ctx, inst, suite="K5.node_mode")
    # ... with a weighted node that has no edges at all: its value is explained by a route consisting of that node alone
    for cls in ["kFlowDecomp", "MinFlowDecomp"]:
        for it in range(ctx.n(4, 30)):
            inst = models.node_instance(rng, cls)
            inst["nodes"] = inst["nodes"] + ["iso9"]; rng.shuffle(inst["nodes"])
            inst["node_flow"] = inst["node_flow"] + [["iso9", str(rng.randint(1, 9))]]
            inst["options"] = {"optimize_with_greedy": rng.random() < 0.5}
            if "k" in inst:
                inst["k"] += 1
            k5_case(ctx, inst, suite="K5.node_mode_isolated_node")
    # zero-flow edges together with ignored edges (MILP route): nothing may be routed with positive weight over a
    # non-ignored edge of flow 0
    for it in range(ctx.n(40, 400)):
        cls = rng.choice(["kFlowDecomp", "MinFlowDecomp"])
        nodes, edges = gen.dag(rng, n=rng.randint(3, 6), min_edges=4)
        touched = {x for e in edges for x in e}
        nodes = [v for v in nodes if v in touched]
        f, paths, ws = gen.flow_from_paths(rng, nodes, edges, wtype=int, cover=False, npaths=rng.randint(1, 2))
        zero = [e for e in edges if f[e] == 0]
        pos = [e for e in edges if f[e] > 0]
        if not zero or not pos:
            continue
        inst = {"cls": cls, "nodes": nodes, "edges": [list(e) for e in edges], "origin": "edge", "weight_type": "int",
                "constraints": [], "coverage": "1", "starts": [], "ends": [],
                "ignore": [list(e) for e in rng.sample(pos, rng.randint(1, min(2, len(pos))))],
                "flow": [[u, v, qstr(f[(u, v)])] for (u, v) in edges], "k": rng.randint(1, 3),
                "options": {"optimize_with_greedy": False}}
        k5_case(ctx, inst, suite="K5.zero_flow_and_ignored")
    # ignored edges with arbitrary values on the ignored edges (their flow must not matter)
    for it in range(ctx.n(20, 200)):
        cls = rng.choice(["kFlowDecomp", "kFlowDecompCycles"])
        inst = fd_instance(rng, cls)
        es = [tuple(e) for e in inst["edges"]]
        ig = rng.sample(es, 1)
        inst["ignore"] = [list(e) for e in ig]
        inst["flow"] = [[u, v, (qstr(frac(q) + rng.choice([1, 2, 7])) if (u, v) in ig else q)] for u, v, q in inst["flow"]]
        inst["options"] = {}
        k5_case(ctx, inst, suite="K5.ignored")
    large_value_cases(ctx)
    nearly_conserving_cases(ctx)
    fractional_cases(ctx, ctx.n(16, 160))


def large_instance(rng, cls):
    """planted weights in the hundreds / thousands, MILP route: the solver reports integer weights such as 557.9999999999999"""
    nodes, edges = gen.dag(rng, n=rng.randint(4, 7), min_edges=5)
    touched = {x for e in edges for x in e}
    nodes = [v for v in nodes if v in touched]
    f, paths, ws = gen.flow_from_paths(rng, nodes, edges, wtype=int, cover=True, npaths=rng.randint(0, 2),
                                       weights=[rng.randint(50, 6000) for _ in range(6)])
    inst = {"cls": cls, "nodes": nodes, "edges": [list(e) for e in edges], "origin": "edge", "weight_type": "int",
            "constraints": [], "coverage": "1", "starts": [], "ends": [], "ignore": [],
            "flow": [[u, v, qstr(f[(u, v)])] for (u, v) in edges], "options": {"optimize_with_greedy": False}}
    if cls == "kFlowDecomp":
        inst["k"] = len(paths)
    return inst


def large_value_cases(ctx, suite="K5.large_values"):
    for it in range(ctx.n(60, 600)):
        k5_case(ctx, large_instance(ctx.rng, ctx.rng.choice(["kFlowDecomp", "MinFlowDecomp"])), suite=suite)


def nearly_conserving_cases(ctx, suite="K5.nearly_conserving"):
    """a conserving flow scaled by 10^9..10^12 with ONE edge off by one (plain ints): whatever the class does with it
    (documented: ValueError), a decomposition it reports as solved has to explain every edge exactly"""
    rng = ctx.rng
    for it in range(ctx.n(12, 120)):
        inst = fd_instance(rng, rng.choice(["kFlowDecomp", "MinFlowDecomp"]))
        inst["weight_type"] = "int"
        inst["options"] = {}
        inst.pop("given_weights", None)
        scale = 10 ** rng.randint(9, 12)
        inner = [i for i, (u, v, q) in enumerate(inst["flow"])]
        j = rng.choice(inner)
        inst["flow"] = [[u, v, qstr(frac(q) * scale + (1 if i == j else 0))] for i, (u, v, q) in enumerate(inst["flow"])]
        if any(frac(q).denominator != 1 for _, _, q in inst["flow"]):
            continue
        inst["k"] = inst.get("k", 3) + 1 if inst["cls"] == "kFlowDecomp" else inst.get("k")
        if inst["k"] is None:
            inst.pop("k")
        k5_case(ctx, inst, suite=suite)


def fractional_cases(ctx, n, suite="K5.fractional_flow_int_weights", rng=None):
    """weight_type=int on flow values with a fractional part whose integer parts alone are decomposable (a planted integer
    flow plus 1/2 along one source-to-sink route): no integer-weighted decomposition explains such values exactly, so a
    model may be unsolved or reject - but whatever it reports as solved is judged like any other answer"""
    import networkx as nx
    rng = rng or ctx.rng
    for it in range(n):
        cls = rng.choice(["kFlowDecomp", "MinFlowDecomp", "kFlowDecompCycles", "MinFlowDecompCycles"])
        inst = fd_instance(rng, cls)
        inst["weight_type"] = "int"
        inst.pop("given_weights", None)
        inst["options"] = {"optimize_with_greedy": False} if cls in ("kFlowDecomp", "MinFlowDecomp") else {}
        G = nx.DiGraph(); G.add_nodes_from(inst["nodes"]); G.add_edges_from(tuple(e) for e in inst["edges"])
        srcs = [v for v in G if G.in_degree(v) == 0]; snks = [v for v in G if G.out_degree(v) == 0]
        route = None
        for s_ in srcs:
            for t_ in snks:
                if nx.has_path(G, s_, t_):
                    route = nx.shortest_path(G, s_, t_); break
            if route:
                break
        if not route or len(route) < 2:
            continue
        on = set(zip(route[:-1], route[1:]))
        inst["flow"] = [[u, v, qstr(frac(q) + (Fraction(1, 2) if (u, v) in on else 0))] for u, v, q in inst["flow"]]
        if "k" in inst:
            inst["k"] = inst["k"] + 1
        k5_case(ctx, inst, suite=suite)


def search(ctx):
    fractional_cases(ctx, 60, suite="search.fractional", rng=random.Random(202))
    rng = random.Random(99)
    for cls in ["kFlowDecomp", "MinFlowDecomp", "kFlowDecompCycles", "MinFlowDecompCycles"]:
        for it in range(60):
            k5_case(ctx, fd_instance(rng, cls), suite="search")


def replay(ctx, payload):
    inp = payload.get("input") or {}
    if "cls" in inp:
        inp = {k: v for k, v in inp.items() if k != "solution"}
        print(k5_case(ctx, inp, suite="replay"))
