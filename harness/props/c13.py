"""C13 — solved means proven optimal; inconclusive solver runs never yield an answer.

Proof: FP/Props/C13.lean about the search state machines of FP/Model/Search.lean.
Tie (K3): the real Min* searches are run with every single solver-invocation position forced to an
inconclusive status (native kTimeLimit/kInterrupt/kUnknown, custom timeout flag, scripted clock);
the observed (k, status) trace and the final answer must equal the Lean machine's run on the same
status script. Independent trace oracle: solved => its k ended kOptimal and every earlier k ended
kInfeasible; getters raise unless solved.
"""
import json, random
import networkx as nx
from fpv import gen, inject
from fpv.common import frac

THEOREMS = ["FP.Props.C13.solved_iff_optimal", "FP.Props.C13.getter_only_when_optimal",
            "FP.Props.C13.search_sound", "FP.Props.C13.search_complete",
            "FP.Props.C13.no_answer_after_inconclusive", "FP.Props.C13.search_trace",
            "FP.Props.C13.timed_sound", "FP.Props.C13.timed_complete",
            "FP.Props.C13.timed_no_answer_after_inconclusive", "FP.Props.C13.skip_violates", "FP.Props.C13.given_sound", "FP.Props.C13.given_no_answer_after_inconclusive",
            "FP.Props.C13.npo_returns_only_optimal", "FP.Props.C13.flag_reflects_last_run",
            "FP.Props.C13.resolve_getter_only_when_last_optimal", "FP.Props.C13.never_solved_before_first_run"]
IMPORTS = ["FP.Props.C13"]
RULE = ("for each generated input the fault-free run is recorded, then every solver-invocation position (and, in the "
        "thorough tier, pairs) is forced to each inconclusive status; a case = (class, input, fault plan); non-trivial "
        "iff the plan changes the trace w.r.t. the fault-free run or the fault-free search needs more than one k")
MODEL_SCOPE = ("modelled: the k-loops of MinFlowDecomp, MinFlowDecompCycles (with the elapsed-time check), MinPathCover, "
               "MinPathCoverCycles, MinGenSet, NumPathsOptimization, the solved flag and check_is_solved of the k-models; "
               "not modelled: the real clock (scripted), SIGALRM delivery, what HiGHS does inside one solve")
TRUSTED = ["status strings of highspy map to {optimal, infeasible, other} as in Driver.parseStatus"]
ASSUMPTIONS = ["a forced status stands for what a real time limit/interrupt would report at that invocation"]

INCONCLUSIVE = ["kTimeLimit", "kInterrupt", "kUnknown", "custom_timeout", "sigalrm"]


def norm(st):
    if st == "kOptimal": return "optimal"
    if st == "kInfeasible": return "infeasible"
    return "other"


# ------------------------------------------------------------------ inputs

def diamonds(rng):
    """chain of two diamonds whose flow splits differ: width 2 but three paths needed, so the search visits
    more than one k (and a guessed-weights decomposition is larger than the lower bound)"""
    tot = rng.randint(5, 9)
    a = rng.randint(1, tot - 1)
    b = rng.choice([x for x in range(1, tot) if x != a and x != tot - a])
    G = nx.DiGraph()
    for (u, v, f) in [("s", "a1", a), ("a1", "m", a), ("s", "a2", tot - a), ("a2", "m", tot - a),
                      ("m", "b1", b), ("b1", "t", b), ("m", "b2", tot - b), ("b2", "t", tot - b)]:
        G.add_edge(u, v, flow=f)
    return G


def mfd_input(rng):
    if rng.random() < 0.35:
        return diamonds(rng)
    nodes, edges = gen.dag(rng, n=rng.randint(4, 7), p=rng.choice([0.4, 0.6]), min_edges=4)
    f, paths, ws = gen.flow_from_paths(rng, nodes, edges, wtype=int)
    G = nx.DiGraph(); G.add_nodes_from(nodes)
    for (u, v) in edges:
        G.add_edge(u, v, flow=f[(u, v)])
    return G


def cyc_input(rng):
    for _ in range(50):
        nodes, edges = gen.digraph_scc(rng, max_nodes=6)
        if len(edges) < 4:
            continue
        G = nx.DiGraph(); G.add_nodes_from(nodes); G.add_edges_from(edges)
        if any(G.in_degree(v) == 0 for v in G) and any(G.out_degree(v) == 0 for v in G):
            # every edge on a source-sink walk?
            srcs = [v for v in G if G.in_degree(v) == 0]; snks = [v for v in G if G.out_degree(v) == 0]
            fw = set().union(*[nx.descendants(G, s) | {s} for s in srcs])
            bw = set().union(*[nx.ancestors(G, t) | {t} for t in snks])
            if all(u in fw and v in bw for u, v in G.edges()):
                return G
    G = nx.DiGraph(); G.add_edges_from([("s", "a"), ("a", "b"), ("b", "a"), ("a", "t")])
    return G


def walk_flow(rng, G, nwalks=None):
    """positive integer flow = superposition of random source-sink walks covering all edges"""
    srcs = [v for v in G if G.in_degree(v) == 0]
    f = {e: 0 for e in G.edges()}
    left = set(G.edges())
    walks = 0
    while left and walks < 60:
        v = rng.choice(srcs); w = rng.choice([1, 2, 3]); steps = 0
        used = []
        while G.out_degree(v) > 0 and steps < 40:
            succ = list(G.successors(v))
            pref = [x for x in succ if (v, x) in left]
            x = rng.choice(pref) if pref and rng.random() < 0.8 else rng.choice(succ)
            used.append((v, x)); v = x; steps += 1
        if G.out_degree(v) == 0:
            for e in used:
                f[e] += w
            left -= set(used); walks += 1
    return f


# ------------------------------------------------------------------ one search run

def run_search(ctx, kind, make, kclasses, plan, late_at=None):
    """returns dict(trace=[(k,status)], solved=bool, answer=k|None, lo=, hi=, getter_ok=bool)"""
    fp = ctx.fp
    with inject.SolverFaults(fp, plan) as sf, inject.SolveTrace(kclasses) as tr:
        m = make()
        patched = None
        if late_at is not None:
            cls = type(m)
            patched = cls.solve_time_elapsed
            count = {"n": 0}
            me_tr = tr
            cls.solve_time_elapsed = property(lambda self: (1e18 if sum(1 for e_ in me_tr.log if not e_[3]) > late_at else 0.0))
        try:
            try:
                ret = m.solve()
                exc = None
            except SystemExit as e:
                ret, exc = None, "SystemExit(%r)" % (e.code,)
            except Exception as e:
                ret, exc = None, repr(e)
        finally:
            if patched is not None:
                type(m).solve_time_elapsed = patched
        solved = bool(m.is_solved())
        answer, getter_ok = None, False
        try:
            sol = m.get_solution()
            getter_ok = True
            key = "paths" if "paths" in sol else "walks"
            answer = len(sol[key])
        except Exception:
            pass
        lo = m.get_lowerbound_k() if exc is None else None
    ktrace = [(k, st) for (k, st, s, g) in tr.log if not g]
    given = [(k, st, s) for (k, st, s, g) in tr.log if g]
    given_count = None
    gm = getattr(m, "_given_weights_model", None)
    if gm is not None and gm.is_solved():
        for kw in ({"remove_empty_paths": True}, {"remove_empty_walks": True}):
            try:
                sol = gm.get_solution(**kw)
                given_count = len(sol.get("paths", sol.get("walks", [])))
                break
            except TypeError:
                continue
    return {"trace": ktrace, "ret": ret, "exc": exc, "solved": solved, "given_trace": given, "given_count": given_count,
            "answer": answer, "getter_ok": getter_ok, "lo": lo, "invocations": sf.count, "model": m,
            "alarms": list(sf.alarms), "solver_log": list(sf.log)}


def compare(ctx, suite, label, inp_desc, res, kind, hi, late=None):
    """trace equality with the Lean machine + the independent trace oracle"""
    trace = res["trace"]
    lo = res["lo"]
    # a real SIGALRM delivered during a solver invocation must make that run inconclusive
    for (idx, st) in res.get("solver_log", []):
        if idx in res.get("alarms", []) and st in ("kOptimal", "kInfeasible"):
            ctx.violation(f"{label}: the custom time-out alarm fired during solver invocation {idx} but the model status is reported as {st}",
                          {"class": label, "input": inp_desc, "invocation": idx, "status": st}, site=label + ".custom_timeout")
    if res["exc"] and res["exc"].startswith("SystemExit"):
        ctx.violation(f"{label}.solve() terminated the interpreter with {res['exc']} instead of reporting not-solved",
                      {"class": label, "input": inp_desc}, site=label + ".solve:exit")
        return None
    if lo is None:
        lo = trace[0][0] if trace else 0
    if res.get("given_count") is not None:
        if kind == "timed" and late and any(late):
            return None      # ready-made decomposition combined with a clock hit: not modelled, skipped
        kind = "given"
    req = {"op": "search", "kind": kind, "lo": lo, "hi": hi, "script": [st for (_, st) in trace]}
    if kind == "given":
        req["given"] = res["given_count"]
    if kind == "timed":
        req["late"] = late
    model = ctx.driver.call(req)
    impl_tried = [[k, norm(st)] for (k, st) in trace]
    # the accepted k is the k of the last model tried (get_solution may drop empty routes, so the
    # number of returned routes can be smaller than k)
    impl_solved = None
    if res["solved"]:
        impl_solved = trace[-1][0] if (trace and trace[-1][1] == "kOptimal") else res.get("given_count")
        if impl_solved is None and trace:
            impl_solved = trace[-1][0]
    case = {"class": label, "input": inp_desc, "lo": lo, "hi": hi, "trace": trace, "late": late,
            "ret": res["ret"], "solved": res["solved"], "answer": res["answer"]}
    ctx.rep.cov["traces_validated_against_impl"] += 1
    if res["exc"]:
        ctx.disagree(suite, case, {"exception": res["exc"]}, model, "solve() raised")
        return case
    # when the machine wants to look at a k the real code never tried, it records (k, other): compare
    # only up to that point but flag the length mismatch
    if model["tried"] != impl_tried or model["solved"] != impl_solved or bool(res["ret"]) != (impl_solved is not None):
        ctx.disagree(suite, case, {"tried": impl_tried, "solved": impl_solved, "ret": res["ret"]}, model)
    # oracle (property text): an answer only if its own k was proven optimal and all smaller tried ones infeasible
    ctx.rep.cov["oracle_evaluations"] += 1
    if res["solved"] or res["getter_ok"] or res["ret"]:
        if res.get("given_count") is not None and not (trace and trace[-1][1] == "kOptimal"):
            # the ready-made decomposition was taken: every k-model tried before must have been proven infeasible
            ok = all(st == "kInfeasible" for (_, st) in trace) and (not trace or trace[-1][0] < res["given_count"])
        else:
            ok = bool(trace) and trace[-1][1] == "kOptimal" and all(st == "kInfeasible" for (_, st) in trace[:-1])
        if late is not None and any(late[:len(trace)]):
            ok = False
        if not ok:
            ctx.violation(f"{label}: answer reported although the status sequence was {trace} (late={late})", case,
                          site=label + ".solve")
        elif trace and res["answer"] is not None and res["answer"] > max(trace[-1][0], res.get("given_count") or 0):
            ctx.violation(f"{label}: returned {res['answer']} routes from the model for k={trace[-1][0]}", case,
                          site=label + ".solve")
    return case


def sweep(ctx, suite, label, kind, make, kclasses, hi_of, inp_desc, pairs=False, timed=False):
    base = run_search(ctx, kind, make, kclasses, {})
    hi = hi_of(base["model"])
    late0 = [False] * len(base["trace"]) if timed else None
    c = compare(ctx, suite, label, inp_desc, base, kind, hi, late0)
    ctx.rep.count(suite, [label, inp_desc, "nofault"], nontrivial=len(base["trace"]) > 1, hist=[label, "fault-free"])
    ctx.rep.sample({"class": label, "fault_plan": {}, "trace": base["trace"], "solved": base["solved"],
                    "given_weights_model": base.get("given_trace"), "given_count": base.get("given_count")})
    n = base["invocations"]
    plans = [{j: st} for j in range(n) for st in INCONCLUSIVE]
    # longer searches: the first j invocations are forced infeasible, then an inconclusive one / the truth
    for j in (1, 2) if not pairs else (1, 2, 3):
        pre = {i: "kInfeasible" for i in range(j)}
        plans.append(dict(pre))
        for st in (INCONCLUSIVE if pairs else ["kTimeLimit", "sigalrm"]):
            plans.append({**pre, j: st})
    if pairs:
        plans += [{i: "kTimeLimit", j: "kUnknown"} for i in range(n) for j in range(i + 1, n)]
    def accepted(res):
        t = res["trace"]
        if not res["solved"]:
            return None
        return t[-1][0] if (t and t[-1][1] == "kOptimal") else res.get("given_count")
    base_k = accepted(base)
    for plan in plans:
        r = run_search(ctx, kind, make, kclasses, plan)
        late = [False] * len(r["trace"]) if timed else None
        compare(ctx, suite, label, dict(inp_desc, plan={str(k): v for k, v in plan.items()}), r, kind, hi, late)
        # independent of the trace: a fault plan that only makes runs INCONCLUSIVE (at any solver invocation, auxiliary models
        # - lower bounds, generating sets, given weights - included) hides information but never changes the truth, so a
        # reported answer must be the fault-free one
        if base_k is not None and plan and all(st in INCONCLUSIVE for st in plan.values()):
            ctx.rep.cov["oracle_evaluations"] += 1
            k_f = accepted(r)
            if k_f is not None and k_f < base_k:
                # the faulted search found FEWER routes than the fault-free one: then it is the fault-free answer that is not
                # minimal (an over-estimating lower bound, i.e. the min-gen-set findings of C04 / C05) - not a C13 matter:
                # the faulted answer was proven for its k with every smaller k infeasible (checked by `compare` above)
                h = ctx.rep.suite(suite)["histogram"]
                h["fault-free answer larger than a faulted one (lower bound over-estimates: C04/C05)"] = \
                    h.get("fault-free answer larger than a faulted one (lower bound over-estimates: C04/C05)", 0) + 1
            if k_f is not None and k_f > base_k:
                ctx.violation(f"{label}: with the inconclusive solver run(s) {plan} the search reports an answer with k={k_f} "
                              f"({r['answer']} routes), the fault-free search proves the minimum k={base_k}",
                              {"class": label, "input": inp_desc, "plan": {str(a): b for a, b in plan.items()}, "trace": r["trace"],
                               "fault_free_trace": base["trace"], "solver_log": r.get("solver_log")}, site=label + ".solve")
        ctx.rep.count(suite, [label, inp_desc, sorted(plan.items())], nontrivial=r["trace"] != base["trace"],
                      hist=[label] + [f"fault@{'first' if j == 0 else 'later'}" for j, st_ in plan.items() if st_ != "kInfeasible"]
                      + list(plan.values()))
    if timed:
        for j in range(len(base["trace"])):
            r = run_search(ctx, kind, make, kclasses, {}, late_at=j)
            late = [i >= j for i in range(len(r["trace"]))]
            compare(ctx, suite, label, dict(inp_desc, late_at=j), r, kind, hi, late)
            ctx.rep.count(suite, [label, inp_desc, "late", j], nontrivial=True, hist=[label, "clock"])


def gdesc(G, attr="flow"):
    return {"nodes": list(G.nodes()), "edges": [[u, v, G[u][v].get(attr)] for u, v in G.edges()]}


def run(ctx):
    fp, rng = ctx.fp, ctx.rng
    thorough = not ctx.quick()
    # ---- corpus: inputs that once exposed something, run first
    from fpv import common as _c
    for pth in sorted((_c.CORPUS / "C13").glob("*.json")):
        c = json.loads(pth.read_text())
        if c.get("class") != "MinFlowDecomp":
            continue
        for scale in (1, 2):
            G = nx.DiGraph()
            for u, v, f in c["edges"]:
                G.add_edge(u, v, flow=f * scale)
            copts = dict(c.get("options", {}))
            mk = lambda: fp.MinFlowDecomp(G, flow_attr="flow", weight_type=int, optimization_options=dict(copts),
                                          solver_options={"time_limit": 300})
            sweep(ctx, "K3.corpus", "MinFlowDecomp", "stop", mk, [fp.kFlowDecomp],
                  lambda m: ctx.model_hi("MinFlowDecomp", m), dict(gdesc(G), options=copts, corpus=pth.name), pairs=thorough)
    # ---- MinFlowDecomp
    for it in range(ctx.n(6, 24)):
        G = mfd_input(rng)
        greedy = rng.random() < 0.3
        opts = {"optimize_with_greedy": greedy}
        if it % 3 == 1:
            opts["optimize_with_guessed_weights"] = True
        if it % 3 == 2:
            opts["use_min_gen_set_lowerbound"] = True
            G = diamonds(rng)            # MinGenSet is slow on many distinct values: keep these inputs small
        mk = lambda: fp.MinFlowDecomp(G, flow_attr="flow", weight_type=int, optimization_options=dict(opts),
                                      solver_options={"time_limit": 300})
        sweep(ctx, "K3.MinFlowDecomp", "MinFlowDecomp", "stop", mk, [fp.kFlowDecomp],
              lambda m: ctx.model_hi("MinFlowDecomp", m), dict(gdesc(G), options=dict(opts)), pairs=thorough)
    # ---- MinPathCover
    for it in range(ctx.n(5, 18)):
        G = mfd_input(rng)
        mk = lambda: fp.MinPathCover(G, solver_options={"time_limit": 300})
        sweep(ctx, "K3.MinPathCover", "MinPathCover", "stop", mk, [fp.kPathCover],
              lambda m: ctx.model_hi("MinPathCover", m), gdesc(G), pairs=thorough)
    # ---- cyclic
    for it in range(ctx.n(5, 18)):
        G = cyc_input(rng)
        f = walk_flow(rng, G)
        for e, w in f.items():
            G[e[0]][e[1]]["flow"] = max(1, w)
        if not all(sum(G[u][v]["flow"] for u in G.predecessors(v)) == sum(G[v][w]["flow"] for w in G.successors(v))
                   for v in G if G.in_degree(v) and G.out_degree(v)):
            continue
        copts = {}
        if it % 3 == 1:
            copts["optimize_with_guessed_weights"] = True
        if it % 3 == 2:
            copts["use_min_gen_set_lowerbound"] = True
        mk = lambda: fp.MinFlowDecompCycles(G, flow_attr="flow", weight_type=int, optimization_options=dict(copts),
                                            solver_options={"time_limit": 300})
        sweep(ctx, "K3.MinFlowDecompCycles", "MinFlowDecompCycles", "timed", mk, [fp.kFlowDecompCycles],
              lambda m: ctx.model_hi("MinFlowDecompCycles", m), gdesc(G), pairs=False, timed=True)
    # ---- directed: one walk goes round a cycle twice, a second walk has another weight; generating-set lower bound on
    # (its own solver run is the first invocation of the search: an inconclusive one must not move the start of the k loop)
    for it in range(ctx.n(2, 8)):
        w1 = rng.choice([1, 2]); w2 = rng.choice([3, 5, 7]); r = rng.choice([2, 2, 3])
        G = nx.DiGraph()
        es = [("s", "c", w1), ("c", "d", r * w1), ("d", "c", (r - 1) * w1), ("d", "t", w1), ("s", "e", w2), ("e", "t", w2)]
        rng.shuffle(es)
        for u, v, f in es:
            G.add_edge(u, v, flow=f)
        copts = {"use_min_gen_set_lowerbound": True}
        mk = lambda: fp.MinFlowDecompCycles(G, flow_attr="flow", weight_type=int, optimization_options=dict(copts),
                                            solver_options={"time_limit": 300})
        sweep(ctx, "K3.MinFlowDecompCycles", "MinFlowDecompCycles", "timed", mk, [fp.kFlowDecompCycles],
              lambda m: ctx.model_hi("MinFlowDecompCycles", m), dict(gdesc(G), options=dict(copts)), pairs=False, timed=True)
    for it in range(ctx.n(5, 18)):
        G = cyc_input(rng)
        mk = lambda: fp.MinPathCoverCycles(G, solver_options={"time_limit": 300})
        sweep(ctx, "K3.MinPathCoverCycles", "MinPathCoverCycles", "stop", mk, [fp.kPathCoverCycles],
              lambda m: ctx.model_hi("MinPathCoverCycles", m), gdesc(G, None), pairs=thorough)
    run_mgs(ctx)
    run_npo(ctx)
    run_getters(ctx)
    run_resolve(ctx)
    run_solver_config(ctx)
    large_objective_cases(ctx, ctx.n(12, 150))


def run_mgs(ctx):
    """MinGenSet: the loop is inside solve(); statuses are read from the solver-level log"""
    fp, rng = ctx.fp, ctx.rng
    for it in range(ctx.n(12, 80)):
        nums = sorted({rng.randint(1, 12) for _ in range(rng.randint(2, 5))})
        total = sum(rng.sample(nums, min(len(nums), rng.randint(1, len(nums))))) + rng.choice([0, 0, 1, 3])
        lb = rng.choice([1, 1, 2, 0])
        def one(plan):
            with inject.SolverFaults(fp, plan) as sf:
                m = fp.MinGenSet(list(nums), total=total, weight_type=int, lowerbound=lb, solver_options={"time_limit": 100})
                ret = m.solve()
                solved = bool(m.is_solved())
                ans = None
                try:
                    s = m.get_solution()
                    ans = None if s is None else len(s)
                except Exception:
                    pass
            return m, ret, solved, ans, sf
        m, ret, solved, ans, sf = one({})
        n = sf.count
        hi = ctx.model_hi("MinGenSet", m)
        for plan in [{}] + [{j: st} for j in range(n) for st in INCONCLUSIVE[:3]]:
            m, ret, solved, ans, sf = one(plan)
            lo = max(lb, 1)                  # the loop starts at max(lowerbound, 1) (fix: the model for k = 0 is empty)
            trace = [(lo + idx, st) for (idx, st) in sf.log]
            kind = ctx.model_kind("MinGenSet")
            model = ctx.driver.call({"op": "search", "kind": kind, "lo": lo, "hi": hi, "script": [st for _, st in trace]})
            case = {"class": "MinGenSet", "numbers": nums, "total": total, "lowerbound": lb,
                    "plan": {str(k): v for k, v in plan.items()}, "trace": trace, "solved": solved, "answer": ans}
            ctx.rep.count("K3.MinGenSet", case, nontrivial=bool(plan) or len(trace) > 1, hist=["MinGenSet"] + list(plan.values()))
            ctx.rep.cov["traces_validated_against_impl"] += 1
            impl_tried = [[k, norm(st)] for k, st in trace]
            impl_solved = ans if solved else None
            if model["tried"] != impl_tried or model["solved"] != impl_solved:
                ctx.disagree("K3.MinGenSet", case, {"tried": impl_tried, "solved": impl_solved}, model)
            ctx.rep.cov["oracle_evaluations"] += 1
            if solved or ans is not None:
                if not (trace and trace[-1][1] == "kOptimal" and all(st == "kInfeasible" for _, st in trace[:-1])):
                    ctx.violation(f"MinGenSet returned an answer after the status sequence {trace}", case, site="MinGenSet.solve")


def run_npo(ctx):
    """NumPathsOptimization over kMinPathError / kLeastAbsErrors with scripted statuses"""
    fp, rng = ctx.fp, ctx.rng
    for it in range(ctx.n(6, 40)):
        G = mfd_input(rng)
        for e in list(G.edges()):
            G[e[0]][e[1]]["flow"] += rng.choice([0, 0, 1, -1 if G[e[0]][e[1]]["flow"] > 1 else 0])
        cls = rng.choice([fp.kMinPathError, fp.kLeastAbsErrors])
        cfgs = [dict(stop_on_first_feasible=True), dict(stop_on_delta_abs=rng.choice([0.5, 1, 2])),
                dict(stop_on_delta_rel=rng.choice([0.05, 0.2])), dict(stop_on_delta_abs=1, stop_on_delta_rel=0.1)]
        cfg = rng.choice(cfgs)
        maxk = rng.randint(2, 5)

        def one(plan):
            objs = []
            with inject.SolverFaults(fp, plan) as sf, inject.SolveTrace([cls]) as tr:
                orig = cls.get_objective_value
                try:
                    m = fp.NumPathsOptimization(model_type=cls, G=G, flow_attr="flow", weight_type=int,
                                                min_num_paths=1, max_num_paths=maxk, **cfg)
                    try:
                        ret = m.solve(); exc = None
                    except ZeroDivisionError as e:
                        ret, exc = None, "zeroDivision"
                    solved = False
                    try:
                        solved = bool(m.is_solved())
                    except AttributeError:
                        solved = False
                    ansk = None
                    if solved:
                        ansk = m.model.k
                    lo = max(1, m.get_lowerbound_k())
                finally:
                    pass
            return m, ret, exc, solved, ansk, lo, tr.log, sf

        m, ret, exc, solved, ansk, lo, log, sf = one({})
        n = sf.count
        for plan in [{}] + [{j: st} for j in range(n) for st in ("kTimeLimit", "kUnknown")]:
            m, ret, exc, solved, ansk, lo, log, sf = one(plan)
            # objective per k from the k-models themselves (only defined when solved)
            trace = [(k, st) for (k, st, s, g_) in log]
            objs = []
            for (k, st, s, g_) in log:
                objs.append("0")
            # recompute objective values of solved models for the script
            req_obj = []
            for (k, st, s, g_) in log:
                if s:
                    mm = cls(G=G, flow_attr="flow", weight_type=int, k=k); mm.solve()
                    req_obj.append(str(frac(round(mm.get_objective_value()))))
                else:
                    req_obj.append("0")
            req = {"op": "npo", "lo": lo, "hi": maxk, "script": [st for _, st in trace], "obj": req_obj,
                   "late": [False] * len(trace), "first": bool(cfg.get("stop_on_first_feasible")),
                   "deltaAbs": str(frac(cfg["stop_on_delta_abs"])) if cfg.get("stop_on_delta_abs") else None,
                   "deltaRel": str(frac(cfg["stop_on_delta_rel"])) if cfg.get("stop_on_delta_rel") else None}
            model = ctx.driver.call(req)
            case = {"class": "NumPathsOptimization", "model_type": cls.__name__, "graph": gdesc(G), "cfg": cfg,
                    "max_num_paths": maxk, "plan": {str(k): v for k, v in plan.items()}, "trace": trace,
                    "solved": solved, "answer_k": ansk}
            ctx.rep.count("K3.NumPathsOptimization", case, nontrivial=bool(plan) or len(trace) > 1,
                          hist=["NPO", cls.__name__] + list(cfg.keys()) + list(plan.values()))
            ctx.rep.cov["traces_validated_against_impl"] += 1
            impl_tried = [[k, norm(st)] for k, st in trace]
            impl_ans = ansk if solved else None
            if exc == "zeroDivision":
                if model["status"] != "zeroDivision":
                    ctx.disagree("K3.NumPathsOptimization", case, "ZeroDivisionError", model)
            elif model["tried"] != impl_tried or model["answer"] != impl_ans:
                ctx.disagree("K3.NumPathsOptimization", case, {"tried": impl_tried, "answer": impl_ans}, model)
            ctx.rep.cov["oracle_evaluations"] += 1
            if solved:
                st_of = dict(trace)
                if st_of.get(ansk) != "kOptimal":
                    ctx.violation(f"NumPathsOptimization returned the model for k={ansk} whose status was {st_of.get(ansk)}",
                                  case, site="NumPathsOptimization.solve")


def run_getters(ctx):
    """a k-model hands out data only after kOptimal (any class, any forced status)"""
    fp, rng = ctx.fp, ctx.rng
    classes = [("kFlowDecomp", lambda G, k: fp.kFlowDecomp(G, flow_attr="flow", k=k, weight_type=int,
                                                           optimization_options={"optimize_with_greedy": False})),
               ("kLeastAbsErrors", lambda G, k: fp.kLeastAbsErrors(G, flow_attr="flow", k=k, weight_type=int)),
               ("kMinPathError", lambda G, k: fp.kMinPathError(G, flow_attr="flow", k=k, weight_type=int)),
               ("kPathCover", lambda G, k: fp.kPathCover(G, k=k))]
    for it in range(ctx.n(10, 60)):
        G = mfd_input(rng)
        name, mk = rng.choice(classes)
        k = rng.randint(1, 4)
        for st in [None] + INCONCLUSIVE + ["kInfeasible"]:
            with inject.SolverFaults(fp, {} if st is None else {0: st}) as sf:
                m = mk(G, k)
                pre_ok = True
                try:
                    m.get_solution(); pre_ok = False
                except Exception:
                    pass
                ret = m.solve()
                status = m.solver.get_model_status()
                got = True
                try:
                    m.get_solution(); m.get_objective_value()
                except Exception:
                    got = False
            case = {"class": name, "graph": gdesc(G), "k": k, "forced": st, "status": status, "solve": ret,
                    "is_solved": m.is_solved(), "getter_returned": got}
            ctx.rep.count("K3.getters", case, nontrivial=st is not None, hist=[name, str(st)])
            ctx.rep.cov["oracle_evaluations"] += 1
            want = (status == "kOptimal")
            if not pre_ok:
                ctx.violation(f"{name}.get_solution() returned data before solve()", case, site=name + ".get_solution")
            if bool(ret) != want or bool(m.is_solved()) != want or got != want:
                ctx.violation(f"{name}: status {status} but solve()={ret}, is_solved()={m.is_solved()}, getter_returned={got}",
                              case, site=name + ".solve")


def run_resolve(ctx):
    """the same model object solved twice: first for real (proven optimal), then again with the run forced inconclusive /
    infeasible. After the second solve() the object must not call itself solved, and it must hand out nothing.
    Cyclic k-models and the utility classes (MinSetCover, MinGenSet: one solve, forced status) are included."""
    fp, rng = ctx.fp, ctx.rng
    def cyc_graph():
        G = nx.DiGraph()
        for u, v, f in [("s", "a", 2), ("a", "b", 4), ("b", "a", 2), ("b", "t", 2)]:
            G.add_edge(u, v, flow=f * rng.choice([1, 2]))
        return G
    classes = [("kFlowDecomp", lambda: fp.kFlowDecomp(mfd_input(rng), flow_attr="flow", k=rng.randint(2, 4), weight_type=int,
                                                      optimization_options={"optimize_with_greedy": False})),
               ("kLeastAbsErrors", lambda: fp.kLeastAbsErrors(mfd_input(rng), flow_attr="flow", k=rng.randint(1, 3), weight_type=int)),
               ("kPathCover", lambda: fp.kPathCover(mfd_input(rng), k=rng.randint(2, 5))),
               ("kFlowDecompCycles", lambda: fp.kFlowDecompCycles(cyc_graph(), flow_attr="flow", k=rng.randint(1, 2), weight_type=int)),
               ("kPathCoverCycles", lambda: fp.kPathCoverCycles(cyc_graph(), k=rng.randint(1, 2)))]
    for it in range(ctx.n(10, 60)):
        name, mk = rng.choice(classes)
        for st in INCONCLUSIVE[:3] + ["kInfeasible"]:
            m = mk()
            first = m.solve()
            if not first or not m.is_solved():
                continue
            with inject.SolverFaults(fp, {0: st}):
                ret = m.solve()
                status = m.solver.get_model_status()
                got = True
                try:
                    m.get_solution(); m.get_objective_value()
                except Exception:
                    got = False
            case = {"class": name, "sequence": ["solve() -> optimal", f"solve() again, forced {st}"], "status": status,
                    "second_solve": ret, "is_solved": bool(m.is_solved()), "getter_returned": got}
            ctx.rep.count("K3.resolve", case, nontrivial=True, hist=[name, st])
            ctx.rep.cov["oracle_evaluations"] += 1
            if status != "kOptimal" and (ret or m.is_solved() or got):
                ctx.violation(f"{name}: solved once, then solve() again ended with {status}: solve()={ret}, is_solved()={m.is_solved()}, "
                              f"getters returned data={got}", case, site=name + ".solve:resolve")
    # utility classes: one solve with a forced status
    for it in range(ctx.n(6, 30)):
        n = rng.randint(3, 6)
        universe = list(range(n))
        subsets = [sorted(rng.sample(universe, rng.randint(1, n))) for _ in range(rng.randint(2, 5))] + [universe]
        for st in INCONCLUSIVE[:3] + ["kInfeasible"]:
            with inject.SolverFaults(fp, {0: st}):
                m = fp.MinSetCover(universe=universe, subsets=subsets)
                ret = m.solve()
                try:
                    solved = bool(m.is_solved())
                except Exception:
                    solved = False
                got = True
                try:
                    sol = m.get_solution()
                    got = sol is not None
                except Exception:
                    got = False
            case = {"class": "MinSetCover", "universe": universe, "subsets": subsets, "forced": st, "solve": ret,
                    "is_solved": solved, "getter_returned": got}
            ctx.rep.count("K3.resolve", case, nontrivial=True, hist=["MinSetCover", st])
            ctx.rep.cov["oracle_evaluations"] += 1
            if ret or solved or got:
                ctx.violation(f"MinSetCover: the run ended with {st} but solve()={ret}, is_solved()={solved}, get_solution() returned "
                              f"data={got}", case, site="MinSetCover.solve")


GAP_OPTIONS = ["mip_rel_gap", "mip_abs_gap"]


def run_solver_config(ctx, suite="K3.solver_config"):
    """'kOptimal = proven optimal' is HiGHS's contract only up to its gap options. The models (FP/Model/Search.lean: status
    optimal) read it as 'optimal within the wrapper's tolerance', so the options in force WHEN optimize() runs must not be
    looser than that tolerance (tighter is fine)."""
    fp = ctx.fp
    SW = fp.utils.solverwrapper.SolverWrapper
    for kw in ({}, {"tolerance": 1e-6}, {"tolerance": 1e-9, "time_limit": 50, "threads": 1}):
        sw = SW(**kw)
        x = sw.add_variables([0, 1], name_prefix="x", lb=0, ub=3, var_type="integer")
        sw.set_objective(sum(x[i] for i in x), sense="minimize")
        sw.optimize()
        tol = kw.get("tolerance", SW.tolerance)
        got = {}
        for name in GAP_OPTIONS + ["mip_feasibility_tolerance", "primal_feasibility_tolerance"]:
            r = sw.solver.getOptionValue(name)
            got[name] = r[1] if isinstance(r, tuple) else r
        case = {"solver_options": {k: v for k, v in kw.items()}, "tolerance": tol, "in_force": got}
        ctx.rep.count(suite, case, nontrivial=True, hist=["tolerance=%g" % tol])
        ctx.rep.cov["traces_validated_against_impl"] += 1
        loose = {n: v for n, v in got.items() if not (isinstance(v, (int, float)) and v <= tol * (1 + 1e-12))}
        if loose:
            ctx.disagree(suite, case, {"looser_than_tolerance": loose}, {"assumed_at_most": tol},
                         note="HiGHS stops as soon as one gap criterion holds: kOptimal is then reported without optimality "
                              "proven at the wrapper's tolerance")


def setcover_bruteforce(universe, subsets, weights):
    best = None
    n = len(subsets)
    for mask in range(1, 1 << n):
        cov = set()
        w = 0
        for i in range(n):
            if mask >> i & 1:
                cov |= set(subsets[i]); w += weights[i]
        if cov >= set(universe) and (best is None or w < best):
            best = w
    return best


def large_objective_cases(ctx, n, suite="K5.large_objective", rng=None):
    """solved => optimal, on instances whose objective values are in the millions with near-ties (a relative gap of 1e-4
    is then worth hundreds of units): MinSetCover against exhaustive search"""
    fp = ctx.fp
    rng = rng or ctx.rng
    for it in range(n):
        m_el = rng.randint(8, 14)
        universe = list(range(m_el))
        nsub = rng.randint(9, 13)
        subsets = [sorted(rng.sample(universe, rng.randint(2, 5))) for _ in range(nsub)]
        for e in universe:
            if not any(e in s_ for s_ in subsets):
                subsets[rng.randrange(nsub)].append(e)
        weights = [1000000 + rng.randint(0, 400) for _ in subsets]
        best = setcover_bruteforce(universe, subsets, weights)
        try:
            msc = fp.MinSetCover(universe=universe, subsets=subsets, subset_weights=weights)
            ok = msc.solve()
        except Exception as e:
            raise
        case = {"class": "MinSetCover", "universe": universe, "subsets": subsets, "subset_weights": weights, "optimum": best}
        ctx.rep.count(suite, case, nontrivial=True, hist=["MinSetCover", "solved" if ok else "unsolved"])
        ctx.rep.cov["oracle_evaluations"] += 1
        if ok and msc.is_solved():
            sol = msc.get_solution()
            got = sum(weights[i] for i in sol)
            if got != best:
                ctx.violation(f"MinSetCover reports solved with a cover of weight {got}; exhaustive search finds {best} "
                              f"(optimality was not proven at the wrapper's tolerance)", dict(case, returned=list(sol)),
                              site="MinSetCover.solve:optimality")


def search(ctx):
    # the fault-injection oracles already ran on every injected case; what is left to enumerate is the quality of
    # 'kOptimal' itself on instances where a loose gap matters
    large_objective_cases(ctx, 120, suite="search.large_objective", rng=random.Random(1313))


def replay(ctx, payload):
    print(json.dumps(payload, indent=1)[:3000])
    run(ctx)
