"""C14 — walk reconstruction uses every edge exactly as often as the solver decided.

Proof: FP/Props/C14.lean (`reconstruct_euler`, `reconstruct_zero`) about FP/Model/Euler.lean.
Tie: K1 exact-output differential of `_reconstruct_eulerian_walk` / `_build_closed_walk_from_vertex`
(real code on a bare subclass instance) and of `_build_residual_graph_for_layer` / `get_solution_walks`
(real, constructed model objects with an injected assignment) against the Lean driver on generated
Eulerian s-t multigraphs and on malformed ones.
"""
import json, random
from collections import Counter

THEOREMS = ["FP.Props.C14.reconstruct_euler", "FP.Props.C14.reconstruct_zero"]
IMPORTS = ["FP.Props.C14", "FP.Proofs.EulerExample"]
RULE = ("Eulerian s-t multigraphs generated directly as superpositions of a random s-t walk and closed walks "
        "attached at visited vertices (self-loops, multiplicities>1, nested closed walks), adjacency order shuffled; "
        "plus a malformed stream (unbalanced / disconnected). A case is non-trivial iff it is a distinct adjacency "
        "structure on which the first greedy trail does not consume all edges (the splice loop runs).")
MODEL_SCOPE = ("modelled: _reconstruct_eulerian_walk, _build_closed_walk_from_vertex, list building of "
               "_build_residual_graph_for_layer; python round() of solver values is exercised with exact and "
               "near-integral floats but not modelled")
TRUSTED = ["python list.pop/index/slice-insert semantics as transcribed in FP/Model/Euler.lean"]
ASSUMPTIONS = ["solver values are within 0.5 of the intended integer multiplicity (round())"]


def make_stub(fp, nodes, edges, source, sink):
    W = fp.abstractwalkmodeldigraph.AbstractWalkModelDiGraph

    class G:
        pass
    g = G()
    g.source, g.sink = source, sink
    g.nodes = lambda: list(nodes)
    g.edges = lambda: list(edges)

    # a real subclass (class attributes and helper methods of the walk model stay reachable), constructed without
    # running __init__ (no graph preprocessing, no solver)
    class Stub(W):
        def __init__(self):
            pass
    Stub.__abstractmethods__ = frozenset()
    s = Stub()
    s.G = g
    return s


def gen_eulerian(rng, n, extra_cycles, maxlen):
    """returns (nodes, adjacency dict as ordered list of (v, [out...])), source 'S', sink 'T'"""
    inner = [f"v{i}" for i in range(n)]
    walk = ["S"]
    cur = rng.choice(inner)
    walk.append(cur)
    for _ in range(rng.randint(0, maxlen)):
        cur = rng.choice(inner) if rng.random() < 0.8 else cur   # self loops
        walk.append(cur)
    walk.append("T")
    edges = list(zip(walk[:-1], walk[1:]))
    visited = [v for v in walk if v not in ("S", "T")]
    for _ in range(extra_cycles):
        start = rng.choice(visited)
        c = [start]
        for _ in range(rng.randint(0, 4)):
            c.append(rng.choice(inner))
        c.append(start)
        edges += list(zip(c[:-1], c[1:]))
        visited += c
    nodes = ["S"] + inner + ["T"]
    rng.shuffle(nodes)
    adj = {v: [] for v in nodes}
    rng.shuffle(edges)
    for (u, v) in edges:
        adj[u].append(v)
    return nodes, adj


def first_trail_len(adj, source):
    g = {v: l[:] for v, l in adj.items()}
    cur, n = source, 0
    while g[cur]:
        cur = g[cur].pop(); n += 1
    return n


def oracle(adj, source, sink, walk):
    """property oracle: source :: walk ++ [sink] uses exactly the edge multiset"""
    total = sum(len(l) for l in adj.values())
    if total == 0:
        return walk == []
    full = [source] + list(walk) + [sink]
    used = Counter(zip(full[:-1], full[1:]))
    want = Counter((u, v) for u, l in adj.items() for v in l)
    return used == want


def is_eulerian(adj, source, sink):
    out = {v: len(l) for v, l in adj.items()}
    inn = Counter(v for l in adj.values() for v in l)
    for v in adj:
        d = out[v] - inn.get(v, 0)
        if v == source:
            if d != 1: return False
        elif v == sink:
            if d != -1: return False
        elif d != 0:
            return False
    # connectivity of vertices with out-edges from source
    seen, st = {source}, [source]
    while st:
        u = st.pop()
        for w in adj[u]:
            if w not in seen:
                seen.add(w); st.append(w)
    return all((not l) or v in seen for v, l in adj.items())


def run_case(ctx, nodes, adj, suite, source="S", sink="T"):
    fp = ctx.fp
    stub = make_stub(fp, nodes, [], source, sink)
    residual = {v: list(adj[v]) for v in nodes}
    impl = stub._reconstruct_eulerian_walk(residual, 0)
    model = ctx.driver.call({"op": "euler", "adj": [[v, adj[v]] for v in nodes], "source": source, "sink": sink})
    total = sum(len(l) for l in adj.values())
    nontriv = first_trail_len(adj, source) < total
    inp = {"nodes": nodes, "adj": [[v, adj[v]] for v in nodes], "source": source, "sink": sink}
    ctx.rep.count(suite, inp["adj"], nontrivial=nontriv,
                  hist=[f"edges<={10*((total+9)//10)}", "splice" if nontriv else "no-splice"])
    ctx.rep.cov["traces_validated_against_impl"] += 1
    if list(impl) != list(model["walk"]):
        ctx.disagree(suite, inp, list(impl), model["walk"])
    if is_eulerian(adj, source, sink):
        ctx.rep.cov["oracle_evaluations"] += 1
        if not oracle(adj, source, sink, impl):
            ctx.violation(f"reconstructed walk {impl} does not use exactly the decided edge multiset", inp,
                          site="_reconstruct_eulerian_walk")
    return inp, impl


def run_glue_case(ctx, rng):
    """get_solution_walks of a REAL model object (kFlowDecompCycles / kPathCoverCycles / kLeastAbsErrorsCycles, built by their
    constructors, never solved) on an injected per-layer assignment: rounding of noisy values, str keys, layers, the edges
    at the global source / sink, whatever object state the method reads"""
    import networkx as nx
    fp = ctx.fp
    k = rng.randint(1, 3)
    n_inner = rng.randint(1, 5)
    per_layer = []
    simple = rng.random() < 0.3     # every multiplicity at most 1 (edge-simple walks that may still revisit vertices)
    for i in range(k):
        if rng.random() < 0.15:
            per_layer.append(Counter())
            continue
        for _try in range(30 if simple else 1):
            _, adj = gen_eulerian(rng, n_inner, rng.randint(0, 3), rng.randint(0, 6))
            c = Counter((u, v) for u, l in adj.items() for v in l)
            if max(c.values()) <= 1:
                break
        per_layer.append(c)
    inner = []
    for c in per_layer:
        for (u, v) in c:
            if u != "S" and v != "T" and (u, v) not in inner:
                inner.append((u, v))
    starts = sorted({v for c in per_layer for (u, v) in c if u == "S"})
    ends = sorted({u for c in per_layer for (u, v) in c if v == "T"})
    if not inner or not starts or not ends:
        ctx.rep.count("K1.get_solution_walks", ["skipped", k], nontrivial=False, hist=["no inner edge: skipped"])
        return
    rng.shuffle(inner)
    H = nx.DiGraph()
    for (u, v) in inner:
        H.add_edge(u, v, flow=sum(c.get((u, v), 0) for c in per_layer))
    for v in starts + ends:
        H.add_node(v)
    cls = rng.choice(["kFlowDecompCycles", "kPathCoverCycles", "kLeastAbsErrorsCycles"])
    opts = {"optimize_with_safe_sequences": False, "optimize_with_safety_as_subset_constraints": False,
            "optimize_with_max_safe_antichain_as_subset_constraints": False}
    try:
        if cls == "kPathCoverCycles":
            m = fp.kPathCoverCycles(H, k=k, additional_starts=starts, additional_ends=ends, optimization_options=opts)
        else:
            m = getattr(fp, cls)(H, flow_attr="flow", k=k, weight_type=int, additional_starts=starts, additional_ends=ends,
                                 optimization_options=opts)
    except ValueError as e:
        ctx.rep.count("K1.get_solution_walks", ["rejected", str(e)[:60]], nontrivial=False, hist=["constructor ValueError"])
        return
    src, snk = m.G.source, m.G.sink

    def mult(u, v, i):
        c = per_layer[i]
        if u == src:
            return c.get(("S", v), 0)
        if v == snk:
            return c.get((u, "T"), 0)
        return c.get((u, v), 0)
    sol = {}
    for (u, v) in m.G.edges():
        for i in range(k):
            x = mult(u, v, i)
            noise = rng.choice([0, 0, 1e-7, -1e-7, 0.3, -0.3]) if x > 0 else rng.choice([0, 1e-9, 0.2])
            sol[(str(u), str(v), i)] = x + noise
    m.edge_vars_sol = {}
    m.solver.get_values = lambda _vars: dict(sol)
    walks = m.get_solution_walks()
    nodes = [str(v) for v in m.G.nodes()]
    for i in range(k):
        adj = {v: [] for v in nodes}
        for (u, v) in m.G.edges():
            adj[str(u)] += [str(v)] * mult(u, v, i)
        model = ctx.driver.call({"op": "euler", "adj": [[v, adj[v]] for v in nodes], "source": str(src), "sink": str(snk)})
        inp = {"cls": cls, "k": k, "inner_edges": [[u, v, H[u][v]["flow"]] for (u, v) in H.edges()], "starts": starts, "ends": ends,
               "layer": i, "values": {f"{a}|{b}": sol[(a, b, i)] for (a, b, j) in sol if j == i},
               "adj": [[v, adj[v]] for v in nodes], "nodes": nodes, "source": str(src), "sink": str(snk)}
        ctx.rep.count("K1.get_solution_walks", inp, nontrivial=sum(len(l) for l in adj.values()) > 2,
                      hist=["layer", cls] + (["all multiplicities <= 1"] if all(len(set(l)) == len(l) for l in adj.values()) else []))
        ctx.rep.cov["traces_validated_against_impl"] += 1
        if [str(x) for x in walks[i]] != list(model["walk"]):
            ctx.disagree("K1.get_solution_walks", inp, [str(x) for x in walks[i]], model["walk"])
        ctx.rep.cov["oracle_evaluations"] += 1
        if is_eulerian(adj, str(src), str(snk)) and not oracle(adj, str(src), str(snk), [str(x) for x in walks[i]]):
            ctx.violation(f"{cls}.get_solution_walks, layer {i}: walk {walks[i]} does not realise the rounded multiplicities", inp,
                          site="get_solution_walks")


def run(ctx):
    rng = ctx.rng
    # corpus first
    import pathlib
    from fpv import common
    for p in sorted((common.CORPUS / "C14").glob("*.json")):
        c = json.loads(p.read_text())
        adj = {v: l for v, l in c["adj"]}
        run_case(ctx, c["nodes"], adj, "corpus", c.get("source", "S"), c.get("sink", "T"))
    N = ctx.n(2500, 60000)
    for it in range(N):
        n = rng.randint(1, 4 if it % 3 else 9)
        nodes, adj = gen_eulerian(rng, n, rng.randint(0, 6), rng.randint(0, 12 if ctx.quick() else 40))
        inp, impl = run_case(ctx, nodes, adj, "K1.reconstruct")
        if it < 2:
            ctx.rep.sample({"input": inp, "walk_returned": list(impl)})
    # long walks (hundreds of traversals on a handful of vertices): many closed walks hanging off one another, so that
    # every splice shifts the positions of the vertices behind it
    for it in range(ctx.n(60, 800)):
        nodes, adj = gen_eulerian(rng, rng.randint(2, 4), rng.randint(4, 12), rng.randint(150, 420))
        run_case(ctx, nodes, adj, "K1.long")
    # all-zero assignment
    nodes = ["S", "a", "T"]
    inp, impl = run_case(ctx, nodes, {v: [] for v in nodes}, "K1.zero")
    if impl != []:
        ctx.violation("all-zero assignment does not yield the empty walk", inp, site="_reconstruct_eulerian_walk")
    # malformed stream: delete / add a random edge, compare outputs only
    for it in range(ctx.n(400, 5000)):
        nodes, adj = gen_eulerian(rng, rng.randint(1, 5), rng.randint(0, 4), rng.randint(0, 8))
        u = rng.choice(nodes)
        if adj[u] and rng.random() < 0.5:
            adj[u].pop(rng.randrange(len(adj[u])))
        else:
            adj[u].append(rng.choice(nodes))
        run_case(ctx, nodes, adj, "K1.malformed")
    for it in range(ctx.n(300, 5000)):
        run_glue_case(ctx, rng)


def search(ctx):
    """failing-input search after a broken tie: oracle on disagreeing inputs, then fresh random inputs"""
    rng = random.Random(12345 + ctx.rng.randint(0, 10**6))
    cands = []
    for d in ctx.disagreements:
        inp = d["input"]
        if "adj" in inp:
            cands.append((inp["nodes"], {v: l for v, l in inp["adj"]}))
    for _ in range(20000):
        cands.append(gen_eulerian(rng, rng.randint(1, 6), rng.randint(0, 6), rng.randint(0, 15)))
    for _ in range(400):
        cands.append(gen_eulerian(rng, rng.randint(2, 4), rng.randint(4, 12), rng.randint(150, 420)))
    for nodes, adj in cands:
        if not is_eulerian(adj, "S", "T"):
            continue
        stub = make_stub(ctx.fp, nodes, [], "S", "T")
        try:
            impl = stub._reconstruct_eulerian_walk({v: list(adj[v]) for v in nodes}, 0)
        except Exception as e:
            impl = ["<exception %r>" % e]
        if not oracle(adj, "S", "T", impl):
            # shrink: drop closed walks greedily is complex; keep the smallest failing candidate seen
            ctx.violation(f"reconstructed walk {impl} does not use exactly the decided edge multiset",
                          {"nodes": nodes, "adj": [[v, adj[v]] for v in nodes], "source": "S", "sink": "T"},
                          site="_reconstruct_eulerian_walk")
            if len(ctx.violations) > 30:
                break
    if ctx.violations:
        ctx.violations.sort(key=lambda v: sum(len(l) for _, l in v["input"]["adj"]))


def replay(ctx, payload):
    inp = payload.get("input") or (payload.get("disagreements") or [{}])[0].get("input")
    if not inp or "adj" not in inp:
        print("nothing to replay"); return
    adj = {v: l for v, l in inp["adj"]}
    run_case(ctx, inp["nodes"], adj, "replay", inp.get("source", "S"), inp.get("sink", "T"))
