"""C14 — walk reconstruction uses every edge exactly as often as the solver decided.

Proof: FP/Props/C14.lean (`reconstruct_euler`, `reconstruct_zero` about FP/Model/Euler.lean; `edges_buildResidual`,
`walk_traverses_multiplicity`, `walk_traverses_rounded_values`, `decodeWalkLayer_eq_walkOfValues`, `pyRound_near`, `pyRound_int` about FP/Model/WalkDecode.lean,
FP/Model/WalkDecodeRound.lean and FP/Model/Round.lean: from the solver's values through round() to the walk).
Tie: K1 exact-output differential of `_reconstruct_eulerian_walk` / `_build_closed_walk_from_vertex`
(real code on a bare subclass instance) and of `_build_residual_graph_for_layer` / `get_solution_walks`
(real, constructed model objects with an injected assignment) against the Lean driver on generated
Eulerian s-t multigraphs and on malformed ones.
"""
import json, random
from collections import Counter

THEOREMS = ["FP.Props.C14.reconstruct_euler", "FP.Props.C14.reconstruct_zero",
            "FP.Props.C14.pyRound_near", "FP.Props.C14.pyRound_int", "FP.Props.C14.edges_buildResidual",
            "FP.Props.C14.bal_multEdges", "FP.Props.C14.walk_traverses_multiplicity",
            "FP.Props.C14.walk_traverses_rounded_values", "FP.Props.C14.decodeWalkLayer_eq_walkOfValues",
            "FP.Props.C14.decodeWalkLayer_eq_walkOfMult", "FP.Props.C14.decodeWalkLayer_traverses_rounded_values",
            "FP.Props.C14.Example.exMultST",
            "FP.pyRound_near", "FP.pyRound_int", "FP.pyRound_near_toNat", "FP.WDM.edges_buildResidual",
            "FP.WDM.edges_buildResidual_perm", "FP.WDM.walkOfMult_count", "FP.WDM.walkOfValues_count"]
IMPORTS = ["FP.Props.C14", "FP.Proofs.EulerExample", "FP.Proofs.Round", "FP.Proofs.WalkDecodeMult"]
RULE = ("Eulerian s-t multigraphs generated directly as superpositions of a random s-t walk and closed walks "
        "attached at visited vertices (self-loops, multiplicities>1, nested closed walks), adjacency order shuffled; "
        "plus a malformed stream (unbalanced / disconnected). A case is non-trivial iff it is a distinct adjacency "
        "structure on which the first greedy trail does not consume all edges (the splice loop runs).")
MODEL_SCOPE = ("modelled: _reconstruct_eulerian_walk, _build_closed_walk_from_vertex, _build_residual_graph_for_layer "
               "including python round() of the solver values (FP.pyRound: nearest integer, ties to even, on the exact "
               "rational value of the float) and range() of a negative count; K1.round / K1.residual_round tie the "
               "rounding and the residual adjacency to the real code on ties, near-ties, negative and huge values")
TRUSTED = ["python list.pop/index/slice-insert semantics as transcribed in FP/Model/Euler.lean"]
ASSUMPTIONS = ["walk_traverses_rounded_values: solver values are strictly within 0.5 of the intended integer multiplicity "
               "(a hypothesis of the theorem, no longer an unmodelled step); solver values are finite floats (round() of "
               "nan/inf raises in python and is outside the model)"]


def make_stub(fp, nodes, edges, source, sink):
    W = fp.abstractwalkmodeldigraph.AbstractWalkModelDiGraph

    class G:
        pass
    g = G()
    g.source, g.sink = source, sink
    g.nodes = lambda: list(nodes)
    g.edges = lambda: list(edges)

    # a real subclass (class attributes and helper methods of the walk model stay reachable), constructed without
    # running __init__ (no graph preprocessing, no solver)
    class Stub(W):
        def __init__(self):
            pass
    Stub.__abstractmethods__ = frozenset()
    s = Stub()
    s.G = g
    return s


def gen_eulerian(rng, n, extra_cycles, maxlen):
    """returns (nodes, adjacency dict as ordered list of (v, [out...])), source 'S', sink 'T'"""
    inner = [f"v{i}" for i in range(n)]
    walk = ["S"]
    cur = rng.choice(inner)
    walk.append(cur)
    for _ in range(rng.randint(0, maxlen)):
        cur = rng.choice(inner) if rng.random() < 0.8 else cur   # self loops
        walk.append(cur)
    walk.append("T")
    edges = list(zip(walk[:-1], walk[1:]))
    visited = [v for v in walk if v not in ("S", "T")]
    for _ in range(extra_cycles):
        start = rng.choice(visited)
        c = [start]
        for _ in range(rng.randint(0, 4)):
            c.append(rng.choice(inner))
        c.append(start)
        edges += list(zip(c[:-1], c[1:]))
        visited += c
    nodes = ["S"] + inner + ["T"]
    rng.shuffle(nodes)
    adj = {v: [] for v in nodes}
    rng.shuffle(edges)
    for (u, v) in edges:
        adj[u].append(v)
    return nodes, adj


def first_trail_len(adj, source):
    g = {v: l[:] for v, l in adj.items()}
    cur, n = source, 0
    while g[cur]:
        cur = g[cur].pop(); n += 1
    return n


def oracle(adj, source, sink, walk):
    """property oracle: source :: walk ++ [sink] uses exactly the edge multiset"""
    total = sum(len(l) for l in adj.values())
    if total == 0:
        return walk == []
    full = [source] + list(walk) + [sink]
    used = Counter(zip(full[:-1], full[1:]))
    want = Counter((u, v) for u, l in adj.items() for v in l)
    return used == want


def is_eulerian(adj, source, sink):
    out = {v: len(l) for v, l in adj.items()}
    inn = Counter(v for l in adj.values() for v in l)
    for v in adj:
        d = out[v] - inn.get(v, 0)
        if v == source:
            if d != 1: return False
        elif v == sink:
            if d != -1: return False
        elif d != 0:
            return False
    # connectivity of vertices with out-edges from source
    seen, st = {source}, [source]
    while st:
        u = st.pop()
        for w in adj[u]:
            if w not in seen:
                seen.add(w); st.append(w)
    return all((not l) or v in seen for v, l in adj.items())


def run_case(ctx, nodes, adj, suite, source="S", sink="T"):
    fp = ctx.fp
    stub = make_stub(fp, nodes, [], source, sink)
    residual = {v: list(adj[v]) for v in nodes}
    impl = stub._reconstruct_eulerian_walk(residual, 0)
    model = ctx.driver.call({"op": "euler", "adj": [[v, adj[v]] for v in nodes], "source": source, "sink": sink})
    total = sum(len(l) for l in adj.values())
    nontriv = first_trail_len(adj, source) < total
    inp = {"nodes": nodes, "adj": [[v, adj[v]] for v in nodes], "source": source, "sink": sink}
    ctx.rep.count(suite, inp["adj"], nontrivial=nontriv,
                  hist=[f"edges<={10*((total+9)//10)}", "splice" if nontriv else "no-splice"])
    ctx.rep.cov["traces_validated_against_impl"] += 1
    if list(impl) != list(model["walk"]):
        ctx.disagree(suite, inp, list(impl), model["walk"])
    if is_eulerian(adj, source, sink):
        ctx.rep.cov["oracle_evaluations"] += 1
        if not oracle(adj, source, sink, impl):
            ctx.violation(f"reconstructed walk {impl} does not use exactly the decided edge multiset", inp,
                          site="_reconstruct_eulerian_walk")
    return inp, impl


def frac_str(x):
    from fractions import Fraction
    f = Fraction(x)
    return f"{f.numerator}/{f.denominator}"


def nearest_even(x):
    """independent oracle for the text 'nearest integer, ties to even' in exact rational arithmetic (no round())"""
    from fractions import Fraction
    f = Fraction(x)
    lo = f.numerator // f.denominator
    d = f - lo
    if d < Fraction(1, 2):
        return lo
    if d > Fraction(1, 2):
        return lo + 1
    return lo if lo % 2 == 0 else lo + 1


def draw_round_float(rng):
    """(label, float) — ties, near-ties, near-integers, huge, tiny, negative zero"""
    import math
    kind = rng.choice(["tie", "tie", "near-tie", "near-int", "big52", "big53", "tiny", "negzero", "uniform", "int"])
    k = rng.randint(-60, 60)
    if kind == "tie":
        k = rng.choice([k, rng.randint(-10**6, 10**6), rng.randint(-2**40, 2**40)])
        return f"tie/{'even' if k % 2 == 0 else 'odd'}/{'neg' if k < 0 else 'nonneg'}", k + 0.5
    if kind == "near-tie":
        x = k + 0.5
        for _ in range(rng.randint(1, 3)):
            x = math.nextafter(x, rng.choice([-math.inf, math.inf]))
        return "near-tie", x
    if kind == "near-int":
        eps = rng.choice([1e-9, 1e-7, 0.3, 0.49, 0.4999, 0.49999999999]) * rng.choice([1, -1])
        return "near-int", k + eps
    if kind == "big52":
        b = 2.0 ** 52 + rng.randint(-6, 6) * 0.5
        return "around 2^52", b * rng.choice([1, -1])
    if kind == "big53":
        b = 2.0 ** 53 + rng.randint(-6, 6)
        return "around 2^53", rng.choice([b, -b, b * 2 ** rng.randint(1, 200)])
    if kind == "tiny":
        return "tiny", rng.choice([5e-324, -5e-324, 1e-300, -1e-300, 2.2250738585072014e-308, 1e-17, -1e-17])
    if kind == "negzero":
        return "zero", rng.choice([-0.0, 0.0])
    if kind == "int":
        return "integral float", float(k)
    return "uniform", rng.uniform(-50, 50)


def run_round_suite(ctx, rng, n):
    """python round(float) against FP.pyRound on the exact rational value of the float"""
    batch = []
    for _ in range(n):
        batch.append(draw_round_float(rng))
        if len(batch) == 100:
            run_round_batch(ctx, batch); batch = []
    if batch:
        run_round_batch(ctx, batch)


def run_round_batch(ctx, batch):
    model = ctx.driver.call({"op": "round.py", "xs": [frac_str(x) for _, x in batch]})
    for j, (label, x) in enumerate(batch):
        impl = round(x)
        r = range(impl)                      # len() of a huge range overflows ssize_t; an empty range is falsy
        cnt = len(r) if abs(impl) < 2 ** 62 else (r.stop - r.start if r else 0)
        inp = {"x": repr(x), "fraction": frac_str(x)}
        ctx.rep.count("K1.round", inp["fraction"], nontrivial=(x != int(x)), hist=[label])
        ctx.rep.cov["traces_validated_against_impl"] += 1
        if impl != model["rounded"][j] or cnt != model["counts"][j]:
            ctx.disagree("K1.round", inp, [impl, cnt], [model["rounded"][j], model["counts"][j]])
        ctx.rep.cov["oracle_evaluations"] += 1
        if impl != nearest_even(x):
            ctx.violation(f"round({x!r}) = {impl} is not the nearest integer with ties to even", inp, site="round")


def run_residual_case(ctx, rng):
    """_build_residual_graph_for_layer of the real class (bare subclass instance) on non-integral values — exact ties,
    0.4999, negative values, missing keys, other layers' keys — against buildResidual on pyRound multiplicities"""
    n = rng.randint(1, 5)
    ints = rng.random() < 0.3            # integer node ids: the keys of edge_vars_sol are str(u), str(v)
    nodes = list(range(n)) if ints else [f"v{i}" for i in range(n)]
    rng.shuffle(nodes)
    pairs = [(u, v) for u in nodes for v in nodes]
    rng.shuffle(pairs)
    edges = pairs[:rng.randint(0, len(pairs))]
    layer = rng.randint(0, 2)
    stub = make_stub(ctx.fp, nodes, edges, nodes[0], nodes[-1])
    sol, vals, labels = {}, [], set()
    for (u, v) in edges:
        r = rng.random()
        if r < 0.1:
            vals.append(None); labels.add("missing key")
            sol[(str(u), str(v), layer + 1)] = 3.0      # another layer's value must not leak
            continue
        k = rng.randint(0, 3)
        if rng.random() < 0.15:          # size thresholds of fixed-width integer types (a cycle used hundreds of times)
            k = rng.choice([127, 128, 129, 150, 255, 256, 257, 300, 32767, 32768, 65535, 65536]); labels.add("multiplicity >= 127")
        if r < 0.45:
            x = rng.choice([k + 0.5, -0.5, -1.5, -2.5]); labels.add("tie")
        elif r < 0.8:
            x = k + rng.choice([0.4999, -0.4999, -1e-9, 1e-9, 0.3, -0.3, 0.49999999999]); labels.add("near")
        else:
            x = rng.choice([float(k), k, -float(k), -0.0]); labels.add("integral")
        sol[(str(u), str(v), layer)] = x
        vals.append(x)
    stub.edge_vars_sol = sol
    impl = stub._build_residual_graph_for_layer(layer)
    impl_l = [[str(v), [str(w) for w in impl[v]]] for v in impl]
    model = ctx.driver.call({"op": "residual.round", "nodes": [str(v) for v in nodes],
                             "edges": [[str(u), str(v)] for (u, v) in edges],
                             "values": [None if x is None else frac_str(x) for x in vals]})
    inp = {"nodes": [str(v) for v in nodes], "edges": [[str(u), str(v)] for (u, v) in edges], "layer": layer,
           "values": [None if x is None else repr(x) for x in vals]}
    ctx.rep.count("K1.residual_round", [inp["nodes"], inp["edges"], inp["values"]],
                  nontrivial=any(x is not None and x != int(x) for x in vals), hist=sorted(labels) or ["no edge"])
    ctx.rep.cov["traces_validated_against_impl"] += 1
    if impl_l != model["adj"]:
        ctx.disagree("K1.residual_round", inp, impl_l, model["adj"])
    # independent oracle: every graph edge occurs max(0, nearest-even(value)) times, nothing else occurs
    ctx.rep.cov["oracle_evaluations"] += 1
    want = Counter()
    for (u, v), x in zip(edges, vals):
        if x is not None and nearest_even(x) > 0:
            want[(u, v)] = nearest_even(x)
    got = Counter((u, w) for u, l in impl.items() for w in l)
    if got != want or list(impl) != list(nodes):
        ctx.violation(f"residual graph {impl} does not hold every edge round(value) times", inp,
                      site="_build_residual_graph_for_layer")


def run_glue_case(ctx, rng):
    """get_solution_walks of a REAL model object (kFlowDecompCycles / kPathCoverCycles / kLeastAbsErrorsCycles, built by their
    constructors, never solved) on an injected per-layer assignment: rounding of noisy values, str keys, layers, the edges
    at the global source / sink, whatever object state the method reads"""
    import networkx as nx
    fp = ctx.fp
    k = rng.randint(1, 3)
    n_inner = rng.randint(1, 5)
    per_layer = []
    simple = rng.random() < 0.3     # every multiplicity at most 1 (edge-simple walks that may still revisit vertices)
    for i in range(k):
        if rng.random() < 0.15:
            per_layer.append(Counter())
            continue
        for _try in range(30 if simple else 1):
            _, adj = gen_eulerian(rng, n_inner, rng.randint(0, 3), rng.randint(0, 6))
            c = Counter((u, v) for u, l in adj.items() for v in l)
            if max(c.values()) <= 1:
                break
        per_layer.append(c)
    inner = []
    for c in per_layer:
        for (u, v) in c:
            if u != "S" and v != "T" and (u, v) not in inner:
                inner.append((u, v))
    starts = sorted({v for c in per_layer for (u, v) in c if u == "S"})
    ends = sorted({u for c in per_layer for (u, v) in c if v == "T"})
    if not inner or not starts or not ends:
        ctx.rep.count("K1.get_solution_walks", ["skipped", k], nontrivial=False, hist=["no inner edge: skipped"])
        return
    rng.shuffle(inner)
    H = nx.DiGraph()
    for (u, v) in inner:
        H.add_edge(u, v, flow=sum(c.get((u, v), 0) for c in per_layer))
    for v in starts + ends:
        H.add_node(v)
    cls = rng.choice(["kFlowDecompCycles", "kPathCoverCycles", "kLeastAbsErrorsCycles"])
    opts = {"optimize_with_safe_sequences": False, "optimize_with_safety_as_subset_constraints": False,
            "optimize_with_max_safe_antichain_as_subset_constraints": False}
    try:
        if cls == "kPathCoverCycles":
            m = fp.kPathCoverCycles(H, k=k, additional_starts=starts, additional_ends=ends, optimization_options=opts)
        else:
            m = getattr(fp, cls)(H, flow_attr="flow", k=k, weight_type=int, additional_starts=starts, additional_ends=ends,
                                 optimization_options=opts)
    except ValueError as e:
        ctx.rep.count("K1.get_solution_walks", ["rejected", str(e)[:60]], nontrivial=False, hist=["constructor ValueError"])
        return
    src, snk = m.G.source, m.G.sink

    def mult(u, v, i):
        c = per_layer[i]
        if u == src:
            return c.get(("S", v), 0)
        if v == snk:
            return c.get((u, "T"), 0)
        return c.get((u, v), 0)
    sol = {}
    for (u, v) in m.G.edges():
        for i in range(k):
            x = mult(u, v, i)
            noise = (rng.choice([0, 0, 1e-7, -1e-7, 0.3, -0.3, 0.4999, -0.4999, 0.49999999999]) if x > 0
                     else rng.choice([0, 1e-9, 0.2, -1e-9, -0.3, 0.4999, -0.4999, -0.0]))
            sol[(str(u), str(v), i)] = x + noise
    m.edge_vars_sol = {}
    m.solver.get_values = lambda _vars: dict(sol)
    walks = m.get_solution_walks()
    nodes = [str(v) for v in m.G.nodes()]
    for i in range(k):
        adj = {v: [] for v in nodes}
        for (u, v) in m.G.edges():
            adj[str(u)] += [str(v)] * mult(u, v, i)
        model = ctx.driver.call({"op": "euler", "adj": [[v, adj[v]] for v in nodes], "source": str(src), "sink": str(snk)})
        inp = {"cls": cls, "k": k, "inner_edges": [[u, v, H[u][v]["flow"]] for (u, v) in H.edges()], "starts": starts, "ends": ends,
               "layer": i, "values": {f"{a}|{b}": sol[(a, b, i)] for (a, b, j) in sol if j == i},
               "adj": [[v, adj[v]] for v in nodes], "nodes": nodes, "source": str(src), "sink": str(snk)}
        ctx.rep.count("K1.get_solution_walks", inp, nontrivial=sum(len(l) for l in adj.values()) > 2,
                      hist=["layer", cls] + (["all multiplicities <= 1"] if all(len(set(l)) == len(l) for l in adj.values()) else []))
        ctx.rep.cov["traces_validated_against_impl"] += 1
        if [str(x) for x in walks[i]] != list(model["walk"]):
            ctx.disagree("K1.get_solution_walks", inp, [str(x) for x in walks[i]], model["walk"])
        ctx.rep.cov["oracle_evaluations"] += 1
        if is_eulerian(adj, str(src), str(snk)) and not oracle(adj, str(src), str(snk), [str(x) for x in walks[i]]):
            ctx.violation(f"{cls}.get_solution_walks, layer {i}: walk {walks[i]} does not realise the rounded multiplicities", inp,
                          site="get_solution_walks")


def run(ctx):
    rng = ctx.rng
    # corpus first
    import pathlib
    from fpv import common
    for p in sorted((common.CORPUS / "C14").glob("*.json")):
        c = json.loads(p.read_text())
        adj = {v: l for v, l in c["adj"]}
        run_case(ctx, c["nodes"], adj, "corpus", c.get("source", "S"), c.get("sink", "T"))
    N = ctx.n(2500, 60000)
    for it in range(N):
        n = rng.randint(1, 4 if it % 3 else 9)
        nodes, adj = gen_eulerian(rng, n, rng.randint(0, 6), rng.randint(0, 12 if ctx.quick() else 40))
        inp, impl = run_case(ctx, nodes, adj, "K1.reconstruct")
        if it < 2:
            ctx.rep.sample({"input": inp, "walk_returned": list(impl)})
    # long walks (hundreds of traversals on a handful of vertices): many closed walks hanging off one another, so that
    # every splice shifts the positions of the vertices behind it
    for it in range(ctx.n(60, 800)):
        nodes, adj = gen_eulerian(rng, rng.randint(2, 4), rng.randint(4, 12), rng.randint(150, 420))
        run_case(ctx, nodes, adj, "K1.long")
    # all-zero assignment
    nodes = ["S", "a", "T"]
    inp, impl = run_case(ctx, nodes, {v: [] for v in nodes}, "K1.zero")
    if impl != []:
        ctx.violation("all-zero assignment does not yield the empty walk", inp, site="_reconstruct_eulerian_walk")
    # malformed stream: delete / add a random edge, compare outputs only
    for it in range(ctx.n(400, 5000)):
        nodes, adj = gen_eulerian(rng, rng.randint(1, 5), rng.randint(0, 4), rng.randint(0, 8))
        u = rng.choice(nodes)
        if adj[u] and rng.random() < 0.5:
            adj[u].pop(rng.randrange(len(adj[u])))
        else:
            adj[u].append(rng.choice(nodes))
        run_case(ctx, nodes, adj, "K1.malformed")
    for it in range(ctx.n(300, 5000)):
        run_glue_case(ctx, rng)
    # python round() itself, then the residual graph of the real class on non-integral values
    run_round_suite(ctx, rng, ctx.n(3000, 60000))
    for it in range(ctx.n(1500, 30000)):
        run_residual_case(ctx, rng)


def search(ctx):
    """failing-input search after a broken tie: oracle on disagreeing inputs, then fresh random inputs"""
    rng = random.Random(12345 + ctx.rng.randint(0, 10**6))
    cands = []
    for d in ctx.disagreements:
        inp = d["input"]
        if "adj" in inp:
            cands.append((inp["nodes"], {v: l for v, l in inp["adj"]}))
    for _ in range(20000):
        cands.append(gen_eulerian(rng, rng.randint(1, 6), rng.randint(0, 6), rng.randint(0, 15)))
    for _ in range(400):
        cands.append(gen_eulerian(rng, rng.randint(2, 4), rng.randint(4, 12), rng.randint(150, 420)))
    for nodes, adj in cands:
        if not is_eulerian(adj, "S", "T"):
            continue
        stub = make_stub(ctx.fp, nodes, [], "S", "T")
        try:
            impl = stub._reconstruct_eulerian_walk({v: list(adj[v]) for v in nodes}, 0)
        except Exception as e:
            impl = ["<exception %r>" % e]
        if not oracle(adj, "S", "T", impl):
            # shrink: drop closed walks greedily is complex; keep the smallest failing candidate seen
            ctx.violation(f"reconstructed walk {impl} does not use exactly the decided edge multiset",
                          {"nodes": nodes, "adj": [[v, adj[v]] for v in nodes], "source": "S", "sink": "T"},
                          site="_reconstruct_eulerian_walk")
            if len(ctx.violations) > 30:
                break
    if ctx.violations:
        ctx.violations.sort(key=lambda v: sum(len(l) for _, l in v["input"]["adj"]))


def replay(ctx, payload):
    inp = payload.get("input") or (payload.get("disagreements") or [{}])[0].get("input")
    if not inp or "adj" not in inp:
        print("nothing to replay"); return
    adj = {v: l for v, l in inp["adj"]}
    run_case(ctx, inp["nodes"], adj, "replay", inp.get("source", "S"), inp.get("sink", "T"))
