"""C01 — returned paths/walks are real source-to-sink routes of the caller's graph.

Proof: FP/Props/C01.lean (DAG path encoding sound and exact for every satisfying assignment; augmentation
well-formed; decoded routes are valid simple routes of the user's graph; k layers).
Tie: K1 augmentation order and decode of injected assignments (real get_solution_paths vs Lean decodePaths),
K2 LP-dump equality of the DAG encoders, K5 end-to-end oracle on get_solution() of every exported class.
"""
import json, random
import networkx as nx
from fpv import gen, models, k2
from fpv.common import qstr, frac

THEOREMS = ["FP.Props.C01.pathcore_sound", "FP.Props.C01.augment_wf", "FP.Props.C01.dag_routes_valid",
            "FP.Props.C01.decodePaths_length", "FP.Props.C01.walkcore_sound", "FP.Props.C01.augment_wfc",
            "FP.Props.C01.walk_routes_valid", "FP.Props.C14.reconstruct_euler"]
IMPORTS = ["FP.Props.C01", "FP.Props.C14", "FP.Proofs.PathCoreExample", "FP.Proofs.WalkCoreExample"]
K2_ADAPTERS = ["kfd", "klae", "kmpe", "kcover", "kfdc", "kcoverc", "klaec", "kmpec"]
RULE = ("K1: random DAGs with additional starts/ends; assignments injected into edge_vars_sol are unions of 1-2 random "
        "s-t paths per layer or empty layers (non-trivial: at least one layer with a tie between selected successors or an "
        "empty layer). K2: random configurations per encoder adapter (non-trivial: LP with more than 8 lines). K5: every "
        "exported class on random small instances with random features (non-trivial: solved instance with >= 2 routes).")
MODEL_SCOPE = ("modelled: _augment_with_source_sink, _encode_paths (10a, 10c, 7a/7b, position/length rows), "
               "get_solution_paths, _encode_walks (17a, 17b, 21, 22a, 22b, 18a, 19c) with the three safety options off, "
               "_build_residual_graph_for_layer + _reconstruct_eulerian_walk (C14), the class encoders listed under K2; "
               "Min* wrappers: forwarding of the user graph is checked by the K5 oracle only; safety-option rows: see C05/C06")
TRUSTED = ["HiGHS returns an assignment satisfying the LP when it reports kOptimal (re-checked by the end-to-end oracle on "
           "the decoded routes)"]
ASSUMPTIONS = ["solver values of binary variables are within the tolerance of 0/1 (get_values(binary_values=True) raises otherwise)"]


def k1_augment(ctx, nodes, edges, starts, ends):
    fp = ctx.fp
    G = nx.DiGraph(); G.add_nodes_from(nodes); G.add_edges_from(edges)
    st = fp.stDAG(G, additional_starts=starts, additional_ends=ends)
    ren = lambda v: "source" if v == st.source else "sink" if v == st.sink else v
    impl = {"nodes": [ren(v) for v in st.nodes()], "edges": [[ren(u), ren(v)] for u, v in st.edges()]}
    model = ctx.driver.call({"op": "augment", "nodes": nodes, "edges": [list(e) for e in edges], "starts": starts, "ends": ends})
    inp = {"nodes": nodes, "edges": [list(e) for e in edges], "starts": starts, "ends": ends}
    ctx.rep.count("K1.augment", inp, nontrivial=bool(starts or ends) or len(edges) > 2, hist=["augment"])
    ctx.rep.cov["traces_validated_against_impl"] += 1
    if impl != model:
        ctx.disagree("K1.augment", inp, impl, model)
    return st, ren


def k1_decode(ctx, rng):
    fp = ctx.fp
    nodes, edges = gen.dag(rng, n=rng.randint(2, 7), min_edges=2)
    starts = rng.sample(nodes, 1) if rng.random() < 0.3 else []
    ends = rng.sample(nodes, 1) if rng.random() < 0.3 else []
    k1_augment(ctx, nodes, edges, starts, ends)
    G = nx.DiGraph(); G.add_nodes_from(nodes); G.add_edges_from(edges)
    k = rng.randint(1, 4)
    m = fp.kPathCover(G, k=k, additional_starts=starts, additional_ends=ends)
    ren = lambda v: "source" if v == m.G.source else "sink" if v == m.G.sink else v
    # injected assignment
    sol = {(str(u), str(v), i): 0 for (u, v) in m.G.edges() for i in range(k)}
    tie = False
    values = []
    for i in range(k):
        npaths = rng.choice([0, 1, 1, 1, 2])
        for _ in range(npaths):
            v = m.G.source
            while v != m.G.sink:
                w = rng.choice(list(m.G.successors(v)))
                sol[(str(v), str(w), i)] = 1
                v = w
        tie = tie or npaths != 1
    for (u, v, i), val in sol.items():
        if val:
            values.append([ren(u), ren(v), i, "1"])
    m.edge_vars_sol = dict(sol)
    impl = m.get_solution_paths()
    model = ctx.driver.call({"op": "decode.paths", "nodes": nodes, "edges": [list(e) for e in edges], "starts": starts,
                             "ends": ends, "k": k, "values": values})
    inp = {"nodes": nodes, "edges": [list(e) for e in edges], "starts": starts, "ends": ends, "k": k, "values": values}
    ctx.rep.count("K1.decode", inp, nontrivial=tie, hist=["decode", f"k={k}"])
    ctx.rep.cov["traces_validated_against_impl"] += 1
    if [list(p) for p in impl] != model:
        ctx.disagree("K1.decode", inp, [list(p) for p in impl], model)
    # oracle on the real decode: each non-empty decoded path is a route of the user's graph
    inst = {"nodes": nodes, "edges": [list(e) for e in edges], "starts": starts, "ends": ends}
    for p in impl:
        if p:
            ctx.rep.cov["oracle_evaluations"] += 1
            pr = models.route_problems(inst, p, True)
            if pr:
                ctx.violation(f"get_solution_paths returned {p}: {pr[0]}", inp, site="get_solution_paths")
    return inp


def solution_problems(inst, m, sol):
    """property C01 on a solved model's get_solution()"""
    cls = inst["cls"]
    key = models.route_key(cls)
    dag = not models.is_cyc(cls)
    routes = sol[key]
    probs = []
    allow_empty_routes = cls in models.HAS_K and bool(
        inst.get("options", {}).get("allow_empty_paths") or inst.get("options", {}).get("allow_empty_walks")
        or inst.get("given_weights") is not None)
    for r in routes:
        if len(r) == 0:
            # an empty route starts and ends nowhere: admissible only where the model allows unused layers
            if not allow_empty_routes:
                probs.append((f"an empty {key[:-1]} is returned (with weights {sol.get('weights')}) although empty {key} are not allowed",
                              "empty"))
            continue
        for p in models.route_problems(inst, r, dag):
            probs.append((f"{key[:-1]} {list(r)}: {p}", "routes"))
    if "weights" in sol:
        if len(sol["weights"]) != len(routes):
            probs.append((f"{len(sol['weights'])} weights for {len(routes)} {key}", "shape"))
        tol = 0 if inst.get("weight_type", "int") == "int" else 1e-6    # float weights: solver tolerance
        if any(w < -tol for w in sol["weights"]):
            probs.append((f"negative weight in {sol['weights']}", "shape"))
    if "slacks" in sol and len(sol["slacks"]) != len(routes):
        probs.append((f"{len(sol['slacks'])} slacks for {len(routes)} {key}", "shape"))
    if cls in models.HAS_K:
        k = m.k
        k_user = inst.get("k", k)         # with given weights the class works with k = len(superset) and caps at the user's k
        if len([r for r in routes if len(r) > 0]) > k_user:
            probs.append((f"{len([r for r in routes if len(r) > 0])} non-empty {key} returned by a model built with k={k_user}", "shape"))
        if len(routes) > k:
            probs.append((f"{len(routes)} {key} returned by a model with k={k}", "shape"))
        allow_empty = bool(inst.get("options", {}).get("allow_empty_paths") or inst.get("options", {}).get("allow_empty_walks")
                           or inst.get("given_weights") is not None)
        if not allow_empty and not inst.get("starts") and not inst.get("ends") and len([r for r in routes]) != k:
            probs.append((f"{len(routes)} {key} returned, exactly k={k} expected (no empty routes allowed, no additional starts/ends)", "shape"))
    return probs


def shared_prefix_instance(rng):
    """s -> a carries w1 + w2 and splits: three distinct values, two paths (the guessed-weights route of MinFlowDecomp has
    more candidate layers than the optimum needs)"""
    w1, w2 = rng.sample([1, 2, 3, 5, 8], 2)
    mid = rng.choice([[], ["m"]])
    tail1 = ["a", "b"] + mid + ["t"]
    edges = [["s", "a"]] + [list(e) for e in zip(tail1[:-1], tail1[1:])] + [["a", "t"]]
    fl = {("s", "a"): w1 + w2, ("a", "t"): w2}
    for e in zip(tail1[:-1], tail1[1:]):
        fl[e] = w1
    nodes = ["s", "a", "b"] + mid + ["t"]
    rng.shuffle(nodes)
    return {"cls": "MinFlowDecomp", "nodes": nodes, "edges": edges, "origin": "edge", "weight_type": rng.choice(["int", "float"]),
            "constraints": [], "coverage": "1", "ignore": [], "starts": [], "ends": [],
            "options": {"optimize_with_guessed_weights": True, "optimize_with_greedy": rng.random() < 0.5},
            "flow": [[u, v, str(fl[(u, v)])] for u, v in edges]}


def decimal_float_instance(rng):
    """flow values that are python float sums of decimal weights (0.1 + 0.2 = 0.30000000000000004): conservation holds only up
    to rounding, residuals of a greedy peeling hit exactly 0 on one side of a node and 2.8e-17 on the other. Only the shape of
    the answer is judged here (routes of the graph, one weight each), which is independent of the arithmetic"""
    for _ in range(50):
        nodes, edges = gen.dag(rng, n=rng.randint(3, 6), min_edges=rng.randint(2, 5))
        touched = {x for e in edges for x in e}
        nodes = [v for v in nodes if v in touched]
        if len(edges) <= 9:
            break
    f, paths, ws = gen.flow_from_paths(rng, nodes, edges, npaths=rng.randint(1, 2), weights=(0.1, 0.2, 0.3, 0.7, 1.1), wtype=float)
    return {"cls": rng.choice(["kFlowDecomp", "kFlowDecomp", "MinFlowDecomp"]), "nodes": list(nodes), "edges": [list(e) for e in edges],
            "origin": "edge", "weight_type": "float", "constraints": [], "coverage": "1", "ignore": [], "starts": [], "ends": [],
            "options": {}, "flow": [[u, v, qstr(f[(u, v)])] for (u, v) in edges], "k": len(paths) + rng.choice([0, 1, 1, 2])}


def k5_case(ctx, inst, suite="K5.end_to_end"):
    fp = ctx.fp
    cls = inst["cls"]
    if ctx.quick() and "solver_options" not in inst:
        inst = dict(inst, solver_options={"time_limit": 20})      # only returned solutions are judged here
    try:
        m = models.build(fp, inst)
        solved = bool(m.solve())
    except ValueError as e:
        ctx.rep.count(suite, inst, nontrivial=False, hist=[cls, "ValueError"])
        return
    if not solved:
        ctx.rep.count(suite, inst, nontrivial=False, hist=[cls, "unsolved"])
        return
    try:
        sol = m.get_solution()
    except Exception as e:               # solved, and then no routes: the input that does it is the replay
        from fpv import common as _c
        if isinstance(e, _c.Infra):
            raise
        ctx.rep.count(suite, inst, nontrivial=True, hist=[cls, "get_solution raised"])
        ctx.violation(f"{cls}.solve() reported solved but get_solution() raised {type(e).__name__}: {str(e)[:160]}", inst,
                      site=f"{cls}.get_solution:exception")
        return None
    ctx.rep.cov["oracle_evaluations"] += 1
    key = models.route_key(cls)
    ctx.rep.count(suite, inst, nontrivial=len(sol[key]) >= 2, hist=[cls, "solved"] + (["constraints"] if inst.get("constraints") else [])
                  + (["starts/ends"] if inst.get("starts") or inst.get("ends") else []) + (["ignore"] if inst.get("ignore") else []))
    for what, kind in solution_problems(inst, m, sol):
        ctx.violation(f"{cls}.get_solution(): {what}", inst, site=f"{cls}.get_solution:{kind}")
        break
    return sol


def run(ctx):
    rng = ctx.rng
    for it in range(ctx.n(400, 6000)):
        inp = k1_decode(ctx, rng)
        if it == 0:
            ctx.rep.sample({"suite": "K1.decode", "input": inp})
    k2.run_k2(ctx, K2_ADAPTERS, ctx.n(40, 1000))
    per = ctx.n(8, 80)
    for cls in models.ALL_CLASSES:
        for it in range(per):
            inst = models.instance(rng, cls)
            sol = k5_case(ctx, inst)
            if it == 0 and sol is not None:
                ctx.rep.sample({"suite": "K5", "instance": inst, "routes": sol[models.route_key(cls)]})
        for it in range(max(2, per // 2)):          # node-weighted input (with additional starts/ends)
            k5_case(ctx, models.node_instance(rng, cls), suite="K5.node_mode")
        # option / argument variants that route the answer through another code path: guessed / given weights
        for it in range(ctx.n(14, 60) if cls == "MinFlowDecomp" else max(2, per // 2)):
            inst = models.instance(rng, cls)
            if cls in ("MinFlowDecomp", "MinFlowDecompCycles"):
                inst["options"] = dict(inst.get("options", {}), optimize_with_guessed_weights=True)
                if rng.random() < 0.5:
                    inst["options"]["use_min_gen_set_lowerbound"] = True
            elif cls in ("kFlowDecomp", "kLeastAbsErrors", "kMinPathError", "kFlowDecompCycles", "kLeastAbsErrorsCycles",
                         "kMinPathErrorCycles") and inst.get("flow"):
                vals = sorted({frac(x[2]) for x in inst["flow"] if frac(x[2]) > 0})
                pool = vals + [frac(1), frac(2)]
                inst["given_weights"] = [qstr(rng.choice(pool)) for _ in range(inst.get("k", 2) + rng.randint(0, 2))]
            else:
                continue
            k5_case(ctx, inst, suite="K5.weights_variants")
        if cls == "MinFlowDecomp":
            for it in range(ctx.n(4, 20)):
                k5_case(ctx, shared_prefix_instance(rng), suite="K5.weights_variants")
            for it in range(ctx.n(30, 300)):
                k5_case(ctx, decimal_float_instance(rng), suite="K5.decimal_floats")
        if cls in ("kLeastAbsErrors", "kMinPathError", "kPathCover", "MinPathCover"):
            for it in range(ctx.n(8, 40)):          # routes that must end/start at a declared inner node
                k5_case(ctx, models.node_drop_instance(rng, cls), suite="K5.node_mode_starts_ends")


def finding_case(ctx, inp):
    """replays a listed finding; `inject_layers` fixes which optimal assignment the solver 'chose'
    (any feasible optimum must satisfy the property, so the choice is legitimate)"""
    if "inject_layers" not in inp:
        k5_case(ctx, inp, suite="known-findings")
        return
    m = models.build(ctx.fp, inp)
    if not m.solve():
        return
    sol = {(str(u), str(v), i): 0 for (u, v) in m.G.edges() for i in range(m.k)}
    for i, p in enumerate(inp["inject_layers"]):
        full = [m.G.source] + list(p) + [m.G.sink]
        for e in zip(full[:-1], full[1:]):
            sol[(str(e[0]), str(e[1]), i)] = 1
    m.edge_vars_sol = sol
    m._solution = None
    s = m.get_solution()
    ctx.rep.count("known-findings", inp, nontrivial=True, hist=[inp["cls"], "injected optimum"])
    for what, kind in solution_problems(inp, m, s):
        ctx.violation(f"{inp['cls']}.get_solution(): {what}", inp, site=f"{inp['cls']}.get_solution:{kind}")
        break


def search(ctx):
    rng = random.Random(4242)
    for cls in models.ALL_CLASSES:
        for it in range(40):
            k5_case(ctx, models.instance(rng, cls), suite="search.end_to_end")
    for it in range(2000):
        k1_decode(ctx, rng)


def replay(ctx, payload):
    inp = payload.get("input") or {}
    if "cls" in inp:
        print(k5_case(ctx, inp, suite="replay"))
