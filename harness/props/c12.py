"""C12 — MILP building blocks encode exactly the relation they name.

Proof: FP/Props/C12.lean about FP/Model/Wrapper.lean.
Tie: K2 LP-dump equality of the three helpers; K1 differential runs of random wrapper histories
(add_variables / queue_fix_variable / queue_set_var_lower_bound / set_objective / optimize) with bounds
and costs read back from HiGHS, and — against the model's solve of the box and its get_values — the objective
constant and sense stored by HiGHS, the column indices of the variables add_variables returns, and after every
optimize() the status, the values get_values returns (all columns, and a random sub-selection in random order),
and get_objective_value(). Oracle (property text): HiGHS min/max of the product / y variable with the
inputs fixed, requested bounds read back, values read back for the asked variables.
"""
import json, random
from fractions import Fraction
from fpv import lpdump
from fpv.common import frac, qstr

THEOREMS = ["FP.Props.C12." + t for t in
            ["binProd_exact", "numBits_spec", "intProd_sound", "intProd_complete", "piecewise_sound",
             "piecewise_complete", "piecewise_far_constants_feasible", "flush_fix_exact", "flush_lb_exact",
             "flush_clears", "flush_lb_wrong_field_witness", "set_objective_replaces", "offsetOf_spec", "no_objective",
             "set_objective_twice", "setObjective_replaces", "setObjective_cost", "add_variables_handles",
             "box_optimum_correct", "box_infeasible", "expectedValues_spec", "get_values_exact", "optimize_fresh",
             "wsnaps_length", "readback_nth", "get_values_fresh", "readback_two_solves_witness"]]
IMPORTS = ["FP.Props.C12"]
RULE = ("helper calls with random bound pairs (lb=0<=ub incl. 0, powers of two and their neighbours, dyadic floats), random "
        "range lists; random wrapper histories of 3-14 operations (objectives with / without a constant term, both senses; "
        "every optimize() followed by a read-back of all columns and of a random sub-selection). Non-trivial: distinct input that emits at least one "
        "McCormick block (helpers) / contains at least one queued bound update or objective replacement (histories).")
MODEL_SCOPE = ("modelled: add_binary_continuous_product_constraint, add_integer_continuous_product_constraint, "
               "add_piecewise_constant_constraint, queue_fix_variable, queue_set_var_lower_bound, "
               "_apply_pending_bound_updates (HiGHS branch), set_objective/HighsCustom.set_objective_without_solving "
               "(costs, objective constant = changeObjectiveOffset(expr.constant or 0.0), sense), "
               "add_variables (scalar/list bounds; returned variables = column indices numCol+k), optimize() on a model "
               "without rows (= a box with a linear objective: status, solution vector on the determined columns, objective "
               "value), get_all_variable_values/get_values (index lookup in the vector of the last solve, in the order "
               "asked), get_objective_value. Not modelled: Gurobi branch, SIGALRM time-out plumbing (the option variants "
               "are run, their plumbing is not in the model), get_values(binary_values=True) rounding, what HiGHS keeps "
               "after an infeasible solve or between a model change and the next optimize(), the value of a cost-0 "
               "column with lb < ub, get_variable_values name parsing (deprecated getter).")
TRUSTED = ["highspy: changeColsBounds/changeColsCost/changeObjectiveOffset/changeObjectiveSense set what they are given; "
           "getLp returns the stored model; Highs.optimize() on a model without rows returns an optimal vertex of the box "
           "(compared with the proven optimum on every run)"]
ASSUMPTIONS = ["documented preconditions of the helpers: lb = 0 <= ub, binary/integer factor within its bound, x inside a range"]


def new_sw(fp, variant=0):
    """variant 0: defaults; 1: finite backend time limit; 2: backend time limit plus the signal-based custom time-out (the
    optimize() path that goes through _run_with_timeout)"""
    kw = {"log_to_console": "false"}
    if variant >= 1:
        kw["time_limit"] = 30
    if variant == 2:
        kw["use_also_custom_timeout"] = True
    return fp.utils.solverwrapper.SolverWrapper(**kw)


def num(q):
    f = frac(q)
    return int(f) if f.denominator == 1 else float(f)


def helper_dump(sw, base_names):
    sw._apply_pending_bound_updates()
    lines = lpdump.from_highs(sw.solver)
    return [l for l in lines if not (l.startswith("col ") and l.split()[1] in base_names)]


def k2_binprod(ctx, lb, ub):
    sw = new_sw(ctx.fp)
    b = sw.add_variables([0], "b", 0, 1, "integer")
    c = sw.add_variables([0], "c", num(lb), num(ub), "continuous")
    p = sw.add_variables([0], "p", num(lb), num(ub), "continuous")
    sw.add_binary_continuous_product_constraint(b[0], c[0], p[0], num(lb), num(ub), "t")
    impl = helper_dump(sw, {"b0", "c0", "p0"})
    model = lpdump.from_driver(ctx.driver.call({"op": "lp.binprod", "lb": qstr(lb), "ub": qstr(ub)}))
    inp = {"helper": "binprod", "lb": qstr(lb), "ub": qstr(ub)}
    ctx.rep.count("K2.binprod", inp, nontrivial=True, hist=["binprod"])
    if impl != model:
        ctx.disagree("K2.binprod", inp, lpdump.diff(impl, model), None)
    return inp


def k2_intprod(ctx, lb, ub):
    sw = new_sw(ctx.fp)
    n = sw.add_variables([0], "n", 0, num(ub), "integer")
    c = sw.add_variables([0], "c", num(lb), num(ub), "continuous")
    p = sw.add_variables([0], "p", 0, 10 ** 6, "continuous")
    sw.add_integer_continuous_product_constraint(n[0], c[0], p[0], num(lb), num(ub), "q")
    impl = helper_dump(sw, {"n0", "c0", "p0"})
    model = lpdump.from_driver(ctx.driver.call({"op": "lp.intprod", "lb": qstr(lb), "ub": int(ub), "name": "q"}))
    inp = {"helper": "intprod", "lb": qstr(lb), "ub": int(ub)}
    ctx.rep.count("K2.intprod", inp, nontrivial=ub >= 1, hist=["intprod", f"bits={len([l for l in model if l.startswith('col binary_')])}"])
    if impl != model:
        ctx.disagree("K2.intprod", inp, lpdump.diff(impl, model), None)
    return inp


def k2_piecewise(ctx, ranges, consts):
    sw = new_sw(ctx.fp)
    x = sw.add_variables([0], "x", -10 ** 6, 10 ** 6, "continuous")
    y = sw.add_variables([0], "y", -10 ** 6, 10 ** 6, "continuous")
    sw.add_piecewise_constant_constraint(x[0], y[0], [(num(a), num(b)) for a, b in ranges], [num(c) for c in consts], "f")
    impl = helper_dump(sw, {"x0", "y0"})
    model = lpdump.from_driver(ctx.driver.call({"op": "lp.piecewise", "ranges": [[qstr(a), qstr(b)] for a, b in ranges],
                                                "constants": [qstr(c) for c in consts], "name": "f"}))
    inp = {"helper": "piecewise", "ranges": [[qstr(a), qstr(b)] for a, b in ranges], "constants": [qstr(c) for c in consts]}
    ctx.rep.count("K2.piecewise", inp, nontrivial=len(ranges) > 1, hist=["piecewise", f"pieces={len(ranges)}"])
    if impl != model:
        ctx.disagree("K2.piecewise", inp, lpdump.diff(impl, model), None)
    return inp


# ------------------------------------------------------------------ semantic oracles (HiGHS min / max)

def minmax(sw, var):
    out = []
    for sense in ("minimize", "maximize"):
        sw.set_objective(sw.quicksum([var * 1.0]), sense=sense)
        sw.optimize()
        st = sw.get_model_status()
        out.append((st, sw.get_objective_value() if st == "kOptimal" else None))
    return out


def oracle_binprod(ctx, lb, ub, bval, cval):
    sw = new_sw(ctx.fp)
    b = sw.add_variables([0], "b", bval, bval, "integer")
    c = sw.add_variables([0], "c", num(cval), num(cval), "continuous")
    p = sw.add_variables([0], "p", -10 ** 6, 10 ** 6, "continuous")
    sw.add_binary_continuous_product_constraint(b[0], c[0], p[0], num(lb), num(ub), "t")
    r = minmax(sw, p[0])
    want = float(frac(cval)) * bval
    inp = {"helper": "binprod", "lb": qstr(lb), "ub": qstr(ub), "b": bval, "c": qstr(cval), "minmax": r}
    ctx.rep.cov["oracle_evaluations"] += 1
    for st, v in r:
        if st != "kOptimal" or abs(v - want) > 1e-6:
            ctx.violation(f"binary*continuous helper: with b={bval}, c={cval}, bounds [{lb},{ub}] the product ranges over {r}, expected exactly {want}",
                          inp, site="add_binary_continuous_product_constraint")
            break


def oracle_intprod(ctx, lb, ub, nval, cval):
    sw = new_sw(ctx.fp)
    n = sw.add_variables([0], "n", nval, nval, "integer")
    c = sw.add_variables([0], "c", num(cval), num(cval), "continuous")
    big = int(ub) * int(ub) + 10
    p = sw.add_variables([0], "p", -big, big, "continuous")
    sw.add_integer_continuous_product_constraint(n[0], c[0], p[0], num(lb), num(ub), "q")
    r = minmax(sw, p[0])
    want = float(frac(cval)) * nval
    inp = {"helper": "intprod", "lb": qstr(lb), "ub": int(ub), "n": nval, "c": qstr(cval), "minmax": r}
    ctx.rep.cov["oracle_evaluations"] += 1
    for st, v in r:
        if st != "kOptimal" or abs(v - want) > 1e-6 * max(1.0, abs(want)):
            ctx.violation(f"integer*continuous helper: n={nval}, c={cval}, ub={ub}: product ranges over {r}, expected exactly {want}",
                          inp, site="add_integer_continuous_product_constraint")
            break


def oracle_piecewise(ctx, ranges, consts, j, xval):
    sw = new_sw(ctx.fp)
    x = sw.add_variables([0], "x", num(xval), num(xval), "continuous")
    y = sw.add_variables([0], "y", -10 ** 7, 10 ** 7, "continuous")
    sw.add_piecewise_constant_constraint(x[0], y[0], [(num(a), num(b)) for a, b in ranges], [num(c) for c in consts], "f")
    r = minmax(sw, y[0])
    want = float(frac(consts[j]))
    inp = {"helper": "piecewise", "ranges": [[qstr(a), qstr(b)] for a, b in ranges], "constants": [qstr(c) for c in consts],
           "x": qstr(xval), "range_index": j, "minmax": r,
           "max_const_gap": qstr(max(consts) - min(consts)),
           "bigM": qstr(2 * (max(b for a, b in ranges) - min(a for a, b in ranges)))}
    ctx.rep.cov["oracle_evaluations"] += 1
    for st, v in r:
        if st != "kOptimal" or abs(v - want) > 1e-6:
            ctx.violation(f"piecewise-constant helper: x={xval} lies in range {j} but y ranges over {r}, expected exactly {want}",
                          inp, site="add_piecewise_constant_constraint")
            break


# ------------------------------------------------------------------ wrapper histories

def gen_history(rng, nops):
    ops, ncols = [], 0
    for t in range(nops):
        kinds = ["addVars"] if ncols == 0 else ["addVars", "queueFix", "queueLb", "queueLb", "setObjective", "optimize"]
        kind = rng.choice(kinds)
        if kind == "addVars":
            m = rng.randint(1, 3)
            bs = []
            for _ in range(m):
                lo = rng.choice([0, 0, 1, -2]); hi = lo + rng.choice([0, 1, 3, 7])
                bs.append([str(lo), str(hi)])
            ops.append({"op": "addVars", "bounds": bs}); ncols += m
        elif kind == "queueFix":
            ops.append({"op": "queueFix", "idx": rng.randrange(ncols), "v": str(rng.choice([0, 1, 2, 5]))})
        elif kind == "queueLb":
            ops.append({"op": "queueLb", "idx": rng.randrange(ncols), "v": str(rng.choice([0, 1, 2, 3]))})
        elif kind == "setObjective":
            ts = [[rng.randrange(ncols), str(rng.choice([1, 2, -1, 3]))] for _ in range(rng.randint(1, 4))]
            o = {"op": "setObjective", "terms": ts}
            r = rng.random()
            if r < 0.35:
                o["const"] = str(rng.choice([5, -3, 10, 1]))           # a constant term
            elif r < 0.5:
                o["const"] = "0"                                        # a constant that is 0 (e.g. +5 -5)
            if rng.random() < 0.3:
                o["sense"] = "maximize"
            ops.append(o)
        else:
            ops.append(gen_optimize(rng, ncols))
    ops.append(gen_optimize(rng, ncols))
    return ops


def gen_optimize(rng, ncols):
    """an optimize() followed by get_values; "ask" (optional) = the column indices asked for, in the order asked"""
    o = {"op": "optimize"}
    if ncols and rng.random() < 0.6:
        o["ask"] = rng.sample(range(ncols), rng.randint(1, ncols))
    return o


def run_history_real(fp, ops, variant=0, reads=None, extra=None):
    """`reads` (a list) receives, after every optimize(), (status, values read back for all columns, objective value,
    [key, value] pairs get_values returned for the op's "ask" selection (keys = positions in "ask") or None); `extra` (a dict)
    receives the column indices of the variables every add_variables returned and the sense stored by HiGHS"""
    sw = new_sw(fp, variant)
    cols = []
    pfx = 0
    handles = []
    for o in ops:
        if o["op"] == "addVars":
            bs = o["bounds"]
            vs = sw.add_variables(list(range(len(bs))), f"v{pfx}_", [num(b[0]) for b in bs], [num(b[1]) for b in bs], "continuous")
            cols += [vs[i] for i in range(len(bs))]
            handles.append([int(vs[i].index) for i in range(len(bs))])
            pfx += 1
        elif o["op"] == "queueFix":
            sw.queue_fix_variable(cols[o["idx"]], num(o["v"]))
        elif o["op"] == "queueLb":
            sw.queue_set_var_lower_bound(cols[o["idx"]], num(o["v"]))
        elif o["op"] == "setObjective":
            expr = sw.quicksum([cols[i] * num(c) for i, c in o["terms"]])
            if o.get("const") is not None:
                expr = expr + num(o["const"])
            sw.set_objective(expr, sense=o.get("sense") or "minimize")
        elif o["op"] == "optimize":
            sw.optimize()
            if reads is not None:
                try:
                    vals = sw.get_values({j: c for j, c in enumerate(cols)})
                    got = None
                    if o.get("ask") is not None:
                        got = [[k, v] for k, v in sw.get_values({p: cols[i] for p, i in enumerate(o["ask"])}).items()]
                    reads.append((str(sw.get_model_status()), [vals[j] for j in range(len(cols))], sw.get_objective_value(), got))
                except Exception as e:
                    reads.append(("raised " + type(e).__name__, None, None, None))
    lp = sw.solver.getLp()
    if reads is not None:
        reads.append(("offset", lp.offset_, None, None))
    if extra is not None:
        extra["handles"] = handles
        extra["maximize"] = int(lp.sense_) == -1
    return [[qstr(lp.col_lower_[j]), qstr(lp.col_upper_[j]), qstr(lp.col_cost_[j])] for j in range(lp.num_col_)]


def history_oracle(ops, final):
    """property text: after optimize every queued fix gives lb=ub=v, every queued lower bound gives lb=v and leaves
    ub unchanged (last request per column and kind wins, fixes are applied before lower bounds), nothing else changes;
    costs are those of the last objective. Independent re-computation in Python."""
    cols, pf, pl = [], [], []
    for o in ops:
        if o["op"] == "addVars":
            cols += [[Fraction(b[0]), Fraction(b[1]), Fraction(0)] for b in o["bounds"]]
        elif o["op"] == "queueFix":
            pf.append((o["idx"], Fraction(o["v"])))
        elif o["op"] == "queueLb":
            pl.append((o["idx"], Fraction(o["v"])))
        elif o["op"] == "setObjective":
            for c in cols:
                c[2] = Fraction(0)
            for i, c in o["terms"]:
                cols[i][2] += Fraction(c)
        elif o["op"] == "optimize":
            for i, v in pf:
                cols[i][0] = cols[i][1] = v
            for i, v in pl:
                cols[i][0] = v
            pf, pl = [], []
    return [[qstr(a), qstr(b), qstr(c)] for a, b, c in cols]


def readback_oracle(ops):
    """property text, recomputed independently: after every optimize() the status is optimal or infeasible as the box says, the
    values read back for a column with non-zero cost are its lower (cost > 0) or upper (cost < 0) bound when minimising (the
    other way round when the LAST objective asked to maximise), the objective value is sum cost*value + the constant of the LAST
    objective; at the end the stored offset is that constant"""
    cols, pf, pl, const, out, sign = [], [], [], Fraction(0), [], 1
    for o in ops:
        if o["op"] == "addVars":
            cols += [[Fraction(b[0]), Fraction(b[1]), Fraction(0)] for b in o["bounds"]]
        elif o["op"] == "queueFix":
            pf.append((o["idx"], Fraction(o["v"])))
        elif o["op"] == "queueLb":
            pl.append((o["idx"], Fraction(o["v"])))
        elif o["op"] == "setObjective":
            for c in cols:
                c[2] = Fraction(0)
            for i, c in o["terms"]:
                cols[i][2] += Fraction(c)
            const = Fraction(o["const"]) if o.get("const") is not None else Fraction(0)
            sign = -1 if o.get("sense") in ("maximize", "max") else 1
        elif o["op"] == "optimize":
            for i, v in pf:
                cols[i][0] = cols[i][1] = v
            for i, v in pl:
                cols[i][0] = v
            pf, pl = [], []
            feasible = all(a <= b for a, b, _ in cols)
            want = [(a if sign * c > 0 else b if sign * c < 0 else None) for a, b, c in cols]
            obj = sum((a if sign * c > 0 else b) * c for a, b, c in cols if c != 0) + const if feasible else None
            out.append((feasible, want, obj))
    return out, const


def _close(x, q, tol=1e-9):
    return x is not None and abs(x - float(Fraction(q))) <= tol * max(1.0, abs(float(Fraction(q))))


def readback_diff(real_offset, extra, reads, full):
    """real wrapper vs. Lean model (`wrapper.ops` with "full"): objective constant, sense, column indices of the variables
    returned by add_variables, and per optimize(): status, get_values on every determined column, get_values on the asked
    sub-selection (keys, order, values), get_objective_value. Returns None or the first difference."""
    def d(what, impl, model):
        return {"what": what, "impl": impl, "model": model}
    if not _close(real_offset, full["offset"]):
        return d("objective constant (HighsLp.offset_)", real_offset, full["offset"])
    if extra["maximize"] != full["maximize"]:
        return d("objective sense", extra["maximize"], full["maximize"])
    if extra["handles"] != full["handles"]:
        return d("column indices of the variables returned by add_variables", extra["handles"], full["handles"])
    if len(reads) != len(full["reads"]) or full["nSolves"] != len(reads):
        return d("number of solves", len(reads), [len(full["reads"]), full["nSolves"]])
    for t, ((st, vals, obj, got), m) in enumerate(zip(reads, full["reads"])):
        if m["nSolves"] != t + 1:
            return d(f"optimize() #{t}: solve counter", t + 1, m["nSolves"])
        if not m["feasible"]:
            if st != "kInfeasible":
                return d(f"optimize() #{t}: status", st, "infeasible")
            continue                      # what HiGHS keeps after an infeasible solve is not modelled
        if st != "kOptimal" or vals is None:
            return d(f"optimize() #{t}: status", st, "optimal")
        if len(vals) != len(m["values"]):
            return d(f"optimize() #{t}: length of the solution vector", len(vals), len(m["values"]))
        bad = [j for j, q in enumerate(m["values"]) if q is not None and not _close(vals[j], q)]
        if bad:
            return d(f"optimize() #{t}: get_values on column(s) {bad}", [vals[j] for j in bad], [m["values"][j] for j in bad])
        if not _close(obj, m["obj"]):
            return d(f"optimize() #{t}: get_objective_value", obj, m["obj"])
        if got is not None:
            if m["got"] is None or [k for k, _ in got] != [k for k, _ in m["got"]] or \
                    any(q is not None and not _close(v, q) for (_, v), (_, q) in zip(got, m["got"])):
                return d(f"optimize() #{t}: get_values on the asked selection (keys in order, values)", got, m["got"])
    return None


def run_history(ctx, ops, suite="K1.history"):
    variant = ctx.rng.choice([0, 0, 1, 2])
    reads, extra = [], {}
    real = run_history_real(ctx.fp, ops, variant, reads, extra)
    # ---- oracle on what is read back after every optimize() and on the stored objective constant
    want_reads, want_const = readback_oracle(ops)
    ctx.rep.cov["oracle_evaluations"] += 1
    off = reads.pop()
    rsite = None
    for t, ((st, vals, obj, _got), (feasible, want, wobj)) in enumerate(zip(reads, want_reads)):
        if not feasible:
            continue
        if st != "kOptimal" or vals is None:
            rsite, what = "optimize", f"optimize() #{t}: status {st} on a feasible box"
            break
        bad = [j for j, w in enumerate(want) if w is not None and abs(vals[j] - float(w)) > 1e-6]
        if bad:
            rsite, what = "get_values", (f"after optimize() #{t} get_values returns {[vals[j] for j in bad]} for column(s) {bad}, "
                                         f"the optimum of the box under the current objective is {[str(want[j]) for j in bad]}")
            break
        if abs(obj - float(wobj)) > 1e-6:
            rsite, what = "get_objective_value", (f"after optimize() #{t} get_objective_value() = {obj}, the current objective "
                                                   f"(costs and constant of the last set_objective) gives {wobj}")
            break
    if rsite is None and any(o["op"] == "setObjective" for o in ops) and abs(off[1] - float(want_const)) > 1e-9:
        rsite, what = "set_objective", (f"the stored objective constant is {off[1]} after the last set_objective asked for "
                                        f"{want_const}: the replaced objective's constant survives")
    if rsite:
        ctx.violation(what, {"ops": ops, "wrapper_variant": variant}, site=rsite)
    full = ctx.driver.call({"op": "wrapper.ops", "ops": ops, "field": "upper", "full": True})
    model = full["cols"]
    nontriv = any(o["op"] in ("queueFix", "queueLb", "setObjective") for o in ops)
    ctx.rep.count(suite, ops, nontrivial=nontriv, hist=[o["op"] for o in ops])
    ctx.rep.cov["traces_validated_against_impl"] += 1
    inp = {"ops": ops}
    if real != model:
        ctx.disagree(suite, inp, real, model)
    # ---- K1 on the objective constant / sense, the variable handles and everything read back after each optimize()
    diff = readback_diff(off[1], extra, reads, full)
    if diff:
        ctx.disagree(suite, dict(inp, wrapper_variant=variant), diff["impl"], diff["model"], note=diff["what"])
    ctx.rep.cov["oracle_evaluations"] += 1
    want = history_oracle(ops, real)
    if real != want:
        bad = [j for j in range(len(real)) if real[j] != want[j]]
        ctx.violation(f"after optimize() column(s) {bad} have [lb, ub, cost] = {[real[j] for j in bad]} but the queued requests ask for {[want[j] for j in bad]}",
                      dict(inp, observed=real, requested=want), site="_apply_pending_bound_updates")
    return inp, real


def get_values_case(ctx, rng):
    fp = ctx.fp
    sw = new_sw(fp)
    n = rng.randint(2, 8)
    vals = rng.sample(range(0, 60), n) if rng.random() < 0.8 else [rng.choice([0, 1, 2, 3, 7]) for _ in range(n)]
    keys = [(f"k{i}", i) for i in range(n)]
    vs = sw.add_variables(keys, "g", vals, vals, "integer")
    sw.set_objective(sw.quicksum([vs[k] for k in keys]))
    sw.optimize()
    mode = rng.choice(["sample", "sample", "block-inner-shuffled", "block-reversed", "gaps-in-order", "all-shuffled"])
    if mode == "sample":
        sub = rng.sample(keys, rng.randint(1, n))
    elif mode in ("block-inner-shuffled", "block-reversed"):
        a = rng.randrange(0, n); b = rng.randrange(a, n)
        sub = keys[a:b + 1]
        if mode == "block-reversed":
            sub = sub[::-1]
        elif len(sub) > 2:                       # first and last column stay where they are, the inner ones are permuted
            inner = sub[1:-1]; rng.shuffle(inner); sub = [sub[0]] + inner + [sub[-1]]
    elif mode == "gaps-in-order":
        sub = [k for k in keys if rng.random() < 0.6] or [keys[0]]
    else:
        sub = list(keys); rng.shuffle(sub)
    got = sw.get_values({k: vs[k] for k in sub})
    want = {k: vals[keys.index(k)] for k in sub}
    ctx.rep.count("K1.get_values", [vals, sub], nontrivial=True, hist=["get_values", "selection:" + mode])
    ctx.rep.cov["oracle_evaluations"] += 1
    if set(got) != set(want) or any(abs(got[k] - want[k]) > 1e-9 for k in want):
        ctx.violation(f"get_values returned {got} for variables fixed to {want}", {"values": vals, "asked": sub, "got": {str(k): v for k, v in got.items()}},
                      site="get_values")


def huge_intprod(ctx, ub):
    """bounds beyond the precision of float log2 (structural, nothing is solved): the LP tie, and an oracle written from the
    property text - 'for every admissible value pair': the binary expansion must be able to write every integer 0..ub, and
    must not have more bits than the least number that can"""
    sw = new_sw(ctx.fp)
    n = sw.add_variables([0], "n", 0, ub, "integer")
    c = sw.add_variables([0], "c", 0, 1, "continuous")
    p = sw.add_variables([0], "p", 0, 10 ** 6, "continuous")
    inp = {"helper": "intprod.huge", "lb": "0", "ub": int(ub)}
    try:
        sw.add_integer_continuous_product_constraint(n[0], c[0], p[0], 0, ub, "q")
    except Exception as e:
        # HiGHS refuses matrix values >= 1e15 (large_matrix_value): from ub = 1e15 on the McCormick coefficient ub (and from 2^50 on the
        # top coefficient 2^(bits-1)) cannot be stored, and a loud refusal admits no wrong assignment. Below that a refusal is a violation.
        if ub >= 10 ** 15 or 2 ** (int(ub).bit_length() - 1) >= 10 ** 15:       # ub itself is a McCormick coefficient
            ctx.rep.count("K2.intprod.huge", inp, nontrivial=True, hist=["refused: coefficient >= 1e15 (HiGHS large_matrix_value)"])
            return
        ctx.violation(f"add_integer_continuous_product_constraint raised {type(e).__name__}: {e} for ub={ub}", inp,
                      site="add_integer_continuous_product_constraint.num_bits")
        return
    impl = helper_dump(sw, {"n0", "c0", "p0"})
    bits = len([l for l in impl if l.startswith("col binary_")])
    model = lpdump.from_driver(ctx.driver.call({"op": "lp.intprod", "lb": "0", "ub": int(ub), "name": "q"}))
    ctx.rep.count("K2.intprod.huge", inp, nontrivial=True, hist=[f"ub~2^{int(ub).bit_length() - 1}", f"bits={bits}"])
    ctx.rep.cov["traces_validated_against_impl"] += 1
    if impl != model:
        ctx.disagree("K2.intprod.huge", inp, lpdump.diff(impl, model), None)
    ctx.rep.cov["oracle_evaluations"] += 1
    if 2 ** bits - 1 < int(ub):
        ctx.violation(f"integer product helper with ub={ub} creates {bits} bits: the admissible value {ub} of the integer "
                      f"variable cannot be written (largest representable {2 ** bits - 1})", inp,
                      site="add_integer_continuous_product_constraint.num_bits")
    elif bits > 0 and 2 ** (bits - 1) - 1 >= int(ub):
        ctx.violation(f"integer product helper with ub={ub} creates {bits} bits, one more than needed: not the documented "
                      f"encoding", inp, site="add_integer_continuous_product_constraint.num_bits")


def bound_pairs(rng, n):
    ubs = [0, 1, 2, 3, 4, 5, 7, 8, 9, 15, 16, 17, 31, 33, 100, 255, 256, 1000]
    out = [(0, u) for u in ubs]
    while len(out) < n:
        out.append((0, rng.choice([rng.randint(0, 70), rng.randint(0, 5000)])))
    return out[:n]


def run(ctx):
    rng = ctx.rng
    first = True
    for lb, ub in bound_pairs(rng, ctx.n(60, 600)):
        inp = k2_intprod(ctx, lb, ub)
        if first:
            ctx.rep.sample(inp); first = False
        for _ in range(2 if ub <= 64 else 1):
            nval = rng.randint(0, ub)
            cval = Fraction(rng.randint(0, 4 * ub), 4) if ub else Fraction(0)
            oracle_intprod(ctx, 0, ub, nval, min(cval, Fraction(ub)))
    ks = [30, 31, 32, 47, 48, 49, 50, 52, 53, 54, 60, 62, 63, 64] if ctx.quick() else list(range(20, 70))
    for k in ks:
        for d in (-1, 0, 1, rng.randint(2, 2 ** (k - 2))):
            huge_intprod(ctx, 2 ** k + d)
    for ub in (10 ** 15 - 1, 10 ** 15, 10 ** 15 + 1, 6 * 10 ** 14, rng.randint(2 ** 49, 10 ** 15 - 1)):
        huge_intprod(ctx, ub)
    for _ in range(ctx.n(80, 800)):
        ub = Fraction(rng.choice([0, 1, 2, 5, 9, 13, 64, 1000]) * rng.choice([1, 1, 2]), rng.choice([1, 1, 2, 4]))
        k2_binprod(ctx, 0, ub)
        oracle_binprod(ctx, 0, ub, rng.choice([0, 1]), Fraction(rng.randint(0, 8), 8) * ub)
    for _ in range(ctx.n(80, 800)):
        m = rng.randint(1, 4)
        cuts = sorted(rng.sample(range(0, 40), 2 * m))
        ranges = [(Fraction(cuts[2 * i]), Fraction(cuts[2 * i + 1])) for i in range(m)]
        M = 2 * (ranges[-1][1] - ranges[0][0])
        consts = [Fraction(rng.randint(0, 8), 4) for _ in range(m)]      # within the big-M of each other? not necessarily
        if rng.random() < 0.5:            # the caller lists the pieces in any order (documented: non-overlapping, nothing more)
            order = list(range(m)); rng.shuffle(order)
            ranges = [ranges[i] for i in order]; consts = [consts[i] for i in order]
        inp = k2_piecewise(ctx, ranges, consts)
        j = rng.randrange(m)
        xval = ranges[j][0] + (ranges[j][1] - ranges[j][0]) * Fraction(rng.randint(0, 4), 4)
        oracle_piecewise(ctx, ranges, consts, j, xval)
    # constants far apart (documented precondition still met: disjoint ranges, x inside one of them)
    for _ in range(ctx.n(10, 100)):
        ranges = [(Fraction(0), Fraction(1)), (Fraction(2), Fraction(3))]
        consts = [Fraction(0), Fraction(rng.choice([5, 7, 100, 1000]))]
        k2_piecewise(ctx, ranges, consts)
        oracle_piecewise(ctx, ranges, consts, 0, Fraction(1, 2))
    for it in range(ctx.n(300, 6000)):
        ops = gen_history(rng, rng.randint(3, 14 if ctx.quick() else 30))
        inp, real = run_history(ctx, ops)
        if it == 0:
            ctx.rep.sample({"history": ops, "columns_after": real})
    for _ in range(ctx.n(120, 1200)):
        get_values_case(ctx, rng)


def search(ctx):
    """broken tie: hunt for a failing input with the semantic oracles on fresh inputs"""
    rng = random.Random(777)
    for lb, ub in bound_pairs(rng, 150):
        for _ in range(3):
            nval = rng.randint(0, ub)
            oracle_intprod(ctx, 0, ub, nval, Fraction(rng.randint(0, 4 * ub), 4) if ub else Fraction(0))
        oracle_binprod(ctx, 0, Fraction(ub), rng.choice([0, 1]), Fraction(rng.randint(0, 8), 8) * ub)
    for _ in range(300):
        m = rng.randint(1, 4)
        cuts = sorted(rng.sample(range(0, 40), 2 * m))
        ranges = [(Fraction(cuts[2 * i]), Fraction(cuts[2 * i + 1])) for i in range(m)]
        consts = [Fraction(rng.randint(0, 8), 4) for _ in range(m)]
        j = rng.randrange(m)
        oracle_piecewise(ctx, ranges, consts, j, ranges[j][0])
    for _ in range(1500):
        run_history(ctx, gen_history(rng, rng.randint(3, 10)), suite="search.history")
    ctx.violations.sort(key=lambda v: len(json.dumps(v["input"])))


def replay(ctx, payload):
    inp = payload.get("input") or {}
    if "ops" in inp:
        print(run_history(ctx, inp["ops"], suite="replay"))
    elif inp.get("helper") == "piecewise":
        rs = [(Fraction(a), Fraction(b)) for a, b in inp["ranges"]]
        oracle_piecewise(ctx, rs, [Fraction(c) for c in inp["constants"]], inp["range_index"], Fraction(inp["x"]))
    elif inp.get("helper") == "intprod.huge":
        huge_intprod(ctx, int(inp["ub"]))
    elif inp.get("helper") == "intprod":
        oracle_intprod(ctx, 0, inp["ub"], inp["n"], Fraction(inp["c"]))
    elif inp.get("helper") == "binprod":
        oracle_binprod(ctx, 0, Fraction(inp["ub"]), inp["b"], Fraction(inp["c"]))
