"""C11 — node-weighted solving equals solving the explicitly node-expanded instance.

Proof: FP/Props/C11.lean about FP/Model/NodeExpand.lean (expansion, translation of constraints / starts / ends /
ignored nodes, condensing, and the node branch of kFlowDecomp.__init__ as equality of LP data with the explicit
expansion of the property text).
Ties: K1 exact-output differential of the real `NodeExpandedDiGraph` (node order, edge order, in-edge order, copied
attributes, `edges_to_ignore`, expanded constraints / starts / ends / elements, condensed paths, condensed graph)
against the Lean driver; K2 three-way LP-dump equality: real `kFlowDecomp(flow_attr_origin="node")`, real
`kFlowDecomp` in edge mode on an expansion built by this file (independent of `NodeExpandedDiGraph`), Lean
`lp.kfdnode`; the same three-way comparison for the node branches of kPathCover (cover_type="node"), kLeastAbsErrors and
kMinPathError (`lp.kcovernode`, `lp.klaenode`, `lp.kmpenode`: additional starts / ends, error_scaling keyed by node,
path_length_ranges / factors), where "real node branch = real edge branch on the explicit expansion" is the property
oracle and "real node branch = Lean node branch" the tie. Lean: node_mode_is_edge_mode_on_expansion_klae / _kmpe
and _kcover, all unconditional. Until fix 65014a7 kPathCover / MinPathCover built their expansion without
node_length_attr (former finding C11-kpathcover-node-length-default: attribute-less edge copies counted with length 1 in
coverage_length constraints); its input stays as a regression case (COVER_LENGTH_WITNESS: three-way K2 plus an end-to-end
check that k=1 is solved and MinPathCover answers 1 path), Lean: kcover_node_mode_length_regression,
kcover_former_reading_differs, kcover_former_lp_eq.
The four cyclic k-classes (kFlowDecompCycles, kPathCoverCycles, kLeastAbsErrorsCycles, kMinPathErrorCycles): model
FP/Model/NodeExpandModesCyc.lean, driver ops lp.kfdcnode / lp.kcovercnode / lp.klaecnode / lp.kmpecnode, the same three-way
K2 comparison (suites K2.<class>_node, safety optimisations off), Lean: node_mode_is_edge_mode_on_expansion_kcoverc
(unconditional), _kfdc (hypothesis hcap: same floor as w_max - the caps are floored since fix fcfd0b0), _klaec / _kmpec
(hypothesis hzero), kfdc_caps_equal_iff,
node_mode_walks_condense_*. The hypotheses are about original edges that carry an attribute named like the node flow
attribute: NodeExpandedDiGraph copies it onto (u.1, v.0) and the cyclic constructors read the repetition caps off the
expanded graph (finding C11-cyclic-node-mode-cap-from-edge-attribute: CAP_WITNESSES, replayed end to end with an
independent evaluation of the returned walks; Lean: kfdc_node_mode_cap_from_edge_attribute_differs,
errc_node_mode_cap_from_edge_attribute_differs).
Oracle (property text, K5): for every class with a node mode, solve in node mode and solve the explicit expansion in
edge mode: same solved status, same objective, returned routes use original node names and are walks of the original
graph.
"""
import json, random, re, inspect, copy, time
from fractions import Fraction
import networkx as nx
from fpv import lpdump, gen
from fpv.common import frac, qstr

THEOREMS = ["FP.Props.C11." + t for t in [
    "condense_expand", "condense_expand_globals", "condensePaths_expand", "expandedEdge_injective",
    "expandedEdge_disjoint", "condenseElement_expand", "constraints_roundtrip", "starts_ends_roundtrip",
    "missing_attr_ignored", "edgesToIgnore_exact", "expansion_nodes", "expansion_edges", "expansion_wf",
    "expansion_acyclic", "expanded_walk_condenses", "expanded_route_condenses", "node_mode_paths_condense",
    "condenseFlow_expandFlow", "kfdLP_ignore_as_set", "node_mode_is_edge_mode_on_expansion", "node_mode_accepts",
    "node_mode_accepted_has_active",
    "node_mode_is_edge_mode_on_expansion_klae", "node_mode_is_edge_mode_on_expansion_kmpe",
    "node_mode_is_edge_mode_on_expansion_kcover", "kcover_lengths_agree_on_node_constraints",
    "kcover_lengths_eq_of_all_edges", "node_branch_ignore_and_values", "kcover_node_mode_length_regression",
    "kcover_former_reading_differs", "kcover_former_lp_eq",
    "dotted_names_condense_witness", "empty_constraint_rejected_witness",
    # the four cyclic k-classes
    "node_mode_is_edge_mode_on_expansion_kcoverc", "node_mode_is_edge_mode_on_expansion_kfdc",
    "node_mode_is_edge_mode_on_expansion_kfdc_of_no_edge_attr", "kfdc_caps_equal_iff", "kfdc_node_branch_input",
    "node_mode_is_edge_mode_on_expansion_klaec", "node_mode_is_edge_mode_on_expansion_kmpec",
    "cyclic_node_branch_attribute", "node_mode_walks_condense_kfdc", "node_mode_walks_condense_kcoverc",
    "node_mode_walks_condense_klaec", "node_mode_walks_condense_kmpec",
    "kfdc_node_mode_cap_from_edge_attribute_differs", "errc_node_mode_cap_from_edge_attribute_differs"]]
IMPORTS = ["FP.Props.C11"]
RULE = ("node-weighted digraphs on 1-7 nodes: random DAGs and digraphs with self-loops / 2-cycles / nested cycles, isolated "
        "nodes and single-node graphs, edges inserted in random order, names drawn from a hostile pool ('a.0', 'a', 'a.1', "
        "'7', 'x.1.0', '.0', '', ' ') ; every node carries the attribute with probability 0.8 (sometimes none / all), "
        "original edges sometimes carry an attribute of the same name; node- and edge-level constraints, ignored nodes, "
        "starts / ends incl. unknown names. K1 non-trivial: distinct graph with at least one edge. K2 non-trivial: distinct "
        "configuration whose LP has at least one non-ignored expanded edge. K5 non-trivial: distinct (class, instance) "
        "solved by at least one of the two sides. K2 of the cyclic classes: digraphs with cycles on 2-7 nodes (self-loops, 2-cycles, "
        "nested cycles, parallel SCC exits / entries, several sources / sinks, or hostile names), node values from walk "
        "superpositions or arbitrary (zeros, fractional, int type over float data, rarely negative), nodes lacking the attribute, "
        "original edges carrying an attribute of the same name (12 %), ignored nodes, node- / edge-form subset constraints with "
        "coverage 1, 3/4, 1/2, 1/4, additional starts / ends (sometimes none although needed), node-keyed error_scaling, "
        "given_weights, k = None; non-trivial: distinct accepted configuration with at least one non-ignored valued node.")
MODEL_SCOPE = ("modelled: NodeExpandedDiGraph.__init__ (graph, flow / length attributes, _edges_to_ignore, global source/sink "
               "block), get_expanded_edge, get_expanded_subpath_constraints (node and edge form), "
               "get_expanded_additional_starts/ends, get_condensed_paths, get_condensed_graph (flow attribute), node branch "
               "of kFlowDecomp.__init__ up to the LP, node branches of kPathCover / kLeastAbsErrors / kMinPathError.__init__ up "
               "to the LP (FP/Model/NodeExpandModes.lean: translation of constraints, additional starts / ends, ignored nodes, "
               "error_scaling, dummy flow attribute and copied length attribute of kPathCover, encode_edge_position of "
               "kMinPathError; without solution_weights_superset and safety optimisations). Not modelled: _try_filling_in_missing_flow_values (networkx min-cost "
               "flow), attributes other than the flow / length attribute, constraint lists mixing nodes and edges, the node "
               "branches of the remaining classes (Min* wrappers, MinErrorFlow: covered end-to-end by the K5 oracle only). "
               "Cyclic k-classes (FP/Model/NodeExpandModesCyc.lean): node branches of kFlowDecompCycles / kPathCoverCycles / "
               "kLeastAbsErrorsCycles / kMinPathErrorCycles.__init__ up to the LP: NodeExpandedDiGraph(G, node_flow_attr) without "
               "length attribute / fill-in, dummy attribute of the cover class, translation of subset constraints, additional "
               "starts / ends, ignored nodes (list(set(...))), error_scaling; then the edge-level rest on the expansion: "
               "stDiGraph source / sink requirement, k, subset-constraint checks, negative / all-ignored checks, w_max, and the "
               "repetition caps as computed on the expanded graph from the copied attributes (edge_upper_bounds_dict, "
               "compute_edge_max_reachable_value, |E|*|V|; floored on SCC edges since fix fcfd0b0), given_weights. Not modelled there: safety optimisations, "
               "trusted_edges_for_safety, elements_to_ignore_percentile / trusted_edges_for_safety_percentile, k = None (the "
               "width is taken from the real object); configurations on which both real constructors fail alike inside the "
               "solver wrapper (a negative value on an ignored node inside a cycle becomes a column upper bound below 0) are "
               "counted but not compared.")
TRUSTED = ["python str slicing s[-2:], s[:-2] and concatenation = List Char drop/take/append as transcribed in "
           "FP/Model/NodeExpand.lean", "HiGHS returns the optimum of the small instances of the K5 oracle within 30 s"]
ASSUMPTIONS = ["node names are python str (the class rejects anything else)",
               "K5: graphs with at most 6 nodes, integer node values"]

ATTR = "flow"
LEN = "len"
HOSTILE = ["a", "a.0", "a.1", "a.0.0", "b", "b.1", "c", "7", "x.1.0", ".0", ".1", "", " ", "0", "d.", "e", "f", "source", "sink",
           "u v", "é.0"]


# ----------------------------------------------------------------------------- reporting

_seen_sig = {}


def report(ctx, what, inp, site, sig=None, per_sig=2):
    """ctx.violation, at most `per_sig` times per (site, signature): the engine keeps 50 violations in all and one
    frequent defect must not crowd the others out"""
    key = (id(ctx), site, sig if sig is not None else what[:80])
    _seen_sig[key] = _seen_sig.get(key, 0) + 1
    if _seen_sig[key] <= per_sig:
        ctx.violation(what, inp, site=site)


# ----------------------------------------------------------------------------- instances

def names(rng, n, hostile, blanks=True):
    pool = list(HOSTILE) if hostile else ["a", "b", "c", "d", "e", "f", "g", "h"]
    if not blanks:       # HiGHS drops blanks from column names: LP dumps are compared on blank-free names
        pool = [x for x in pool if " " not in x]
    rng.shuffle(pool)
    return pool[:n]


def gen_graph(rng, maxn=7, cyclic=None, hostile=True, want_edges=False, blanks=True):
    """cfg: nodes (insertion order), edges (insertion order), node_flow {v: int}, edge_flow, node_len, edge_len"""
    r = rng.random()
    n = 1 if (r < 0.08 and not want_edges) else rng.randint(2, maxn)
    ns = names(rng, n, hostile, blanks)
    cyclic = rng.random() < 0.4 if cyclic is None else cyclic
    p = rng.choice([0.0, 0.2, 0.35, 0.5, 0.7]) if not want_edges else rng.choice([0.3, 0.5, 0.7])
    edges = []
    for i in range(n):
        for j in range(i + 1, n):
            if rng.random() < p:
                edges.append((ns[i], ns[j]))
    if want_edges and not edges and n >= 2:
        edges.append((ns[0], ns[1]))
    if cyclic:
        for v in ns:
            q = rng.random()
            if q < 0.15:
                edges.append((v, v))
        for _ in range(rng.randint(0, 2)):
            if n >= 2:
                i, j = sorted(rng.sample(range(n), 2))
                if (ns[j], ns[i]) not in edges:
                    edges.append((ns[j], ns[i]))
    rng.shuffle(edges)
    order = list(ns)
    rng.shuffle(order)
    mode = rng.random()
    pa = 1.0 if mode < 0.35 else (0.0 if mode < 0.4 else 0.8)
    node_flow = {v: rng.choice([0, 1, 2, 3, 5, 8]) for v in order if rng.random() < pa}
    edge_flow = {e: rng.choice([1, 4]) for e in edges if rng.random() < 0.5} if rng.random() < 0.15 else {}
    node_len = None
    edge_len = {}
    if rng.random() < 0.3:
        node_len = {v: rng.choice([1, 2, 3]) for v in order if rng.random() < 0.7}
        edge_len = {e: rng.choice([1, 2]) for e in edges if rng.random() < 0.3}
    return {"nodes": order, "edges": [list(e) for e in edges],
            "node_flow": node_flow, "edge_flow": [[u, v, q] for (u, v), q in edge_flow.items()],
            "node_len": node_len, "edge_len": [[u, v, q] for (u, v), q in edge_len.items()], "cyclic": cyclic}


def build_G(cfg, attr=ATTR, numtype=lambda x: x):
    G = nx.DiGraph()
    for v in cfg["nodes"]:
        G.add_node(v)
        if v in cfg["node_flow"]:
            G.nodes[v][attr] = numtype(cfg["node_flow"][v])
        if cfg.get("node_len") is not None and v in cfg["node_len"]:
            G.nodes[v][LEN] = cfg["node_len"][v]
    for u, v in cfg["edges"]:
        G.add_edge(u, v)
    for u, v, q in cfg.get("edge_flow", []):
        G[u][v][attr] = numtype(q)
    for u, v, q in cfg.get("edge_len", []):
        G[u][v][LEN] = q
    return G


def graph_request(cfg):
    return {"nodes": cfg["nodes"], "edges": cfg["edges"],
            "node_flow": [[v, qstr(q)] for v, q in cfg["node_flow"].items()],
            "edge_flow": [[u, v, qstr(q)] for u, v, q in cfg.get("edge_flow", [])],
            "node_len": None if cfg.get("node_len") is None else [[v, qstr(q)] for v, q in cfg["node_len"].items()],
            "edge_len": [[u, v, qstr(q)] for u, v, q in cfg.get("edge_len", [])]}


def explicit_expansion(cfg, attr=ATTR, numtype=lambda x: x, with_len=False):
    """the expansion of the property text, written independently of NodeExpandedDiGraph: every node v becomes the
    edge (v.0, v.1) carrying v's value; every edge (u, v) becomes (u.1, v.0) and is ignored; nodes lacking the
    attribute are ignored. returns (X, ignore list)"""
    X = nx.DiGraph()
    ignore = []
    for v in cfg["nodes"]:
        X.add_edge(v + ".0", v + ".1")
        if v in cfg["node_flow"]:
            X[v + ".0"][v + ".1"][attr] = numtype(cfg["node_flow"][v])
        else:
            ignore.append((v + ".0", v + ".1"))
        if with_len and cfg.get("node_len") is not None and v in cfg["node_len"]:
            X[v + ".0"][v + ".1"][LEN] = cfg["node_len"][v]
    el = {(u, v): q for u, v, q in cfg.get("edge_len", [])}
    for u, v in cfg["edges"]:
        X.add_edge(u + ".1", v + ".0")
        ignore.append((u + ".1", v + ".0"))
        if with_len and cfg.get("node_len") is not None:
            X[u + ".1"][v + ".0"][LEN] = el.get((u, v), 0)
    return X, ignore


def x_node(v):
    return (v + ".0", v + ".1")


def x_constraints(kind, cons):
    out = []
    for c in cons:
        if kind == "nodes":
            out.append([x_node(v) for v in c])
        else:
            ec = []
            for i, (u, v) in enumerate(c):
                ec += [x_node(u), (u + ".1", v + ".0")]
                if i == len(c) - 1:
                    ec.append(x_node(v))
            out.append(ec)
    return out


def random_walk(rng, cfg, maxlen=5):
    succ = {v: [] for v in cfg["nodes"]}
    for u, v in cfg["edges"]:
        succ[u].append(v)
    v = rng.choice(cfg["nodes"])
    w = [v]
    while succ[v] and len(w) < maxlen and rng.random() < 0.8:
        v = rng.choice(succ[v]); w.append(v)
    return w


def gen_constraints(rng, cfg, allow_bad=True):
    r = rng.random()
    kind = "nodes" if r < 0.6 or not cfg["edges"] else "edges"
    cons = []
    for _ in range(rng.randint(0, 3)):
        w = random_walk(rng, cfg)
        keep = 0.8 if rng.random() < 0.25 else 1.0      # gaps / empty constraints now and then
        if kind == "nodes":
            c = [v for v in w if rng.random() < keep]
        else:
            es = list(zip(w[:-1], w[1:]))
            c = [list(e) for e in es if rng.random() < keep]
        if c or rng.random() < 0.3:
            cons.append(c)
    if allow_bad and rng.random() < 0.12:
        if kind == "nodes":
            cons.append([rng.choice(cfg["nodes"]), "nosuch"])
        else:
            cons.append([[rng.choice(cfg["nodes"]), "nosuch"]])
        rng.shuffle(cons)
    return kind, cons


# ----------------------------------------------------------------------------- K1

def outcome(f):
    """('ok', value) | ('raises', kind)"""
    try:
        return ("ok", f())
    except ValueError as e:
        s = str(e)
        return ("raises", "invalid" if s.startswith("Invalid node name") else "notin" if "not in the original graph" in s
                else "empty" if "must have at least 1 element" in s else "value:" + s[:60])
    except IndexError:
        return ("raises", "index")
    except Exception as e:
        return ("raises", "crash:" + type(e).__name__)


def model_outcome(j, conv=lambda x: x):
    if "raises" in j:
        return ("raises", j["raises"])
    return ("ok", conv(j["ok"]))


def tup_edges(l):
    return [tuple(e) for e in l]


def k1_expand(ctx, cfg, starts=(), ends=()):
    fp = ctx.fp
    N = fp.NodeExpandedDiGraph
    G = build_G(cfg)
    kw = dict(node_flow_attr=ATTR, node_length_attr=LEN if cfg["node_len"] is not None else None)
    if starts or ends:
        kw.update(additional_starts=list(starts), additional_ends=list(ends), try_filling_in_missing_flow_attr=True)
    filled = False
    try:
        X = N(G, **kw)
    except ValueError as e:
        X = None
        err = "notin" if "not in the original graph" in str(e) else "value:" + str(e)[:80]
    except Exception as e:           # the min-cost-flow fill-in is outside the model: retry without it is impossible
        ctx.rep.count("K1.expand", [cfg, starts, ends], nontrivial=False, hist=["fill-in raised " + type(e).__name__])
        return None
    req = dict(graph_request(cfg), op="nodeexpand", starts=list(starts), ends=list(ends))
    m = ctx.driver.call(req)
    inp = {"graph": cfg, "starts": list(starts), "ends": list(ends)}
    ctx.rep.count("K1.expand", inp, nontrivial=len(cfg["edges"]) > 0,
                  hist=[f"n={len(cfg['nodes'])}", "cyclic" if cfg["cyclic"] else "dag",
                        "globals" if (starts or ends) else "plain", "raises" if X is None else "ok"])
    ctx.rep.cov["traces_validated_against_impl"] += 1
    if X is None:
        if m != {"raises": err}:
            ctx.disagree("K1.expand", inp, {"raises": err}, m)
        return None
    if "raises" in m:
        ctx.disagree("K1.expand", inp, "ok", m)
        return X
    m = m["ok"]
    ren = lambda s: re.sub(r"^sink\d+", "sink#", re.sub(r"^source\d+", "source#", s))
    rene = lambda e: (ren(e[0]), ren(e[1]))
    impl = {"nodes": [ren(v) for v in X.nodes],
            "edges": [rene(e) for e in X.edges()],
            "pred_edges": [(ren(u), ren(v)) for v in X.nodes for u in X.pred[v]],
            "ignore": [rene(e) for e in X.edges_to_ignore]}
    model = {"nodes": m["nodes"], "edges": tup_edges(m["edges"]), "pred_edges": tup_edges(m["pred_edges"]),
             "ignore": tup_edges(m["ignore"])}
    if not (starts or ends):       # attribute values (the fill-in changes them and is not modelled)
        impl["flow"] = {e: qstr(X.edges[e][ATTR]) for e in X.edges() if ATTR in X.edges[e]}
        model["flow"] = {(u, v): q for u, v, q in m["flow"]}
        if cfg["node_len"] is not None:
            impl["lengths"] = {e: qstr(X.edges[e][LEN]) for e in X.edges() if LEN in X.edges[e]}
            model["lengths"] = {(u, v): q for u, v, q in m["lengths"]}
        else:
            model["lengths"] = m["lengths"]; impl["lengths"] = None
    if impl != model:
        bad = [k for k in impl if impl[k] != model.get(k)]
        ctx.disagree("K1.expand", inp, {k: str(impl[k]) for k in bad}, {k: str(model.get(k)) for k in bad})
    # oracle (property text): missing attribute => ignored; every original edge ignored; nothing else
    ctx.rep.cov["oracle_evaluations"] += 1
    want = {(u + ".1", v + ".0") for u, v in cfg["edges"]} | {x_node(v) for v in cfg["nodes"] if v not in cfg["node_flow"]}
    got = {e for e in X.edges_to_ignore if not (e[0].startswith("source") and e[0][6:7].isdigit()) and not (e[1].startswith("sink") and e[1][4:5].isdigit())}
    if not (starts or ends) and set(X.edges_to_ignore) != want:
        report(ctx, f"edges_to_ignore of the expansion is {sorted(X.edges_to_ignore)}, expected the expanded original edges "
                      f"and the edges of the attribute-less nodes {sorted(want)}", inp, site="NodeExpandedDiGraph.edges_to_ignore")
    return X


def k1_translate(ctx, cfg, X, rng):
    kind, cons = gen_constraints(rng, cfg)
    pool = cfg["nodes"] + ["nosuch", "zz.0"]
    starts = [rng.choice(pool) for _ in range(rng.randint(0, 3))]
    ends = [rng.choice(pool) for _ in range(rng.randint(0, 3))]
    elems = [rng.choice(pool) for _ in range(rng.randint(0, 4))]
    eds = [list(rng.choice(cfg["edges"])) for _ in range(rng.randint(0, 3))] if cfg["edges"] else []
    if rng.random() < 0.3:
        eds.append([rng.choice(cfg["nodes"]), rng.choice(pool)])
    pycons = [[tuple(x) for x in c] for c in cons] if kind == "edges" else [list(c) for c in cons]
    impl = {"constraints": outcome(lambda: X.get_expanded_subpath_constraints(pycons)),
            "starts": outcome(lambda: X.get_expanded_additional_starts(starts)),
            "ends": outcome(lambda: X.get_expanded_additional_ends(ends)),
            "elements": [outcome(lambda v=v: X.get_expanded_edge(v)) for v in elems],
            "element_edges": [outcome(lambda e=e: X.get_expanded_edge(tuple(e))) for e in eds]}
    m = ctx.driver.call({"op": "nodeexpand.translate", "nodes": cfg["nodes"], "edges": cfg["edges"],
                         "constraints_kind": kind, "constraints": cons, "starts": starts, "ends": ends,
                         "elements": elems, "element_edges": eds})
    model = {"constraints": model_outcome(m["constraints"], lambda l: [tup_edges(c) for c in l]),
             "starts": model_outcome(m["starts"]), "ends": model_outcome(m["ends"]),
             "elements": [model_outcome(x, tuple) for x in m["elements"]],
             "element_edges": [model_outcome(x, tuple) for x in m["element_edges"]]}
    inp = {"graph": {"nodes": cfg["nodes"], "edges": cfg["edges"]}, "kind": kind, "constraints": cons, "starts": starts,
           "ends": ends, "elements": elems, "element_edges": eds}
    ctx.rep.count("K1.translate", inp, nontrivial=bool(cons) or bool(elems),
                  hist=[kind, "cons-" + impl["constraints"][0], "starts-" + impl["starts"][0]])
    ctx.rep.cov["traces_validated_against_impl"] += 1
    if impl != model:
        bad = [k for k in impl if impl[k] != model[k]]
        ctx.disagree("K1.translate", inp, {k: str(impl[k]) for k in bad}, {k: str(model[k]) for k in bad})
    # oracle: expanding an element and condensing it back yields the original
    ctx.rep.cov["oracle_evaluations"] += 1
    for v in cfg["nodes"]:
        e = outcome(lambda: X.get_expanded_edge(v))
        back = outcome(lambda: X.get_condensed_paths([list(e[1])])) if e[0] == "ok" else None
        if back != ("ok", [[v]]):
            report(ctx, f"node {v!r} expands to {e} which condenses to {back}, not to [[{v!r}]]", inp,
                   site="NodeExpandedDiGraph.get_condensed_paths", sig="element round trip")
    if impl["constraints"][0] == "ok" and kind == "nodes":
        for c, xc in zip(cons, impl["constraints"][1]):
            flat = [x for e in xc for x in e]
            back = outcome(lambda: X.get_condensed_paths([flat])[0]) if flat else ("ok", [])
            if back != ("ok", list(c)):
                report(ctx, f"node constraint {c} expands to {xc} which condenses to {back}", inp,
                       site="NodeExpandedDiGraph.get_expanded_subpath_constraints", sig="constraint round trip")


def k1_condense(ctx, cfg, X, rng):
    """random expanded paths (well-formed and damaged) through get_condensed_paths"""
    paths, orig = [], []
    for _ in range(rng.randint(1, 4)):
        w = random_walk(rng, cfg, maxlen=6) if rng.random() < 0.8 else [rng.choice(cfg["nodes"]) for _ in range(rng.randint(0, 4))]
        orig.append(list(w))
        paths.append([x for v in w for x in (v + ".0", v + ".1")])
    damaged = False
    r = rng.random()
    if r < 0.15 and paths[0]:
        paths[0] = paths[0][:-1]; damaged = True                     # odd length
    elif r < 0.3 and paths[0]:
        paths[0] = paths[0][1:]; damaged = True                      # starts at a .1 node
    elif r < 0.4:
        paths[-1] = paths[-1] + ["nosuch.0", "nosuch.1"]; damaged = True
    elif r < 0.45:
        paths[-1] = ["x", "y"] + paths[-1]; damaged = True
    gl = []
    if rng.random() < 0.2:          # global ids are accepted and dropped
        gl = [X.global_source_id, X.global_sink_id]
        paths[0] = [gl[0] + ".0", gl[0] + ".1"] + paths[0] + [gl[1] + ".0", gl[1] + ".1"]
    impl = outcome(lambda: X.get_condensed_paths(paths))
    model = model_outcome(ctx.driver.call({"op": "condense", "orig": cfg["nodes"], "globals": gl, "paths": paths}))
    inp = {"nodes": cfg["nodes"], "paths": paths, "globals": gl}
    ctx.rep.count("K1.condense", inp, nontrivial=any(len(p) >= 4 for p in paths),
                  hist=["damaged" if damaged else "wellformed", impl[0]])
    ctx.rep.cov["traces_validated_against_impl"] += 1
    if impl != model:
        ctx.disagree("K1.condense", inp, str(impl), str(model))
    if not damaged:
        ctx.rep.cov["oracle_evaluations"] += 1
        if impl != ("ok", orig):
            report(ctx, f"condensing the expansion of {orig} gives {impl}", inp, site="NodeExpandedDiGraph.get_condensed_paths")


def k1_condense_graph(ctx, cfg, X):
    got = outcome(lambda: X.get_condensed_graph())
    if got[0] != "ok":
        report(ctx, f"get_condensed_graph raises {got}", {"graph": cfg}, site="NodeExpandedDiGraph.get_condensed_graph")
        return
    impl = sorted([v, qstr(d[ATTR])] for v, d in got[1].nodes(data=True) if ATTR in d)
    xflow = [[u, v, qstr(d[ATTR])] for u, v, d in X.edges(data=True) if ATTR in d]
    model = sorted(ctx.driver.call({"op": "condense.graph", "nodes": cfg["nodes"], "edges": cfg["edges"], "xflow": xflow}))
    inp = {"graph": cfg}
    ctx.rep.count("K1.condense_graph", inp, nontrivial=bool(cfg["node_flow"]), hist=["condense_graph"])
    ctx.rep.cov["traces_validated_against_impl"] += 1
    if impl != model:
        ctx.disagree("K1.condense_graph", inp, impl, model)
    ctx.rep.cov["oracle_evaluations"] += 1
    want = sorted([v, qstr(q)] for v, q in cfg["node_flow"].items())
    if impl != want:
        report(ctx, f"get_condensed_graph of the expansion has node values {impl}, the original graph has {want}", inp,
                      site="NodeExpandedDiGraph.get_condensed_graph")


def run_k1(ctx, rng, n):
    for it in range(n):
        cfg = gen_graph(rng, maxn=7 if it % 4 else 4)
        X = k1_expand(ctx, cfg)
        if it < 2 and X is not None:
            ctx.rep.sample({"graph": cfg, "expanded_nodes": list(X.nodes), "expanded_edges": [list(e) for e in X.edges()],
                            "edges_to_ignore": [list(e) for e in X.edges_to_ignore]})
        if X is None:
            continue
        k1_translate(ctx, cfg, X, rng)
        k1_condense(ctx, cfg, X, rng)
        k1_condense_graph(ctx, cfg, X)
        if it % 5 == 0:
            dag = dict(gen_graph(rng, maxn=5, cyclic=False), edge_flow=[])
            pool = dag["nodes"] + (["nosuch"] if rng.random() < 0.15 else [])
            k1_expand(ctx, dag, starts=[rng.choice(pool) for _ in range(rng.randint(0, 2))],
                      ends=[rng.choice(pool) for _ in range(rng.randint(0, 2))])


# ----------------------------------------------------------------------------- K2 (three-way LP equality, kFlowDecomp)

def gen_k2(rng):
    """a DAG with node values that are a superposition of weighted paths (so k-decomposable) or arbitrary"""
    cfg = gen_graph(rng, maxn=6, cyclic=False, hostile=rng.random() < 0.5, want_edges=rng.random() < 0.85, blanks=False)
    cfg["edge_flow"] = cfg["edge_flow"] if rng.random() < 0.3 else []
    wint = rng.random() < 0.6
    if not wint:
        cfg["node_flow"] = {v: q + rng.choice([0, 0.5, 0.25]) for v, q in cfg["node_flow"].items()}
    kind, cons = gen_constraints(rng, cfg, allow_bad=rng.random() < 0.3) if rng.random() < 0.5 else ("nodes", [])
    opts = {"optimize_with_greedy": False}
    if rng.random() < 0.5:
        opts["optimize_with_flow_safe_paths"] = False
    r = rng.random()                 # option combinations the constructor accepts
    if r < 0.15:
        opts["optimize_with_safe_paths"] = False
    elif r < 0.3:
        opts.update(optimize_with_safe_paths=False, optimize_with_safe_sequences=True, optimize_with_flow_safe_paths=False)
    if rng.random() < 0.2:
        opts["optimize_with_safe_zero_edges"] = rng.random() < 0.5
    k2 = {"graph": cfg, "weight_type": "int" if wint else "float", "k": rng.randint(1, 3) if rng.random() < 0.97 else 0,
          "constraints_kind": kind, "constraints": cons,
          "coverage": rng.choice(["1", "1", "1/2", "3/4"]), "coverage_length": None,
          "ignore": [v for v in cfg["nodes"] if rng.random() < 0.2] + (["nosuch"] if rng.random() < 0.05 else []),
          "given_weights": None, "options": opts}
    if cfg["node_len"] is not None and cons and rng.random() < 0.7:
        k2["coverage_length"] = rng.choice(["1", "1/2", "3/4"])
        k2["coverage"] = "1"                                # both at once is rejected by the constructor
    if rng.random() < 0.2:
        vals = sorted({frac(q) for q in cfg["node_flow"].values() if q > 0} | {frac(1)})
        k2["given_weights"] = [qstr(v) for v in vals][:4]
    return k2


def k2_kwargs(k2, numtype):
    kw = dict(flow_attr=ATTR, k=k2["k"], weight_type=numtype,
              subpath_constraints_coverage=float(frac(k2["coverage"])),
              optimization_options=dict(k2["options"]))
    if k2["coverage_length"] is not None:
        kw["subpath_constraints_coverage_length"] = float(frac(k2["coverage_length"]))
    if k2["given_weights"] is not None:
        kw["solution_weights_superset"] = [numtype(frac(q)) if numtype is int else float(frac(q)) for q in k2["given_weights"]]
    return kw


def dump_of(model):
    sw = model.solver
    sw._apply_pending_bound_updates()
    return lpdump.from_highs(sw.solver)


def k2_case(ctx, k2):
    fp = ctx.fp
    cfg = k2["graph"]
    numtype = int if k2["weight_type"] == "int" else float
    has_len = cfg["node_len"] is not None
    kind, cons = k2["constraints_kind"], k2["constraints"]
    pycons = [[tuple(x) for x in c] for c in cons] if kind == "edges" else [list(c) for c in cons]
    inp = dict(k2)

    def node_side():
        kw = k2_kwargs(k2, numtype)
        if has_len:
            kw["length_attr"] = LEN
        return dump_of(fp.kFlowDecomp(G=build_G(cfg, numtype=numtype), flow_attr_origin="node",
                                      subpath_constraints=pycons, elements_to_ignore=list(k2["ignore"]), **kw))

    def edge_side():
        X, ign = explicit_expansion(cfg, numtype=numtype, with_len=has_len)
        for v in k2["ignore"]:
            if v not in cfg["nodes"]:
                raise ValueError("ignored node not in the original graph")
            ign.append(x_node(v))
        for c in cons:
            for x in c:
                if (kind == "nodes" and x not in cfg["nodes"]) or (kind == "edges" and list(x) not in cfg["edges"]):
                    raise ValueError("constraint element not in the original graph")
        if any(not c for c in cons):
            raise ValueError("empty constraint")           # (since the repair of get_expanded_subpath_constraints)
        kw = k2_kwargs(k2, numtype)
        if has_len:
            kw["length_attr"] = LEN
        return dump_of(fp.kFlowDecomp(G=X, flow_attr_origin="edge", subpath_constraints=x_constraints(kind, cons),
                                      elements_to_ignore=ign, **kw))

    def side(f):
        try:
            return ("ok", f())
        except (ValueError, IndexError) as e:
            return ("raises", type(e).__name__)
        except Exception as e:
            return ("crash", f"{type(e).__name__}: {str(e)[:100]}")

    a, b = side(node_side), side(edge_side)
    req = dict(graph_request(cfg), op="lp.kfdnode", ignore=k2["ignore"], constraints_kind=kind, constraints=cons,
               weight_type=k2["weight_type"], k=k2["k"], coverage=k2["coverage"], coverage_length=k2["coverage_length"],
               given_weights=k2["given_weights"], original_k=k2["k"])
    m = ctx.driver.call(req)
    c = ("raises", m["raises"]) if "raises" in m else ("ok", lpdump.from_driver(m["ok"]))
    active = len([v for v in cfg["nodes"] if v in cfg["node_flow"] and v not in k2["ignore"]])
    ctx.rep.count("K2.kfd_node", inp, nontrivial=(a[0] == "ok" and active > 0),
                  hist=[f"node:{a[0]}", f"edge:{b[0]}", f"lean:{c[0]}", kind if cons else "nocons",
                        "lengths" if has_len else "nolen", "given" if k2["given_weights"] else "free"])
    ctx.rep.cov["traces_validated_against_impl"] += 1
    if a[0] == "crash":
        # a crash of the node-mode constructor on an input the explicit expansion accepts: property oracle material;
        # both crashing alike (no non-ignored edge at all: w_max = -inf) is a degenerate instance outside the LP model
        ctx.rep.cov["oracle_evaluations"] += 1
        if b[0] == "ok":
            report(ctx, f"kFlowDecomp(flow_attr_origin='node') raises {a[1]} where the explicit expansion in edge mode builds its model",
                   {"class": "kFlowDecomp", "stage": "constructor", "error": a[1], "case": inp}, site="kFlowDecomp.node_mode",
                   sig="raises " + a[1].split(":")[0])
        return
    if a[0] != c[0] or (a[0] == "ok" and a[1] != c[1]):
        ctx.disagree("K2.kfd_node", inp, a[0] if a[0] != "ok" else lpdump.diff(a[1], c[1]), c[0], note="real node mode vs Lean")
    if (a[0] == "ok") != (b[0] == "ok") or (a[0] == "ok" and a[1] != b[1]):
        ctx.disagree("K2.kfd_node", inp, a[0] if a[0] != "ok" or b[0] != "ok" else lpdump.diff(a[1], b[1]), b[0],
                     note="real node mode vs real edge mode on the explicit expansion")


def run_k2(ctx, rng, n):
    for it in range(n):
        k2 = gen_k2(rng)
        k2_case(ctx, k2)
        if it == 0:
            ctx.rep.sample({"k2_case": k2})


# ----------------------------------------------------------------------------- K2 (three-way, kPathCover / kLeastAbsErrors / kMinPathError)

K2M = {"kPathCover": "lp.kcovernode", "kLeastAbsErrors": "lp.klaenode", "kMinPathError": "lp.kmpenode"}
NO_SAFETY = {"optimize_with_safe_paths": False, "optimize_with_safe_sequences": False, "optimize_with_safe_zero_edges": False,
             "optimize_with_subpath_constraints_as_safe_sequences": False, "optimize_with_safety_as_subpath_constraints": False,
             "optimize_with_safety_from_largest_antichain": False, "optimize_with_greedy": False,
             "optimize_with_flow_safe_paths": False}


def gen_k2m(rng, cls):
    """the configurations of gen_k2 (DAG, hostile names, node / edge constraints, ignored nodes, lengths, coverage) plus
    what the three node branches translate in addition: additional starts / ends, error_scaling keyed by node (factor 0
    = ignored), path_length_ranges / factors; safety optimisations off (they do not reach the modelled LP)"""
    k2 = gen_k2(rng)
    k2["given_weights"] = None
    cfg = k2["graph"]
    bad = ["nosuch"] if rng.random() < 0.04 else []
    k2["starts"] = [v for v in cfg["nodes"] if rng.random() < 0.15] + (bad if rng.random() < 0.5 else [])
    k2["ends"] = [v for v in cfg["nodes"] if rng.random() < 0.15]
    k2["scaling"] = {}
    if cls != "kPathCover" and rng.random() < 0.5:
        k2["scaling"] = {v: rng.choice(["0", "1/2", "1", "1/4"]) for v in cfg["nodes"] + bad if rng.random() < 0.4}
        if rng.random() < 0.04 and cfg["nodes"]:
            k2["scaling"][cfg["nodes"][0]] = "2"                      # outside [0, 1]: rejected by both branches
    k2["ranges"], k2["factors"] = [], []
    if cls == "kMinPathError" and rng.random() < 0.3:
        k2["ranges"], k2["factors"] = [[0, 2], [3, 40]], rng.choice([[1, 2], [1, 1], [2, 3]])
        if rng.random() < 0.1:
            k2["factors"] = k2["factors"][:1]                          # lengths differ: rejected
    k2["options"] = dict(NO_SAFETY)
    if rng.random() < 0.3:
        k2["options"]["allow_empty_paths"] = True
    k2["class"] = cls
    return k2


def k2m_kwargs(cls, k2, numtype, has_len):
    kw = dict(k=k2["k"], subpath_constraints_coverage=float(frac(k2["coverage"])),
              optimization_options=dict(k2["options"]))
    if k2["coverage_length"] is not None:
        kw["subpath_constraints_coverage_length"] = float(frac(k2["coverage_length"]))
    if has_len:
        kw["length_attr"] = LEN
    if cls != "kPathCover":
        kw["flow_attr"] = ATTR
        kw["weight_type"] = numtype
    if cls == "kMinPathError":
        kw["path_length_ranges"] = [tuple(r) for r in k2["ranges"]]
        kw["path_length_factors"] = list(k2["factors"])
    return kw


def k2m_case(ctx, k2):
    """real node branch | real edge branch on an expansion built here from the property text | Lean node branch"""
    fp = ctx.fp
    cls = k2["class"]
    cfg = k2["graph"]
    numtype = int if k2["weight_type"] == "int" else float
    has_len = cfg["node_len"] is not None
    kind, cons = k2["constraints_kind"], k2["constraints"]
    pycons = [[tuple(x) for x in c] for c in cons] if kind == "edges" else [list(c) for c in cons]
    scaling = {v: float(frac(q)) for v, q in k2["scaling"].items()}
    inp = dict(k2)

    def unmodelled(m):
        if m.edges_set_to_zero or m.edges_set_to_one:
            raise RuntimeError("edge variables fixed by safety (not modelled)")
        return dump_of(m)

    def node_side():
        kw = k2m_kwargs(cls, k2, numtype, has_len)
        G = build_G(cfg, numtype=numtype)
        if cls == "kPathCover":
            return unmodelled(fp.kPathCover(G=G, cover_type="node", subpath_constraints=pycons,
                                            elements_to_ignore=list(k2["ignore"]), additional_starts=list(k2["starts"]),
                                            additional_ends=list(k2["ends"]), **kw))
        return unmodelled(getattr(fp, cls)(G=G, flow_attr_origin="node", subpath_constraints=pycons,
                                           elements_to_ignore=list(k2["ignore"]), additional_starts=list(k2["starts"]),
                                           additional_ends=list(k2["ends"]), error_scaling=dict(scaling), **kw))

    def edge_side():
        X, ign = explicit_expansion(cfg, numtype=numtype, with_len=has_len)
        if cls == "kPathCover":        # nothing carries a value: every node is to be covered
            ign = [(u + ".1", v + ".0") for u, v in cfg["edges"]]
        for v in list(k2["ignore"]) + list(k2["starts"]) + list(k2["ends"]) + list(k2["scaling"]):
            if v not in cfg["nodes"]:
                raise ValueError("node not in the original graph")
        ign = ign + [x_node(v) for v in k2["ignore"]]
        for c in cons:
            for x in c:
                if (kind == "nodes" and x not in cfg["nodes"]) or (kind == "edges" and list(x) not in cfg["edges"]):
                    raise ValueError("constraint element not in the original graph")
        if any(not c for c in cons):
            raise ValueError("empty constraint")           # (since the repair of get_expanded_subpath_constraints)
        kw = k2m_kwargs(cls, k2, numtype, has_len)
        xs, xe = [v + ".0" for v in k2["starts"]], [v + ".1" for v in k2["ends"]]
        if cls == "kPathCover":
            return unmodelled(fp.kPathCover(G=X, cover_type="edge", subpath_constraints=x_constraints(kind, cons),
                                            elements_to_ignore=ign, additional_starts=xs, additional_ends=xe, **kw))
        return unmodelled(getattr(fp, cls)(G=X, flow_attr_origin="edge", subpath_constraints=x_constraints(kind, cons),
                                           elements_to_ignore=ign, additional_starts=xs, additional_ends=xe,
                                           error_scaling={x_node(v): q for v, q in scaling.items()}, **kw))

    def side(f):
        try:
            return ("ok", f())
        except (ValueError, IndexError) as e:
            return ("raises", type(e).__name__)
        except Exception as e:
            return ("crash", f"{type(e).__name__}: {str(e)[:100]}")

    a, b = side(node_side), side(edge_side)
    suite = "K2." + cls + "_node"
    req = dict(graph_request(cfg), op=K2M[cls], ignore=k2["ignore"], constraints_kind=kind, constraints=cons,
               weight_type=k2["weight_type"], k=k2["k"], coverage=k2["coverage"], coverage_length=k2["coverage_length"],
               allow_empty=bool(k2["options"].get("allow_empty_paths", False)), starts=k2["starts"], ends=k2["ends"],
               scaling=[[v, q] for v, q in k2["scaling"].items()],
               path_length_ranges=[[qstr(x), qstr(y)] for x, y in k2["ranges"]],
               path_length_factors=[qstr(x) for x in k2["factors"]])
    m = ctx.driver.call(req)
    c = ("raises", m["raises"]) if "raises" in m else ("ok", lpdump.from_driver(m["ok"]))
    if cls == "kPathCover":
        active = len([v for v in cfg["nodes"] if v not in k2["ignore"]])
    else:
        active = len([v for v in cfg["nodes"] if v in cfg["node_flow"] and v not in k2["ignore"]])
    ctx.rep.count(suite, inp, nontrivial=(a[0] == "ok" and active > 0),
                  hist=[f"node:{a[0]}", f"edge:{b[0]}", f"lean:{c[0]}", kind if cons else "nocons",
                        "lengths" if has_len else "nolen", "starts/ends" if k2["starts"] or k2["ends"] else "nostarts",
                        "scaling" if k2["scaling"] else "noscaling", "factors" if k2["factors"] else "nofactors",
                        "coverage_length" if k2["coverage_length"] is not None else "coverage"])
    ctx.rep.cov["traces_validated_against_impl"] += 1
    if a[0] == "crash" or b[0] == "crash":
        if a[0] == "crash" and b[0] == "ok" and "not modelled" not in a[1]:
            ctx.rep.cov["oracle_evaluations"] += 1
            report(ctx, f"{cls} in node mode raises {a[1]} where the explicit expansion in edge mode builds its model",
                   {"class": cls, "stage": "constructor", "error": a[1], "case": inp}, site=cls + ".node_mode",
                   sig="raises " + a[1].split(":")[0])
        return
    if a[0] != c[0] or (a[0] == "ok" and a[1] != c[1]):
        ctx.disagree(suite, inp, a[0] if a[0] != "ok" else lpdump.diff(a[1], c[1]), c[0], note="real node mode vs Lean")
    # property oracle: the LP of the node branch is the LP of the edge branch on the explicit expansion
    ctx.rep.cov["oracle_evaluations"] += 1
    if (a[0] == "ok") != (b[0] == "ok") or (a[0] == "ok" and a[1] != b[1]):
        d = a[0] + "/" + b[0] if a[0] != "ok" or b[0] != "ok" else json.dumps(lpdump.diff(a[1], b[1]))[:600]
        report(ctx, f"{cls}: the model built in node mode differs from the model built in edge mode on the explicit "
                    f"expansion of the property text: {d}",
               {"class": cls, "stage": "lp", "case": inp}, site=cls + ".node_mode.lp",
               sig=("lengths" if has_len and k2["coverage_length"] is not None else "other"))


def run_k2m(ctx, rng, n):
    for cls in K2M:
        for it in range(n):
            k2 = gen_k2m(rng, cls)
            k2m_case(ctx, k2)
            if it == 0:
                ctx.rep.sample({"k2m_case": k2})


# ----------------------------------------------------------------------------- K2 (three-way, the four cyclic k-classes)

K2C = {"kFlowDecompCycles": "lp.kfdcnode", "kPathCoverCycles": "lp.kcovercnode",
       "kLeastAbsErrorsCycles": "lp.klaecnode", "kMinPathErrorCycles": "lp.kmpecnode"}
WALK_SAFETY_OFF = {"optimize_with_safe_sequences": False, "optimize_with_safety_as_subset_constraints": False,
                   "optimize_with_max_safe_antichain_as_subset_constraints": False}
CAP_DIAGNOSIS = "repetition-cap-from-edge-attribute"


def _numc(wint):
    """values as the cyclic adapters hand them over: ints for the int weight type unless the value is fractional"""
    def f(q):
        fr = frac(q)
        return int(fr) if wint and fr.denominator == 1 else float(fr)
    return f


def gen_k2c(rng, cls):
    """a node-weighted digraph with cycles (self-loops, 2-cycles, nested cycles, parallel SCC exits / entries, several
    sources / sinks; shapes of gen.digraph_cyc or hostile names of gen_graph), node values that are a superposition of
    weighted walks or arbitrary (zeros, fractional values, now and then a negative one), nodes lacking the attribute,
    original edges carrying an attribute of the same name, ignored nodes, node- / edge-form subset constraints with a
    coverage fraction, additional starts / ends (sometimes missing although the graph has no source / sink: rejected),
    node-keyed error_scaling, given_weights (kFlowDecompCycles), k = None (the two error classes); safety off"""
    wint = rng.random() < 0.55
    if rng.random() < 0.6:
        nodes, edges, starts, ends, tags = gen.digraph_cyc(rng, max_nodes=5, valid=rng.random() < 0.93)
        edges = [tuple(e) for e in edges]
    else:
        g = gen_graph(rng, maxn=5, cyclic=True, hostile=rng.random() < 0.6, want_edges=rng.random() < 0.9, blanks=False)
        nodes, edges = g["nodes"], [tuple(e) for e in g["edges"]]
        indeg = {v: 0 for v in nodes}; outdeg = dict(indeg)
        for u, v in edges:
            outdeg[u] += 1; indeg[v] += 1
        starts = [v for v in nodes if rng.random() < 0.15]
        ends = [v for v in nodes if rng.random() < 0.15]
        if rng.random() < 0.93:
            if not starts and not any(indeg[v] == 0 for v in nodes):
                starts = [rng.choice(nodes)]
            if not ends and not any(outdeg[v] == 0 for v in nodes):
                ends = [rng.choice(nodes)]
        tags = ["hostile_names"]
    pool = (1, 2, 3) if wint else _walk_dyadic()
    r = rng.random()
    if r < 0.55:
        _, walks, ws = gen.walk_flow_cyc(rng, nodes, edges, starts, ends, weights=pool, wtype=int if wint else float)
        val = {v: 0 for v in nodes}
        for w, q in zip(walks, ws):
            for x in [w[0][0]] + [e[1] for e in w]:
                val[x] += q
        if rng.random() < 0.4:
            v = rng.choice(nodes); val[v] = max(0, val[v] + rng.choice([-2, -1, 1, 3]))
    else:
        vp = (0, 0, 1, 2, 3, 5, 8) if (wint or rng.random() < 0.3) else (0, 0.5, 0.75, 1.5, 2.0, 2.25, 4.0, 6.5)
        val = {v: rng.choice(vp) for v in nodes}
    if wint and rng.random() < 0.08:
        v = rng.choice(nodes); val[v] = val[v] + 0.5          # int weight type over float data: w_max = k * int(max)
    if rng.random() < 0.02:
        val[rng.choice(nodes)] = -1                           # rejected by both branches
    pa = 1.0 if rng.random() < 0.5 else 0.8
    node_flow = {v: val[v] for v in nodes if rng.random() < pa}
    edge_flow = []
    if rng.random() < 0.12:                                   # original edges carrying an attribute of the same name
        edge_flow = [[u, v, rng.choice([0, 1, 4, 9] if wint else [0, 0.5, 4.0, 9.0])] for (u, v) in edges if rng.random() < 0.6]
    cfg = {"nodes": list(nodes), "edges": [list(e) for e in edges], "node_flow": node_flow, "edge_flow": edge_flow,
           "node_len": None, "edge_len": [], "cyclic": True, "graph_tags": list(tags)}
    kind, cons = gen_constraints(rng, cfg, allow_bad=rng.random() < 0.25) if rng.random() < 0.5 else ("nodes", [])
    bad = ["nosuch"] if rng.random() < 0.03 else []
    k2 = {"class": cls, "graph": cfg, "weight_type": "int" if wint else "float",
          "k": rng.randint(1, 3) if rng.random() < 0.97 else 0,
          "constraints_kind": kind, "constraints": cons, "coverage": rng.choice(["1", "1", "1/4", "1/2", "3/4"]),
          "ignore": ([v for v in nodes if rng.random() < 0.2] if rng.random() < 0.35 else []) + (bad if rng.random() < 0.3 else []),
          "starts": list(starts) + (bad if rng.random() < 0.3 else []), "ends": list(ends),
          "scaling": {}, "given_weights": None, "allow_empty": rng.random() < 0.35}
    if cls in ("kLeastAbsErrorsCycles", "kMinPathErrorCycles"):
        if rng.random() < 0.45:
            k2["scaling"] = {v: rng.choice(["0", "1/4", "1/2", "1"]) for v in nodes + bad if rng.random() < 0.4}
            if rng.random() < 0.04:
                k2["scaling"][nodes[0]] = "2"                 # outside [0, 1]: rejected by both branches
        if rng.random() < 0.1:
            k2["k"] = None                                    # the class takes the width of the expansion
    if cls == "kFlowDecompCycles" and rng.random() < 0.25:
        vals = sorted({frac(q) for q in node_flow.values() if q > 0} | {frac(1), frac(2)})
        k2["given_weights"] = [qstr(rng.choice(vals)) for _ in range(rng.randint(1, max(1, k2["k"])))]
        if rng.random() < 0.05:
            k2["given_weights"] = k2["given_weights"] * 4     # more weights than k: rejected
    return k2


def _walk_dyadic():
    return (0.5, 1.0, 1.5, 2.25, 4.0)


def k2c_build(fp, k2, node_mode, drop_edge_attr=False):
    """the real class in node mode on the caller's graph, or in edge mode on an expansion built here from the property text"""
    cls = k2["class"]
    cfg = k2["graph"] if not drop_edge_attr else dict(k2["graph"], edge_flow=[])
    wint = k2["weight_type"] == "int"
    numc = _numc(wint)
    kind, cons = k2["constraints_kind"], k2["constraints"]
    scaling = {v: float(frac(q)) for v, q in k2["scaling"].items()}
    opts = dict(WALK_SAFETY_OFF, allow_empty_walks=bool(k2["allow_empty"]))
    if k2.get("given_weights") is not None:
        opts["given_weights"] = [numc(q) for q in k2["given_weights"]]
    kw = dict(k=k2["k"], subset_constraints_coverage=float(frac(k2["coverage"])), optimization_options=opts)
    if cls != "kPathCoverCycles":
        kw.update(flow_attr=ATTR, weight_type=int if wint else float)
    if node_mode:
        G = build_G(cfg, numtype=numc)
        kw.update(G=G, subset_constraints=[[tuple(x) for x in c] for c in cons] if kind == "edges" else [list(c) for c in cons],
                  elements_to_ignore=list(k2["ignore"]), additional_starts=list(k2["starts"]), additional_ends=list(k2["ends"]))
        if cls == "kPathCoverCycles":
            kw["cover_type"] = "node"
        else:
            kw["flow_attr_origin"] = "node"
            if cls != "kFlowDecompCycles":
                kw["error_scaling"] = dict(scaling)
    else:
        X, ign = explicit_expansion(cfg, numtype=numc)
        if cls == "kPathCoverCycles":        # nothing carries a value: every node is to be covered
            ign = [(u + ".1", v + ".0") for u, v in cfg["edges"]]
        for v in list(k2["ignore"]) + list(k2["starts"]) + list(k2["ends"]) + list(k2["scaling"]):
            if v not in cfg["nodes"]:
                raise ValueError("node not in the original graph")
        for c in cons:
            for x in c:
                if (kind == "nodes" and x not in cfg["nodes"]) or (kind == "edges" and list(x) not in cfg["edges"]):
                    raise ValueError("constraint element not in the original graph")
        if any(not c for c in cons):
            raise ValueError("empty constraint")           # (since the repair of get_expanded_subpath_constraints)
        kw.update(G=X, subset_constraints=x_constraints(kind, cons), elements_to_ignore=ign + [x_node(v) for v in k2["ignore"]],
                  additional_starts=[v + ".0" for v in k2["starts"]], additional_ends=[v + ".1" for v in k2["ends"]])
        if cls == "kPathCoverCycles":
            kw["cover_type"] = "edge"
        else:
            kw["flow_attr_origin"] = "edge"
            if cls != "kFlowDecompCycles":
                kw["error_scaling"] = {x_node(v): q for v, q in scaling.items()}
    m = getattr(fp, cls)(**kw)
    if m.edges_set_to_zero or m.edges_set_to_one:
        raise RuntimeError("edge variables fixed by safety (not modelled)")
    return m


def k2c_case(ctx, k2):
    """real node branch | real edge branch on an expansion built here from the property text | Lean node branch"""
    fp = ctx.fp
    cls = k2["class"]
    cfg = k2["graph"]
    kind, cons = k2["constraints_kind"], k2["constraints"]
    inp = dict(k2)
    resolved = {}

    def side(node_mode, drop=False):
        try:
            m = k2c_build(fp, k2, node_mode, drop_edge_attr=drop)
            resolved.setdefault("k", m.k)
            caps = {e: float(m.edge_upper_bounds[e]) for e in m.G.edges() if m.G.is_scc_edge(*e)}
            return ("ok", dump_of(m), caps)
        except (ValueError, IndexError) as e:
            return ("raises", type(e).__name__)
        except Exception as e:
            return ("crash", f"{type(e).__name__}: {str(e)[:100]}")

    a, b = side(True), side(False)
    suite = "K2." + cls + "_node"
    kk = k2["k"] if k2["k"] is not None else resolved.get("k", 1)
    req = dict(graph_request(cfg), op=K2C[cls], ignore=k2["ignore"], constraints_kind=kind, constraints=cons,
               weight_type=k2["weight_type"], k=kk, coverage=k2["coverage"], coverage_length=None,
               allow_empty=bool(k2["allow_empty"]), starts=k2["starts"], ends=k2["ends"],
               scaling=[[v, q] for v, q in k2["scaling"].items()], given_weights=k2.get("given_weights"))
    m = ctx.driver.call(req)
    c = ("raises", m["raises"]) if "raises" in m else ("ok", lpdump.from_driver(m["ok"]))
    if cls == "kPathCoverCycles":
        active = len([v for v in cfg["nodes"] if v not in k2["ignore"]])
    else:
        active = len([v for v in cfg["nodes"] if v in cfg["node_flow"] and v not in k2["ignore"]])
    hist = [f"node:{a[0]}", f"edge:{b[0]}", f"lean:{c[0]}", kind if cons else "nocons",
            "starts/ends" if k2["starts"] or k2["ends"] else "nostarts", "scaling" if k2["scaling"] else "noscaling",
            "given" if k2.get("given_weights") else "free", "k=None" if k2["k"] is None else "k_given",
            "weight_" + k2["weight_type"], "edge_attr_same_name" if cfg["edge_flow"] else "no_edge_attr",
            "self_loop" if any(u == v for u, v in cfg["edges"]) else "no_self_loop"]
    if a[0] == "ok":
        caps = a[2]
        hist += ["has_scc_edge" if caps else "no_scc_edge"]
        if any(v == 0 for v in caps.values()):
            hist.append("scc_edge_cap=0")
        if any(v > 1 for v in caps.values()):
            hist.append("scc_edge_cap>1")
        if any(e[0][:-2] == e[1][:-2] and e[0].endswith(".1") for e in caps):
            hist.append("self_loop_copy_is_scc_edge")
    crashed = a[0] == "crash" or b[0] == "crash"
    tie_ok = crashed or not (a[0] != c[0] or (a[0] == "ok" and a[1] != c[1]))
    exp_differs = (not crashed) and ((a[0] == "ok") != (b[0] == "ok") or (a[0] == "ok" and a[1] != b[1]))
    payload, sig = None, "other"
    if exp_differs:
        payload = {"class": cls, "stage": "lp", "case": inp}
        if cfg["edge_flow"] and a[0] == "ok" and b[0] == "ok":
            # diagnosis: the same call with the same-named attribute removed from the original edges
            a2 = side(True, drop=True)
            if a2[0] == "ok" and a2[1] == b[1]:
                payload["diagnosis"] = CAP_DIAGNOSIS
                payload["caps_node_mode"] = sorted([list(e), v] for e, v in a[2].items() if b[2].get(e) != v)
                payload["caps_expansion"] = sorted([list(e), v] for e, v in b[2].items() if a[2].get(e) != v)
                sig = CAP_DIAGNOSIS
    hist += ["crash" if crashed else "lean=node" if tie_ok else "lean!=node",
             "crash" if crashed else "expansion=node" if not exp_differs else "expansion!=node:" + sig]
    ctx.rep.count(suite, inp, nontrivial=(a[0] == "ok" and active > 0), hist=hist)
    ctx.rep.cov["traces_validated_against_impl"] += 1
    if crashed:
        if a[0] == "crash" and b[0] == "ok" and "not modelled" not in a[1]:
            ctx.rep.cov["oracle_evaluations"] += 1
            report(ctx, f"{cls} in node mode raises {a[1]} where the explicit expansion in edge mode builds its model",
                   {"class": cls, "stage": "constructor", "error": a[1], "case": inp}, site=cls + ".node_mode",
                   sig="raises " + a[1].split(":")[0])
        return
    if not tie_ok:
        ctx.disagree(suite, inp, a[0] if a[0] != "ok" else lpdump.diff(a[1], c[1]), c[0], note="real node mode vs Lean")
    # property oracle: the LP of the node branch is the LP of the edge branch on the explicit expansion
    ctx.rep.cov["oracle_evaluations"] += 1
    if exp_differs:
        d = a[0] + "/" + b[0] if a[0] != "ok" or b[0] != "ok" else json.dumps(lpdump.diff(a[1], b[1]))[:600]
        report(ctx, f"{cls}: the model built in node mode differs from the model built in edge mode on the explicit "
                    f"expansion of the property text: {d}", payload, site=cls + ".node_mode.lp", sig=sig)


def run_k2c(ctx, rng, n):
    for cls in K2C:
        for it in range(n):
            k2 = gen_k2c(rng, cls)
            k2c_case(ctx, k2)
            if it == 0:
                ctx.rep.sample({"k2c_case": k2})


def _loop_cfg(vals, loop_attr):
    """s -> a -> t with the self-loop a -> a; the self-loop carries an edge attribute named like the flow attribute"""
    return {"nodes": ["s", "a", "t"], "edges": [["s", "a"], ["a", "a"], ["a", "t"]], "node_flow": dict(vals),
            "edge_flow": [["a", "a", loop_attr]], "node_len": None, "edge_len": [], "cyclic": True}


def _cap_inst(vals, loop_attr, wt):
    return {"graph": _loop_cfg(vals, loop_attr), "k": 1, "ignore": [], "constraints": [], "starts": [], "ends": [],
            "error_scaling": {}, "weight_type": wt}


# FP.Props.C11.exLoopCap / kfdc_node_mode_cap_from_edge_attribute_differs (finding C11-cyclic-node-mode-cap-from-edge-attribute)
CAP_WITNESSES = [
    ("kFlowDecompCycles", _cap_inst({"s": 1, "a": 2, "t": 1}, 0, "int")),
    ("kLeastAbsErrorsCycles", _cap_inst({"s": 0.5, "a": 1.5, "t": 0.5}, 9.0, "float")),
    ("kMinPathErrorCycles", _cap_inst({"s": 0.5, "a": 1.5, "t": 0.5}, 9.0, "float")),
]


def _strip(route):
    """expanded names v.0, v.1, ... -> v, ... (harness-side, independent of get_condensed_paths)"""
    return [x[:-2] for x in route[::2]] if route and all(x[-2:] in (".0", ".1") for x in route) else list(route)


def node_residuals(cfg, ignore, routes, weights):
    """independent evaluation on the caller's node-weighted graph: every route must be a walk from a node without
    in-edges to a node without out-edges; returns {v: value(v) - sum_i w_i * visits_i(v)} over the nodes that carry the
    attribute and are not ignored, or None if some route is not such a walk"""
    edges = {tuple(e) for e in cfg["edges"]}
    has_in = {v for _, v in edges}; has_out = {u for u, _ in edges}
    res = {v: Fraction(q).limit_denominator(1000) for v, q in cfg["node_flow"].items() if v not in ignore}
    for r, w in zip(routes, weights):
        if not r or r[0] in has_in or r[-1] in has_out or any((u, v) not in edges for u, v in zip(r[:-1], r[1:])):
            return None
        for v in r:
            if v in res:
                res[v] -= Fraction(w).limit_denominator(1000)
    return res


def brute_single_walk(cfg, ignore, maxlen=6):
    """brute force for k = 1: all walks with at most `maxlen` nodes from a node without in-edges to a node without
    out-edges of the caller's graph, every node value as candidate weight; returns the (walk, weight) pairs that explain
    every non-ignored node value exactly"""
    edges = {tuple(e) for e in cfg["edges"]}
    succ = {v: [y for (x, y) in edges if x == v] for v in cfg["nodes"]}
    has_in = {v for _, v in edges}; has_out = {u for u, _ in edges}
    found = []
    stack = [[v] for v in cfg["nodes"] if v not in has_in]
    while stack:
        w = stack.pop()
        if w[-1] not in has_out:
            for q in sorted({x for x in cfg["node_flow"].values() if x > 0}):
                res = node_residuals(cfg, ignore, [w], [q])
                if res is not None and all(x == 0 for x in res.values()):
                    found.append((w, q))
        if len(w) < maxlen:
            stack += [w + [y] for y in succ[w[-1]]]
    return found


def cap_witnesses(ctx):
    """the inputs of the finding, end to end on the real classes (node mode vs edge mode on the explicit expansion), with
    an independent evaluation of the returned walks on the caller's node-weighted graph"""
    for name, inst in CAP_WITNESSES:
        inst = copy.deepcopy(inst)
        a, b, comp = k5_case(ctx, name, inst, suite="witness.cap")
        ctx.rep.cov["oracle_evaluations"] += 1
        cfg = inst["graph"]
        cert = {}
        for tag, side in (("node_mode", a), ("expansion", b)):
            if side.get("solved") and "weights" in side:
                res = node_residuals(cfg, inst["ignore"], [_strip(r) for r in side["routes"]], side["weights"])
                cert[tag] = None if res is None else float(sum(abs(x) for x in res.values()))
        # what the independent evaluation must confirm when the two sides differ: the walks of the solved side(s) are
        # source-to-sink walks of the caller's graph and leave exactly the residual the class reports
        if comp and name == "kFlowDecompCycles" and b.get("solved") and cert.get("expansion") != 0.0:
            report(ctx, f"{name}: the walks returned on the explicit expansion do not explain the node values (residual "
                        f"{cert.get('expansion')})", {"class": name, "instance": inst, "expansion": b}, site=f"{name}.certificate")
        if comp and name != "kFlowDecompCycles":
            for tag, side in (("node_mode", a), ("expansion", b)):
                if side.get("solved") and name == "kLeastAbsErrorsCycles" and cert.get(tag) is not None \
                        and abs(cert[tag] - side["objective"]) > 1e-6:
                    report(ctx, f"{name}: {tag} reports objective {side['objective']} but its walks leave the absolute "
                                f"error {cert[tag]} on the caller's graph", {"class": name, "instance": inst, tag: side},
                           site=f"{name}.certificate")
        brute = None
        if name == "kFlowDecompCycles":
            brute = [[w, q] for w, q in brute_single_walk(cfg, inst["ignore"])]
            if comp and not a.get("solved") and not brute:
                report(ctx, f"{name}: node mode is unsolved and the brute force finds no single walk either, but the explicit "
                            f"expansion is solved", {"class": name, "instance": inst, "expansion": b}, site=f"{name}.certificate")
        ctx.rep.sample({"cap_witness": name, "node_mode": a, "expansion": b, "independent_residual": cert,
                        "brute_force_single_walk_decompositions": brute}, limit=12)


COVER_LENGTH_WITNESS = {          # FP.Props.C11.exCover / kcover_node_mode_length_regression (defect repaired by 65014a7)
    "class": "kPathCover",
    "graph": {"nodes": ["a", "b", "c"], "edges": [["a", "b"], ["a", "c"], ["c", "b"]], "node_flow": {},
              "edge_flow": [], "node_len": {"a": 1, "b": 1, "c": 1}, "edge_len": [], "cyclic": False},
    "weight_type": "int", "k": 1, "constraints_kind": "edges", "constraints": [[["a", "b"]]], "coverage": "1",
    "coverage_length": "3/4", "ignore": [], "given_weights": None, "options": dict(NO_SAFETY), "starts": [], "ends": [],
    "scaling": {}, "ranges": [], "factors": []}



def cover_length_regression(ctx):
    """the input of the former finding C11-kpathcover-node-length-default (repaired by 65014a7), end to end on the real
    classes: the constraint edge (a, b) at coverage_length 3/4 is met by the path a, c, b (node lengths 1, the edge
    itself has length 0), so k = 1 is solved and MinPathCover answers one path"""
    fp = ctx.fp
    w = COVER_LENGTH_WITNESS
    k2m_case(ctx, copy.deepcopy(w))
    G = build_G(w["graph"])
    kw = dict(cover_type="node", subpath_constraints=[[tuple(e) for e in c] for c in w["constraints"]],
              subpath_constraints_coverage_length=float(frac(w["coverage_length"])), length_attr=LEN)
    ctx.rep.count("regression", "cover_length", nontrivial=True, hist=["kPathCover node coverage_length"])
    ctx.rep.cov["oracle_evaluations"] += 1
    try:
        m = fp.kPathCover(G, k=1, **kw); m.solve()
        one = m.is_solved() and [list(p) for p in m.get_solution()["paths"]] == [["a", "c", "b"]]
        mm = fp.MinPathCover(G, **kw); mm.solve()
        n = len(mm.get_solution()["paths"]) if mm.is_solved() else None
    except Exception as e:
        one, n = False, f"{type(e).__name__}: {str(e)[:80]}"
    if not one or n != 1:
        report(ctx, f"kPathCover(cover_type='node', k=1) on a->b, a->c->b with the edge constraint (a,b) at coverage_length 3/4 "
                    f"solved with path a,c,b: {one}; MinPathCover answers {n} paths (expected 1): original edges must count "
                    f"with length 0 as on the explicit expansion",
               {"class": "kPathCover", "stage": "solve", "case": w}, site="kPathCover.node_mode.lp", sig="length regression")

# ----------------------------------------------------------------------------- K5 (end-to-end metamorphic oracle)

DAG_CLASSES = ["kFlowDecomp", "MinFlowDecomp", "kLeastAbsErrors", "kMinPathError", "kPathCover", "MinPathCover", "MinErrorFlow"]
CYC_CLASSES = ["kFlowDecompCycles", "MinFlowDecompCycles", "kLeastAbsErrorsCycles", "kMinPathErrorCycles",
               "kPathCoverCycles", "MinPathCoverCycles"]
TL = 30


def _reach(cfg, roots, backwards):
    adj = {v: [] for v in cfg["nodes"]}
    for u, v in cfg["edges"]:
        (adj[v] if backwards else adj[u]).append(u if backwards else v)
    seen, st = set(roots), list(roots)
    while st:
        for w in adj[st.pop()]:
            if w not in seen:
                seen.add(w); st.append(w)
    return seen


def gen_k5(rng, cyclic, maxn=6, perturb=True):
    """small node-weighted instance whose node values are (mostly) a superposition of weighted routes"""
    for _ in range(50):
        cfg = gen_graph(rng, maxn=maxn, cyclic=cyclic, hostile=rng.random() < 0.4, want_edges=rng.random() < 0.85)
        indeg = {v: 0 for v in cfg["nodes"]}; outdeg = dict(indeg)
        for u, v in cfg["edges"]:
            outdeg[u] += 1; indeg[v] += 1
        # the walk models want a node without in-edges and one without out-edges (or declared starts / ends)
        if not cyclic or rng.random() < 0.1:
            break
        # ... and every node on some route from the former to the latter (otherwise both modes reject alike)
        srcs = [v for v in cfg["nodes"] if indeg[v] == 0]
        snks = [v for v in cfg["nodes"] if outdeg[v] == 0]
        if srcs and snks and _reach(cfg, srcs, False) == set(cfg["nodes"]) == _reach(cfg, snks, True):
            break
    cfg["edge_flow"], cfg["node_len"], cfg["edge_len"] = [], None, []
    if cyclic and rng.random() < 0.08:      # original edges that carry an attribute named like the node attribute
        cfg["edge_flow"] = [[u, v, rng.choice([0, 1, 7])] for u, v in cfg["edges"] if rng.random() < 0.5]
    ns, es = cfg["nodes"], [tuple(e) for e in cfg["edges"]]
    succ = {v: [] for v in ns}; pred = {v: [] for v in ns}
    for u, v in es:
        succ[u].append(v); pred[v].append(u)
    starts = [v for v in ns if not pred[v]] or [rng.choice(ns)]
    val = {v: 0 for v in ns}
    routes = []
    for _ in range(rng.randint(1, 3)):
        v = rng.choice(starts); w = [v]; guard = 0
        while succ[v] and guard < 8 and (not cyclic or rng.random() < 0.85 or not [x for x in succ[v]]):
            guard += 1
            v = rng.choice(succ[v]); w.append(v)
        wt = rng.choice([1, 2, 3, 5])
        routes.append((w, wt))
        for x in w:
            val[x] += wt
    mode = rng.random()
    if mode < 0.25 and perturb:          # perturb (error models; flow models become infeasible / unsolved)
        v = rng.choice(ns); val[v] = max(0, val[v] + rng.choice([-1, 1, 2]))
    missing = [v for v in ns if rng.random() < (0.15 if mode > 0.5 else 0.0)]
    cfg["node_flow"] = {v: val[v] for v in ns if v not in missing}
    inst = {"graph": cfg, "k": max(1, len(routes) + rng.choice([0, 0, 0, 1, -1])),
            "ignore": [v for v in ns if rng.random() < 0.1] if rng.random() < 0.4 else [],
            "constraints": [], "starts": [], "ends": [], "error_scaling": {}, "weight_type": "int"}
    if rng.random() < 0.35 and routes:
        w = rng.choice(routes)[0]
        i = rng.randrange(len(w)); c = w[i:i + rng.randint(1, 3)]
        inst["constraints"] = [c]
    r = rng.random()
    if r < 0.3 and routes:
        # constraints given as EDGES of the original graph and / or a coverage fraction below 1: the number of elements
        # of the translated constraint (nodes and edges of the expansion, head node included) then decides the threshold
        w = max((q[0] for q in routes), key=len)
        if len(w) >= 2 and rng.random() < 0.7:
            i = rng.randrange(len(w) - 1); c = w[i:i + rng.randint(2, 4)]
            inst["constraints_kind"] = "edges"
            inst["constraints"] = [[list(e) for e in zip(c[:-1], c[1:])]]
        if inst["constraints"]:
            inst["coverage"] = rng.choice([0.7, 0.5, 0.6, 0.8, 0.75])
    if rng.random() < 0.25:
        inst["starts"] = [rng.choice(ns)]
    if rng.random() < 0.25:
        inst["ends"] = [rng.choice(ns)]
    if rng.random() < 0.15:
        inst["error_scaling"] = {rng.choice(ns): rng.choice([0, 0.5])}
    return inst


def sparse_instances():
    """graphs in which routes are as short as they get: 1-4 isolated nodes (the minimum cover / decomposition needs as many
    routes as there are nodes), alone or next to one edge; every class is run on them"""
    out = []
    for n in (1, 2, 3, 4):
        for extra in (False, True):
            nodes = [f"v{i}" for i in range(n)] + (["p", "q"] if extra else [])
            edges = [["p", "q"]] if extra else []
            cfg = {"nodes": nodes, "edges": edges, "node_flow": {v: 2 for v in nodes}, "edge_flow": [], "node_len": None,
                   "edge_len": [], "cyclic": False}
            for k in (n + (1 if extra else 0), max(1, n - 1)):
                out.append({"graph": cfg, "k": k, "ignore": [], "constraints": [], "starts": [], "ends": [],
                            "error_scaling": {}, "weight_type": "int"})
    return out


def k5_kwargs(cls, inst, node_mode):
    """keyword arguments for class `cls` in node mode on G, or in edge mode on the explicit expansion"""
    ps = inspect.signature(cls.__init__).parameters
    cfg = inst["graph"]
    kw = {}
    if node_mode:
        kw["G"] = build_G(cfg)
        ign = list(inst["ignore"])
        cons = [list(c) for c in inst["constraints"]]
        if inst.get("constraints_kind") == "edges":
            cons = [[tuple(e) for e in c] for c in inst["constraints"]]
        starts, ends = list(inst["starts"]), list(inst["ends"])
        scal = dict(inst["error_scaling"])
    else:
        # a cover has no values: every node is to be covered unless the caller ignores it
        xcfg = dict(cfg, node_flow={v: 0 for v in cfg["nodes"]}) if "cover_type" in ps else cfg
        X, ign = explicit_expansion(xcfg)
        kw["G"] = X
        ign = ign + [x_node(v) for v in inst["ignore"]]
        cons = x_constraints(inst.get("constraints_kind", "nodes"), inst["constraints"])
        starts, ends = [v + ".0" for v in inst["starts"]], [v + ".1" for v in inst["ends"]]
        scal = {x_node(v): s for v, s in inst["error_scaling"].items()}
    if "flow_attr" in ps:
        kw["flow_attr"] = ATTR
        kw["flow_attr_origin"] = "node" if node_mode else "edge"
    if "cover_type" in ps:
        kw["cover_type"] = "node" if node_mode else "edge"
    if "k" in ps:
        kw["k"] = inst["k"]
    if "weight_type" in ps:
        kw["weight_type"] = float if inst.get("weight_type") == "float" else int
    kw["elements_to_ignore"] = ign
    if "subpath_constraints" in ps and cons:
        kw["subpath_constraints"] = cons
    if "subset_constraints" in ps and cons:
        kw["subset_constraints"] = cons
    if inst.get("coverage") is not None and cons:
        if "subpath_constraints_coverage" in ps:
            kw["subpath_constraints_coverage"] = inst["coverage"]
        if "subset_constraints_coverage" in ps:
            kw["subset_constraints_coverage"] = inst["coverage"]
    if "additional_starts" in ps and starts:
        kw["additional_starts"] = starts
    if "additional_ends" in ps and ends:
        kw["additional_ends"] = ends
    if "error_scaling" in ps and scal:
        kw["error_scaling"] = scal
    if "solver_options" in ps:
        kw["solver_options"] = {"time_limit": inst.get("time_limit", TL)}
    return kw


def applicable(name, inst):
    if name in ("MinFlowDecomp", "MinFlowDecompCycles") and (inst["starts"] or inst["ends"]):
        return False      # their edge mode rejects additional starts/ends: no explicit counterpart to compare with
    return True


_statuses = []


def instrument(fp):
    """record the HiGHS model status after every optimize() (harness-side wrapper, /repo is not touched): a
    solver failure (kSolveError, time limit) must not be mistaken for a deviation of node mode"""
    SW = fp.utils.solverwrapper.SolverWrapper
    if getattr(SW, "_c11_wrapped", False):
        return
    orig = SW.optimize

    def optimize(self, *a, **k):
        r = orig(self, *a, **k)
        try:
            _statuses.append(str(self.get_model_status()))
        except Exception:
            _statuses.append("?")
        return r
    SW.optimize = optimize
    SW._c11_wrapped = True


def solve_side(cls, kw):
    del _statuses[:]
    try:
        m = cls(**kw)
        m.solve()
        solved = bool(m.is_solved())
        out = {"solved": solved, "statuses": sorted(set(_statuses))}
        if solved:
            out["objective"] = float(m.get_objective_value())
            sol = m.get_solution()
            if isinstance(sol, dict):
                if "paths" in sol:
                    out["routes"] = [list(p) for p in sol["paths"]]
                elif "walks" in sol:
                    out["routes"] = [list(p) for p in sol["walks"]]
                if "weights" in sol:
                    out["weights"] = [float(w) for w in sol["weights"]]
                if "graph" in sol:
                    g = sol["graph"]
                    out["graph_nodes"] = sorted(map(str, g.nodes()))
                    out["graph_edges"] = sorted([str(u), str(v)] for u, v in g.edges())
            else:
                out["solution_type"] = type(sol).__name__
        return out
    except Exception as e:
        return {"raises": f"{type(e).__name__}: {str(e)[:160]}"}


def k5_judge(name, inst, a, b):
    """property text: same solved status, same objective, routes in original names and walks of the original graph.
    returns a list of complaints (empty = property holds on this instance)"""
    cfg = inst["graph"]
    out = []
    if "raises" in a and "raises" not in b:
        return [f"node mode raises {a['raises']} while the explicit expansion in edge mode gives solved={b['solved']}"]
    if "raises" in a and "raises" in b:
        return []          # both reject the instance
    if "raises" in b:
        return [f"the explicit expansion in edge mode raises {b['raises']} while node mode gives solved={a['solved']}"]
    if a["solved"] != b["solved"]:
        loser = b if a["solved"] else a
        if any(st not in ("kOptimal", "kInfeasible") for st in loser.get("statuses", [])):
            return ["INCONCLUSIVE"]      # HiGHS failed on one side (solve error / limit): nothing to compare
        out.append(f"solved status differs: node mode {a['solved']}, explicit expansion {b['solved']}")
    elif a["solved"] and abs(a["objective"] - b["objective"]) > 1e-6:
        out.append(f"objective differs: node mode {a['objective']}, explicit expansion {b['objective']}")
    if a.get("solved"):
        nodes, edges = set(cfg["nodes"]), {tuple(e) for e in cfg["edges"]}
        for r in a.get("routes", []):
            bad = [x for x in r if x not in nodes]
            if bad:
                out.append(f"returned route {r} contains names that are not nodes of the original graph: {bad}")
                break
            if any((u, v) not in edges for u, v in zip(r[:-1], r[1:])):
                out.append(f"returned route {r} is not a walk of the original graph")
                break
        if "graph_nodes" in a and (a["graph_nodes"] != sorted(cfg["nodes"]) or a["graph_edges"] != sorted(cfg["edges"])):
            out.append(f"returned graph has nodes {a['graph_nodes']}, not the original nodes / edges")
    return out


def k5_case(ctx, name, inst, suite="K5.node_vs_expansion"):
    cls = getattr(ctx.fp, name)
    instrument(ctx.fp)
    a = solve_side(cls, k5_kwargs(cls, inst, True))
    b = solve_side(cls, k5_kwargs(cls, inst, False))
    complaints = k5_judge(name, inst, a, b)
    key = {"class": name, "instance": inst}
    inconclusive = complaints == ["INCONCLUSIVE"]
    ctx.rep.count(suite, key, nontrivial=bool(a.get("solved") or b.get("solved")) and not inconclusive,
                  hist=[name + ":" + ("solver-failure" if inconclusive else "raises" if "raises" in a else "solved" if a["solved"] else "unsolved")])
    ctx.rep.cov["oracle_evaluations"] += 1
    if inconclusive:
        return a, b, []
    if complaints:
        sig = "raises " + a["raises"].split(":")[0] if "raises" in a else re.sub(r"[\d.]+|\[.*?\]|'[^']*'", "#", complaints[0])[:60]
        payload = {"class": name, "instance": inst, "node_mode": a, "expansion": b}
        if inst["graph"].get("edge_flow"):
            # diagnosis: the same node-mode call with the same-named attribute removed from the original edges
            inst2 = copy.deepcopy(inst); inst2["graph"]["edge_flow"] = []
            a2 = solve_side(cls, k5_kwargs(cls, inst2, True))
            if not k5_judge(name, inst2, a2, b):
                payload["diagnosis"] = CAP_DIAGNOSIS
                payload["node_mode_without_edge_attribute"] = a2
                sig = CAP_DIAGNOSIS
        report(ctx, f"{name} in node mode vs the explicit expansion: " + "; ".join(complaints), payload,
               site=f"{name}.node_mode", sig=sig)
    return a, b, complaints


def run_k5(ctx, rng, per_class):
    done = 0
    sparse = sparse_instances()
    for name in DAG_CLASSES + CYC_CLASSES:
        cyc = name in CYC_CLASSES
        for inst in (sparse if ctx.tier == "thorough" or name.startswith("Min") else sparse[::3]):
            inst = copy.deepcopy(inst); inst["time_limit"] = ctx.n(6, TL)
            k5_case(ctx, name, inst, suite="K5.sparse")
        t0 = time.time()
        cnt = 0
        while cnt < per_class and time.time() - t0 < ctx.n(4, 60):
            # the minimum searches walk through every k on an instance that has no decomposition at all (until the
            # time limit): their instances are not perturbed, and the quick tier uses a short limit
            inst = gen_k5(rng, cyclic=(rng.random() < 0.7) if cyc else False, maxn=5 if cyc else 6,
                          perturb=not name.startswith("MinFlowDecomp"))
            if not applicable(name, inst):
                continue
            inst["time_limit"] = ctx.n(6, TL)
            a, b, comp = k5_case(ctx, name, inst)
            cnt += 1
            if done < 2 and a.get("solved"):
                ctx.rep.sample({"class": name, "instance": inst, "node_mode": a, "expansion": b}); done += 1


# ----------------------------------------------------------------------------- witnesses replayed on the real code

def run_witnesses(ctx):
    """the concrete inputs of the `_witness` theorems, on the real class"""
    N = ctx.fp.NodeExpandedDiGraph
    G = nx.DiGraph(); G.add_node("a.0", flow=1); G.add_node("a", flow=2); G.add_node("x.1.0", flow=3)
    G.add_edge("a", "a.0"); G.add_edge("a.0", "x.1.0")
    X = N(G, node_flow_attr="flow")
    p = ["a", "a.0", "x.1.0"]
    xp = [x for v in p for x in (v + ".0", v + ".1")]
    ctx.rep.count("witness", "dotted", nontrivial=True, hist=["dotted names"])
    ctx.rep.cov["oracle_evaluations"] += 1
    got = outcome(lambda: X.get_condensed_paths([xp]))
    if got != ("ok", [p]):
        report(ctx, f"dotted names: expansion of {p} condenses to {got}", {"path": p},
               site="NodeExpandedDiGraph.get_condensed_paths")
    ctx.rep.count("witness", "emptyfirst", nontrivial=True, hist=["first constraint empty"])
    got = outcome(lambda: X.get_expanded_subpath_constraints([[], ["a"]]))
    m = ctx.driver.call({"op": "nodeexpand.translate", "nodes": list(G.nodes), "edges": [list(e) for e in G.edges],
                         "constraints_kind": "nodes", "constraints": [[], ["a"]]})
    if got != model_outcome(m["constraints"]):
        ctx.disagree("witness", {"constraints": [[], ["a"]]}, str(got), str(m["constraints"]))


# ----------------------------------------------------------------------------- entry points

def run(ctx):
    rng = ctx.rng
    run_witnesses(ctx)
    run_k1(ctx, rng, ctx.n(400, 10000))
    run_k2(ctx, rng, ctx.n(250, 4000))
    cover_length_regression(ctx)
    run_k2m(ctx, rng, ctx.n(120, 1500))
    run_k2c(ctx, rng, ctx.n(260, 1500))
    cap_witnesses(ctx)
    run_k5(ctx, rng, ctx.n(20, 100))
    # MinFlowDecomp accepts additional starts / ends in node mode only, so there is no explicit edge-mode counterpart to compare
    # with: the node-mode answer is judged by C03's brute-force minimum over node-weighted paths that may start / end there
    from props import c03
    for it in range(ctx.n(12, 80)):
        c03.k5_case(ctx, c03.node_ends_instance(rng), {}, None, suite="K5.mfd_node_starts_ends")
    # the engine starts the failing-input search only when no violation was recorded at all; violations that are
    # known findings must not keep a broken tie from being investigated
    if ctx.disagreements and ctx.violations:
        from fpv.engine import matches_known
        from fpv.common import load_known
        known = load_known()
        if all(matches_known(ctx.pid, v, known) for v in ctx.violations):
            search(ctx)


def search(ctx):
    """a tie or obligation broke and the oracle has not fired yet: rerun the end-to-end oracle on the graphs of the
    disagreeing inputs (every class), then on fresh instances, smallest first"""
    rng = random.Random(4242 + ctx.rng.randint(0, 10 ** 6))
    cands = []
    for d in ctx.disagreements:
        inp = d["input"]
        cfg = inp.get("graph") if isinstance(inp, dict) else None
        if cfg and "node_flow" in cfg and len(cfg["nodes"]) <= 6:
            g = dict(cfg, edge_flow=[], node_len=None, edge_len=[])
            cands.append({"graph": g, "k": inp.get("k", 2), "ignore": [v for v in inp.get("ignore", []) if v in g["nodes"]],
                          "constraints": [], "starts": [], "ends": [], "error_scaling": {}, "weight_type": "int"})
    fresh = [gen_k5(rng, cyclic=False, maxn=4) for _ in range(25)] + [gen_k5(rng, cyclic=True, maxn=4) for _ in range(15)]
    # variants that make each translated feature decisive: an ignored node whose value breaks conservation, a
    # constraint, declared starts / ends, a node without the attribute
    def has_inner(i):
        es = i["graph"]["edges"]
        return bool({v for _, v in es} & {u for u, _ in es})
    bases = [i for i in (gen_k5(rng, cyclic=False, maxn=5) for _ in range(200)) if has_inner(i)][:25]
    for base in bases:
        g = base["graph"]
        v = rng.choice(g["nodes"])
        a = copy.deepcopy(base); a["ignore"] = [v]
        if v in a["graph"]["node_flow"]:
            a["graph"]["node_flow"][v] += 3
        b = copy.deepcopy(base); b["graph"]["node_flow"].pop(v, None)
        c = copy.deepcopy(base); c["constraints"] = [random_walk(rng, g, maxlen=3)]; c["constraints_kind"] = "nodes"
        d = copy.deepcopy(base); d["starts"], d["ends"] = [rng.choice(g["nodes"])], [rng.choice(g["nodes"])]
        fresh += [a, b, c, d]
        w = random_walk(rng, g, maxlen=4)
        if len(w) >= 2:
            for cov in (0.7, 0.5):
                e = copy.deepcopy(base); e["constraints_kind"] = "edges"
                e["constraints"] = [[list(x) for x in zip(w[:-1], w[1:])]]; e["coverage"] = cov
                fresh.append(e)
    fresh += sparse_instances()
    for _ in range(60):
        i = gen_k5(rng, cyclic=False, maxn=5)
        if i.get("coverage") is not None:
            fresh.append(i)
    fresh.sort(key=lambda i: len(i["graph"]["nodes"]) + len(i["graph"]["edges"]))
    for inst in cands[:8] + fresh:
        cyc = inst["graph"]["cyclic"]
        for name in (CYC_CLASSES if cyc else DAG_CLASSES + CYC_CLASSES[:2]):
            if applicable(name, inst):
                k5_case(ctx, name, inst, suite="search.K5")
    # the structural oracles of K1 on the disagreeing graphs
    for d in ctx.disagreements:
        inp = d["input"]
        cfg = inp.get("graph") if isinstance(inp, dict) else None
        if cfg and "node_flow" in cfg and "cyclic" in cfg:
            try:
                X = k1_expand(ctx, cfg)
                if X is not None:
                    k1_condense(ctx, cfg, X, rng); k1_condense_graph(ctx, cfg, X)
            except Exception:
                pass
    ctx.violations.sort(key=lambda v: len(json.dumps(v["input"], default=str)))


def finding_case(ctx, minimal_input):
    """newer engines replay the stored minimal input of every listed finding first"""
    if isinstance(minimal_input, dict) and "class" in minimal_input and "instance" in minimal_input:
        k5_case(ctx, minimal_input["class"], minimal_input["instance"], suite="findings")
    elif isinstance(minimal_input, dict) and minimal_input.get("class") in K2M and "graph" in minimal_input:
        k2m_case(ctx, copy.deepcopy(minimal_input))
    elif isinstance(minimal_input, dict) and minimal_input.get("class") in K2C and "graph" in minimal_input:
        k2c_case(ctx, copy.deepcopy(minimal_input))


def replay(ctx, payload):
    inp = payload.get("input") or (payload.get("disagreements") or [{}])[0].get("input") or {}
    if "class" in inp and "instance" in inp:
        print(k5_case(ctx, inp["class"], inp["instance"], suite="replay"))
    elif "case" in inp and inp["case"].get("class") in K2M:
        k2m_case(ctx, inp["case"])
    elif "case" in inp and inp["case"].get("class") in K2C:
        k2c_case(ctx, inp["case"])
    elif "case" in inp:
        k2_case(ctx, inp["case"])
    elif inp.get("class") in K2M and "graph" in inp:
        k2m_case(ctx, inp)
    elif inp.get("class") in K2C and "graph" in inp:
        k2c_case(ctx, inp)
    elif "graph" in inp and "k" in inp:
        k2_case(ctx, inp)
    elif "graph" in inp:
        cfg = inp["graph"]
        X = k1_expand(ctx, cfg, inp.get("starts", ()), inp.get("ends", ()))
        if X is not None and "cyclic" in cfg:
            k1_condense_graph(ctx, cfg, X)
    else:
        print("nothing to replay")
