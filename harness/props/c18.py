"""C18 — a model's result depends only on its own arguments; caller data is never mutated.

Technique K4 (translator): `pre_build` regenerates lean/FP/Model/Generated/Aliasing.lean from the AST of
/repo/flowpaths/*.py (how every mutable argument is stored, every write through a reference that may be the
caller's object or a shared default object, getter shapes); FP/Props/C18.lean is re-checked by the kernel against
the regenerated table. Observation (property oracle and translator validation at once): deep snapshots of every
argument object and of every `__defaults__` tuple before / after construct, solve(), getters, for every class and
several argument configurations; random histories of constructions sharing argument objects against the same
models built from fresh copies; repeated solve() / get_solution() / get_objective_value().
"""
import copy, inspect, random
import networkx as nx
import extract
from fpv import common, k4inputs as K

THEOREMS = ["FP.Props.C18." + t for t in
            ["no_write_through_alias", "no_mutable_default_written", "no_inner_default_written", "internal_alias_writes",
             "cleanClasses_isClean", "store_unchanged", "history_independent", "dirty_confined", "getters_fallsOff_known",
             "getters_idempotent"]] + \
           ["FP.Store." + t for t in ["run_frame", "store_unchanged", "result_history_independent", "getter_idempotent",
                                      "getter_stable_after_first", "getter_first_call_none"]]
IMPORTS = ["FP.Props.C18"]
RULE = ("per class: argument configurations plain (non-empty option dicts) / empty option dicts / constraints+ignore+starts/ends / "
        "error scaling / given weights / node mode / omitted arguments (mutable defaults); every mutable argument and every "
        "__defaults__ tuple snapshotted before and compared after construct, solve(), get_solution(), get_objective_value(). "
        "Histories: random sequences of 2-4 constructions+solves of classes of one family sharing graph, option dicts, constraint "
        "and ignore lists vs the same steps on fresh deep copies. Non-trivial: distinct (class, configuration) or distinct history.")
MODEL_SCOPE = ("modelled (read off the AST): storage kind of every mutable constructor argument, writes through live aliases of "
               "caller objects / default objects / NodeExpandedDiGraph's ignore list in all methods reachable from __init__, solve, "
               "the getters, following super().__init__, self.method(), graph-class constructors and inner model constructions; "
               "getter shape (falls off the end, caches). Not modelled: what is written (arbitrary `eff` in FP.Model.Store), writes "
               "performed inside networkx / highspy, aliasing through containers (a list stored inside a dict).")
TRUSTED = ["copy.deepcopy and == on dicts / lists / networkx attribute dumps detect every change a caller could see"]
ASSUMPTIONS = ["the solver's answer for identical models is compared only through solved status, objective value and number of routes"]

OUT_PARAMS = {"solve_statistics"}          # documented output parameter
NONEMPTY_OPTS = {"optimize_with_greedy": False}
# never `threads`: HiGHS keeps one process-wide scheduler, see threads_history_case
SOLVER_OPTS = {"time_limit": 300}


def report(ctx, what, inp, site=""):
    """the engine keeps at most 50 violations: pass on one per (site, listed finding) and up to three unlisted ones per
    site, so that no site is crowded out"""
    from fpv.engine import matches_known as _mk
    from fpv.common import load_known as _lk
    v = {"what": what, "input": inp, "site": site}
    f = _mk(ctx.pid, v, _lk())
    key = (site, f["id"] if f else None)
    seen = ctx.__dict__.setdefault("_per_site", {})
    seen[key] = seen.get(key, 0) + 1
    if seen[key] <= (1 if f else 3):
        ctx.violation(what, inp, site=site)


def pre_build(ctx):
    res, changed = extract.regenerate(common.REPO, which=("aliasing", "guards"))
    ctx.k4 = res
    if changed:
        print(f"[{ctx.pid}] translator: regenerated {', '.join(changed)} from {common.REPO}")


def table(ctx):
    if not hasattr(ctx, "k4"):
        ctx.k4 = extract.extract(common.REPO)
    return {c["cls"]: c for c in ctx.k4["aliasing"]}


# ----------------------------------------------------------------------------------------- test subclasses

def abstract_subclasses(fp):
    class DagT(fp.AbstractPathModelDAG):
        def get_solution(self):
            return {"paths": self.get_solution_paths()}

        def get_lowerbound_k(self):
            return 1

        def is_valid_solution(self):
            return True

        def get_objective_value(self):
            return 0

    class WalkT(fp.AbstractWalkModelDiGraph):
        def get_solution(self):
            return {"walks": self.get_solution_walks()}

        def get_lowerbound_k(self):
            return 1

        def is_valid_solution(self):
            return True

        def get_objective_value(self):
            return 0
    return DagT, WalkT


# ----------------------------------------------------------------------------------------- configurations

EXTRA_KEYS = {"MinFlowDecomp": ["use_subgraph_scanning_lowerbound", "use_subgraph_scanning_weights_in_given_weights_optimization",
                                "add_min_gen_set_to_given_weights", "min_gen_set_remove_sums_of_two", "allow_empty_paths"],
              "MinFlowDecompCycles": ["add_min_gen_set_to_given_weights", "min_gen_set_remove_sums_of_two", "allow_empty_walks"]}


def option_keys(cls):
    from props import c05
    try:
        keys = list(c05.flags_of(cls))
    except Exception:
        keys = []
    return keys + EXTRA_KEYS.get(cls, [])


def configs(fp, cls):
    """[(name, builder)]; builder() -> (callable constructing the object, kwargs) with fresh argument objects"""
    out = []
    if cls in K.GRAPH_MODELS:
        sig = K.signature(fp, cls)
        ck = K.constraint_key(cls)

        def mk(name, fn, node=False):
            def b():
                kw = K.base_kwargs(fp, cls, node_mode=node)
                fn(kw)
                return (lambda: K.build(fp, cls, kw)), {k: v for k, v in kw.items() if k in sig}
            out.append((name, b))

        def opts(kw, o=None):
            if "optimization_options" in sig:
                kw["optimization_options"] = dict(NONEMPTY_OPTS) if o is None else o
            kw["solver_options"] = dict(SOLVER_OPTS)
        mk("plain", lambda kw: opts(kw))
        # a finite time limit (generous): between the first and the second solve() the clock is moved on by more than the
        # limit (idempotence below), so a budget that is kept on the object instead of per call shows
        mk("finite_time_limit", lambda kw: (opts(kw), kw.update(solver_options=dict(SOLVER_OPTS, time_limit=600))))
        mk("empty_options", lambda kw: (opts(kw, {}), kw.update(solver_options={})))

        def cons(kw):
            opts(kw)
            if ck in sig:
                kw[ck] = [[("a", "b")]] if K.is_cyc(cls) else [[("s", "a"), ("a", "t")]]
            kw["elements_to_ignore"] = [("s", "b")] if not K.is_cyc(cls) else []
            if "additional_starts" in sig and cls not in ("MinFlowDecomp", "MinFlowDecompCycles"):
                kw["additional_starts"] = ["a"]
                kw["additional_ends"] = ["b"]
        mk("constraints", cons)

        def cons_repeated(kw):
            # a constraint that names an edge twice (a walk through a cycle written as an edge list; a duplicated entry)
            cons(kw)
            if ck in sig:
                kw[ck] = [[("a", "b"), ("b", "a"), ("a", "b")]] if K.is_cyc(cls) else [[("s", "a"), ("s", "a"), ("a", "t")]]
        mk("constraints_repeated_edge", cons_repeated)
        if "error_scaling" in sig:
            mk("scaling", lambda kw: (opts(kw), kw.update(error_scaling={("a", "b"): 0.5})))
            # a factor 0 makes the class ignore the edge: the ignore list (the caller's, or the shared default) is in play
            mk("scaling_zero", lambda kw: (opts(kw), kw.update(error_scaling={("a", "b"): 0})))
            mk("scaling_zero_ignore", lambda kw: (opts(kw), kw.update(error_scaling={("a", "b"): 0},
                                                                         elements_to_ignore=[("s", "b")] if not K.is_cyc(cls) else [("s", "a")])))
        if "optimization_options" in sig:
            # one configuration per option key the class documents / reads: each switches on code that handles the caller's
            # objects (option dicts handed on to inner models, lower-bound helpers, safety data)
            for flag in option_keys(cls):
                mk("flag:" + flag, lambda kw, flag=flag: opts(kw, {flag: True}))
        if "solution_weights_superset" in sig:
            mk("given_weights", lambda kw: (opts(kw), kw.update(solution_weights_superset=[3, 2, 3, 1, 11])))
            mk("given_weights_constraints", lambda kw: (cons(kw), kw.update(solution_weights_superset=[3, 2, 3, 1, 11])))
        if "path_length_ranges" in sig:
            mk("length_ranges", lambda kw: (opts(kw), kw.update(path_length_ranges=[[0, 100]], path_length_factors=[1])))
        if "trusted_edges_for_safety" in sig:
            mk("trusted_edges", lambda kw: (opts(kw), kw.update(trusted_edges_for_safety=[("s", "a")])))
            # ... as a set (the type the classes use internally), together with what the constructors combine it with:
            # constraints whose edges are trusted as well, ignored / scale-0 edges that are removed from the trusted ones
            def trusted_set(kw):
                cons(kw)
                kw["elements_to_ignore"] = [("s", "a")]
                kw["trusted_edges_for_safety"] = {("s", "a"), ("b", "t")}
                if "error_scaling" in sig:
                    kw["error_scaling"] = {("b", "t"): 0}
            mk("trusted_edges_set", trusted_set)

        def node(kw):
            opts(kw)
            kw["elements_to_ignore"] = ["a"] if cls not in K.FLOW_DECOMP else []
            if "additional_starts" in sig:
                kw["additional_starts"] = ["a"]
                kw["additional_ends"] = ["b"]
        mk("node", node, node=True)
        # an input the class rejects (a node that is not a string): the caller's objects must be as before after the ValueError
        mk("rejected_node_name", lambda kw: (opts(kw), kw.__setitem__("G", nx.relabel_nodes(kw["G"], {"a": 1}))), node=True)
        mk("rejected_node_name_edge_mode", lambda kw: (opts(kw), kw.__setitem__("G", nx.relabel_nodes(kw["G"], {"a": 1}))))
        mk("defaults", lambda kw: None)
        mk("defaults_node", lambda kw: None, node=True)
    elif cls == "MinGenSet":
        def b1():
            kw = {"numbers": [2, 3, 5], "total": 5, "weight_type": int, "partition_constraints": [[2, 3]], "solver_options": dict(SOLVER_OPTS)}
            return (lambda: fp.MinGenSet(**kw)), kw
        out.append(("plain", b1))
        out.append(("defaults", lambda: ((lambda kw=K.base_kwargs(fp, cls): fp.MinGenSet(**kw)), {})))
    elif cls == "MinSetCover":
        def b2():
            kw = K.base_kwargs(fp, cls)
            kw["solver_options"] = dict(SOLVER_OPTS)
            return (lambda: fp.MinSetCover(**kw)), kw
        out.append(("plain", b2))
        out.append(("defaults", lambda: ((lambda kw=K.base_kwargs(fp, cls): fp.MinSetCover(**kw)), {})))
    elif cls == "NumPathsOptimization":
        for inner in ("kMinPathError", "kLeastAbsErrors", "kFlowDecomp"):
            def b3(inner=inner):
                kw = K.base_kwargs(fp, cls)
                kw["model_type"] = getattr(fp, inner)
                kw["optimization_options"] = dict(NONEMPTY_OPTS)
                kw["solver_options"] = dict(SOLVER_OPTS)
                return (lambda: fp.NumPathsOptimization(**kw)), {k: v for k, v in kw.items() if k != "model_type"}
            out.append((f"plain:{inner}", b3))
    elif cls in ("stDAG", "stDiGraph", "AbstractSourceSinkGraph"):
        def b4():
            G = K.base_graph("kFlowDecompCycles" if cls == "stDiGraph" else "kFlowDecomp")
            kw = {"base_graph": G, "additional_starts": ["a"], "additional_ends": ["b"]}
            c = getattr(fp, cls if cls != "AbstractSourceSinkGraph" else "stDAG")
            return (lambda: c(**kw)), kw
        out.append(("plain", b4))
    elif cls == "NodeExpandedDiGraph":
        def b5():
            kw = {"G": K.base_graph("kFlowDecomp", node_mode=True), "node_flow_attr": "flow", "additional_starts": ["a"],
                  "additional_ends": ["b"], "try_filling_in_missing_flow_attr": True}
            return (lambda: fp.NodeExpandedDiGraph(**kw)), kw
        out.append(("plain", b5))
        out.append(("defaults", lambda: ((lambda G=K.base_graph("kFlowDecomp", node_mode=True): fp.NodeExpandedDiGraph(G, "flow")), {})))
    elif cls == "AbstractPathModelDAG":
        DagT, _ = abstract_subclasses(fp)

        def b6(passed):
            G = fp.stDAG(K.base_graph("kFlowDecomp"))
            kw = {"G": G, "k": 2, "optimization_options": {"trusted_edges_for_safety": set(G.edges())}}
            if passed:
                kw.update(subpath_constraints=[[("s", "a")]], solver_options=dict(SOLVER_OPTS), solve_statistics={})

            def run():
                m = DagT(**kw)
                m.create_solver_and_paths()
                return m
            return run, {k: v for k, v in kw.items() if k != "G"}
        out.append(("passed", lambda: b6(True)))
        out.append(("defaults", lambda: b6(False)))
    elif cls == "AbstractWalkModelDiGraph":
        _, WalkT = abstract_subclasses(fp)

        def b7(passed):
            G = fp.stDiGraph(K.base_graph("kFlowDecompCycles"))
            kw = {"G": G, "k": 2, "optimization_options": {"trusted_edges_for_safety": set(G.edges())}}
            if passed:
                kw.update(max_edge_repetition_dict={e: 3 for e in G.edges()}, subset_constraints=[[("a", "b")]],
                          solver_options=dict(SOLVER_OPTS), solve_statistics={})
            else:
                kw.update(max_edge_repetition=3)

            def run():
                m = WalkT(**kw)
                m.create_solver_and_walks()
                return m
            return run, {k: v for k, v in kw.items() if k != "G"}
        out.append(("passed", lambda: b7(True)))
        out.append(("defaults", lambda: b7(False)))
    return out


def is_mutable(x):
    return isinstance(x, (dict, list, set, nx.Graph))


def defaults_state(fp):
    """every default object of every __init__ / public method of the package's classes"""
    out = {}
    for cname in extract.ALL:
        c = getattr(fp, cname, None)
        if c is None:
            continue
        for fname, f in vars(c).items():
            if not inspect.isfunction(f):
                continue
            try:
                ps = inspect.signature(f).parameters
            except (TypeError, ValueError):
                continue
            for p in ps.values():
                if p.default is not inspect.Parameter.empty and is_mutable(p.default):
                    out[(cname, fname, p.name)] = p.default
    return out


# ----------------------------------------------------------------------------------------- observation

class ClassObs:
    def __init__(self):
        self.mutated = {}       # param -> set(keys)
        self.defaults_mutated = set()
        self.passed_nonempty = set()
        self.first_none = False
        self.computed = False


def predicted_rows(tab, cls, cfg_name=""):
    """caller-visible write rows that apply to a use of `cls` (NumPathsOptimization: the rows of its model_type)"""
    rows = [w for w in tab[cls]["writes"] if w["viaCaller"]]
    if cls == "NumPathsOptimization" and ":" in cfg_name:
        inner = cfg_name.split(":", 1)[1]
        rows = rows + [w for w in tab[inner]["writes"] if w["viaCaller"]]
    return rows


def observe_config(ctx, cls, name, builder, obs, suite="C18.mutation"):
    fp = ctx.fp
    tab = table(ctx)
    ctor, tracked = builder()
    tracked = {p: o for p, o in tracked.items() if is_mutable(o)}
    snaps = {p: K.snapshot(o) for p, o in tracked.items()}
    dstate = defaults_state(fp)
    dsnaps = {k: K.snapshot(v) for k, v in dstate.items()}
    for p, o in tracked.items():
        if (len(o) > 0 if not isinstance(o, nx.Graph) else True):
            obs.passed_nonempty.add(p)
    inp = {"cls": cls, "config": name}
    reported = set()
    rows = predicted_rows(tab, cls, name)
    pred_params = {w["param"] for w in rows}

    def check(stage):
        for p, o in tracked.items():
            d = K.differs(o, snaps[p])
            if d and (p, "arg") not in reported:
                reported.add((p, "arg"))
                keys = set(K.changed_keys(o, snaps[p]))
                obs.mutated.setdefault(p, set()).update(keys)
                if p in OUT_PARAMS:
                    continue
                report(ctx, f"{cls} ({name}): the caller's `{p}` object was modified during {stage}: {d}",
                              dict(inp, param=p, stage=stage), site=f"{cls}.__init__:{p}")
                # translator validation: the table must predict this write
                if p not in pred_params:
                    ctx.disagree("K4.aliasing", dict(inp, param=p), {"mutated": d}, {"predicted_writes": sorted(pred_params)},
                                 note="mutation of a caller object that the aliasing table does not predict")
                else:
                    pk = {extract.key_leaf(w["key"]) for w in rows if w["param"] == p}
                    if "*" not in pk and not any(k.startswith(".") for k in pk) and "*" not in keys and not keys <= pk:
                        ctx.disagree("K4.aliasing", dict(inp, param=p), {"changed_keys": sorted(keys)}, {"predicted_keys": sorted(pk)},
                                     note="keys written that the table does not list")
        for k, v in dstate.items():
            d = K.differs(v, dsnaps[k])
            if d and (k, "default") not in reported:
                reported.add((k, "default"))
                obs.defaults_mutated.add(k)
                report(ctx, f"{cls} ({name}): the shared default object of `{k[0]}.{k[1]}({k[2]}=...)` was modified during {stage}: {d}",
                              dict(inp, default=list(k), stage=stage), site=f"{k[0]}.{k[1]}:default:{k[2]}")
                rowd = [x for x in tab.get(k[0], {}).get("defaults", []) if x["func"] == k[1] and x["param"] == k[2] and x["written"]]
                inner = [w for c in tab.values() for w in c["writes"] if w["viaDefault"] and w["owner"] == f"{k[0]}.{k[1]}" and w["param"] == k[2]]
                if not rowd and not inner:
                    ctx.disagree("K4.aliasing", dict(inp, default=list(k)), {"mutated": d}, {"predicted": "default not written"},
                                 note="mutation of a default object that the table does not predict")
                # undo, so that later configurations start from the documented default
                try:
                    v.clear()
                except Exception:
                    pass

    stage = "construction"
    m = None
    err = None
    try:
        m = ctor()
        check(stage)
        if hasattr(m, "solve"):
            stage = "solve()"
            m.solve()
            check(stage)
            stage = "getters"
            try:
                solved = m.is_solved()
            except Exception:
                solved = False
            if solved:
                m.get_solution()
                if hasattr(m, "get_objective_value"):
                    m.get_objective_value()
                if hasattr(m, "is_valid_solution") and cls in K.GRAPH_MODELS:
                    try:
                        m.is_valid_solution()
                    except Exception:
                        pass
                check(stage)
    except Exception as e:
        err = f"{type(e).__name__} during {stage}: {str(e)[:100]}"
        check(stage)
    ctx.rep.count(suite, [cls, name], nontrivial=True, hist=[cls, name.split(":")[0], "error" if err else "ran"] +
                  (["mutated"] if any(r[1] == "arg" for r in reported) else []))
    ctx.rep.cov["oracle_evaluations"] += 1
    ctx.rep.cov["traces_validated_against_impl"] += 1
    return m, err


def class_tie(ctx, cls, obs, cfg_names):
    """every predicted caller-visible write / default write shows up in some configuration designed to trigger it"""
    tab = table(ctx)
    rows = []
    for n in cfg_names:
        rows += predicted_rows(tab, cls, n)
    for p in sorted({w["param"] for w in rows}):
        if p in obs.passed_nonempty and p not in obs.mutated:
            ctx.disagree("K4.aliasing", {"cls": cls, "param": p}, {"mutated": False},
                         {"predicted": sorted({w["func"] + " " + w["key"] for w in rows if w["param"] == p})[:6]},
                         note="predicted write through the caller's object never observed in any configuration")
    for d in tab[cls]["defaults"]:
        if d["written"] and (d["cls"], d["func"], d["param"]) not in obs.defaults_mutated:
            ctx.disagree("K4.aliasing", {"cls": cls, "default": [d["func"], d["param"]]}, {"mutated": False}, {"predicted": "written"},
                         note="predicted write into a default object never observed")
    if ctx.driver is not None:
        ans = ctx.driver.call({"op": "k4.alias", "cls": cls})
        mine = sorted({w["param"] for w in tab[cls]["writes"] if w["viaCaller"]})
        if sorted(ans["written"]) != mine or ans["fallsOff"] != tab[cls]["getter"]["fallsOff"]:
            ctx.disagree("K4.tables", {"cls": cls}, {"python_table": mine}, {"lean_table": sorted(ans["written"])},
                         note="generated Lean table and the extractor's dict differ")


# ----------------------------------------------------------------------------------------- getters

def idempotence(ctx, cls, name, builder, obs):
    fp = ctx.fp
    c = getattr(fp, cls, None)
    inp = {"cls": cls, "config": name}
    calls = []
    orig = None
    if c is not None and "get_solution" in vars(c):
        orig = vars(c)["get_solution"]

        def wrapped(self, *a, **k):
            r = orig(self, *a, **k)
            calls.append((id(self), r is None))
            return r
        setattr(c, "get_solution", wrapped)
    try:
        ctor, _ = builder()
        try:
            m = ctor()
            if not hasattr(m, "solve"):
                return
            s1 = m.solve()
        except Exception:
            return
        ctx.rep.count("C18.idempotence", [cls, name], nontrivial=True, hist=[cls])
        ctx.rep.cov["oracle_evaluations"] += 1
        try:
            if not m.is_solved():
                return
        except Exception:
            return                  # reported under C19 (is_solved() raising)
        g1 = K.comparable(m.get_solution())
        g2 = K.comparable(m.get_solution())
        o1 = m.get_objective_value() if hasattr(m, "get_objective_value") else None
        o2 = m.get_objective_value() if hasattr(m, "get_objective_value") else None
        # the same getter with its optional argument in between: a trimmed view must not change what the plain call returns
        import inspect
        gsig = inspect.signature(orig if orig is not None else type(m).get_solution).parameters      # (the class getter is wrapped here)
        gp = [a for a in ("remove_empty_paths", "remove_empty_walks") if a in gsig]
        if gp and g1 is not None:
            try:
                t1 = K.comparable(m.get_solution(**{gp[0]: True}))
                g4 = K.comparable(m.get_solution())
                t2 = K.comparable(m.get_solution(**{gp[0]: True}))
                f1 = K.comparable(m.get_solution(**{gp[0]: False}))
                if g4 != g1:
                    report(ctx, f"{cls} ({name}): get_solution() differs before and after a call get_solution({gp[0]}=True): "
                                f"{str(g1)[:120]} vs {str(g4)[:120]}", inp, site=f"{cls}.get_solution:repeat")
                elif t1 != t2:
                    report(ctx, f"{cls} ({name}): two get_solution({gp[0]}=True) calls differ: {str(t1)[:120]} vs {str(t2)[:120]}",
                           inp, site=f"{cls}.get_solution:repeat")
                elif isinstance(f1, dict) and isinstance(t1, dict):
                    for key in ("paths", "walks"):
                        if key in f1 and key in t1 and len(t1[key]) > len(f1[key]):
                            report(ctx, f"{cls} ({name}): the trimmed solution has more {key} than the untrimmed one", inp,
                                   site=f"{cls}.get_solution:repeat")
            except Exception as e:
                report(ctx, f"{cls} ({name}): get_solution({gp[0]}=...) raised {type(e).__name__}: {str(e)[:100]}", inp,
                       site=f"{cls}.get_solution:repeat")
        import time as _time
        real_clock = _time.perf_counter
        if name == "finite_time_limit":
            _time.perf_counter = lambda: real_clock() + 10 ** 5       # "a day later"
        try:
            s2 = m.solve()
        finally:
            _time.perf_counter = real_clock
        g3 = K.comparable(m.get_solution())
        if g1 is None and g2 is not None:
            report(ctx, f"{cls} ({name}): get_solution() returned None on the first call and data on the second", inp,
                          site=f"{cls}.get_solution:first_call")
        elif g1 != g2:
            report(ctx, f"{cls} ({name}): two successive get_solution() calls differ: {str(g1)[:100]} vs {str(g2)[:100]}", inp,
                          site=f"{cls}.get_solution:repeat")
        if o1 != o2:
            report(ctx, f"{cls} ({name}): two successive get_objective_value() calls differ: {o1} vs {o2}", inp,
                          site=f"{cls}.get_objective_value:repeat")
        if bool(s1) != bool(s2):
            report(ctx, f"{cls} ({name}): solve() returned {s1} then {s2}", inp, site=f"{cls}.solve:repeat")
        elif g2 is not None and g3 != g2:
            report(ctx, f"{cls} ({name}): get_solution() after a second solve() differs from the one after the first: "
                        f"{str(g2)[:120]} vs {str(g3)[:120]}", inp, site=f"{cls}.solve:repeat")
        else:
            o3 = m.get_objective_value() if hasattr(m, "get_objective_value") else None
            if o3 != o2:
                report(ctx, f"{cls} ({name}): get_objective_value() is {o2} after the first solve() and {o3} after the second", inp,
                       site=f"{cls}.solve:repeat")
        mine = [isnone for (i, isnone) in calls if i == id(m)]
        if mine:
            obs.computed = True
        if mine and mine[0] and not all(mine):
            # the computing call (made inside solve() for its log line) returned None, later calls return data
            obs.first_none = True
            report(ctx, f"{cls} ({name}): the first (computing) call of get_solution() on the model returned None, the next call "
                          f"returned the solution; calls in order returned None? {mine[:5]} (the first call is made by solve() itself)",
                          inp, site=f"{cls}.get_solution:first_call")
    finally:
        if orig is not None:
            setattr(c, "get_solution", orig)


def getter_tie(ctx, cls, obs):
    g = table(ctx)[cls]["getter"]
    if not g.get("has") or not obs.computed:
        return
    if bool(g["fallsOff"]) != bool(obs.first_none):
        ctx.disagree("K4.getters", {"cls": cls}, {"first_call_none": obs.first_none}, {"fallsOff": g["fallsOff"]},
                     note="getter shape read off the AST does not match the observed first call")


# ----------------------------------------------------------------------------------------- histories

REFS = ["G", "optimization_options", "solver_options", "constraints", "elements_to_ignore"]


def pristine(family):
    cls = "kFlowDecompCycles" if family == "cyc" else "kFlowDecomp"
    return {"G": K.base_graph(cls), "optimization_options": dict(NONEMPTY_OPTS), "solver_options": dict(SOLVER_OPTS),
            "constraints": [[("a", "b")]] if family == "cyc" else [[("s", "a"), ("a", "t")]], "elements_to_ignore": []}


def step_kwargs(fp, step, pool):
    cls, feats = step["cls"], step["features"]
    sig = K.signature(fp, cls)
    kw = K.base_kwargs(fp, cls)
    kw["G"] = pool["G"]
    if "options" in feats and "optimization_options" in sig:
        kw["optimization_options"] = pool["optimization_options"]
    if "solver" in feats:
        kw["solver_options"] = pool["solver_options"]
    if "constraints" in feats and K.constraint_key(cls) in sig:
        kw[K.constraint_key(cls)] = pool["constraints"]
    if "ignore" in feats and "elements_to_ignore" in sig:
        kw["elements_to_ignore"] = pool["elements_to_ignore"]
    if "given_weights" in feats and "solution_weights_superset" in sig:
        kw["solution_weights_superset"] = [1, 2, 3, 5]
    if "k" in kw:
        kw["k"] += step.get("dk", 0)
    return kw


def step_bindings(fp, step):
    """[param, ref index] of the shared objects the step hands to the class"""
    cls, feats = step["cls"], step["features"]
    sig = K.signature(fp, cls)
    b = [["G", 0]]
    if "options" in feats and "optimization_options" in sig:
        b.append(["optimization_options", 1])
    if "solver" in feats:
        b.append(["solver_options", 2])
    if "constraints" in feats and K.constraint_key(cls) in sig:
        b.append([K.constraint_key(cls), 3])
    if "ignore" in feats and "elements_to_ignore" in sig:
        b.append(["elements_to_ignore", 4])
    return b


def rescale(G, factor):
    """the caller edits the graph it owns between two models: every flow value multiplied by `factor`"""
    for u, v, d in G.edges(data=True):
        if "flow" in d:
            d["flow"] = d["flow"] * factor
    for v, d in G.nodes(data=True):
        if "flow" in d:
            d["flow"] = d["flow"] * factor


REWIRE = {"dag": ([("s", "a", 5), ("s", "b", 3), ("a", "b", 2), ("a", "t", 3), ("b", "t", 5)],     # the base input
                  [("s", "a", 3), ("s", "b", 3), ("s", "t", 2), ("a", "t", 3), ("b", "t", 3)]),    # (a,b) replaced by (s,t)
          "cyc": ([("s", "a", 3), ("a", "b", 6), ("b", "a", 3), ("b", "t", 3)],                    # the base shape (width 1; one walk s a b a b t)
                  [("s", "a", 5), ("a", "b", 3), ("a", "t", 2), ("b", "t", 3)])}                   # (b,a) replaced by (a,t): width 2


def rewire(G, family, scale=1):
    """the caller edits the STRUCTURE of the graph it owns between two models: one edge is replaced by another one (same
    nodes, same number of nodes and edges, a conserving flow again) - toggles between the two shapes of REWIRE"""
    a, b = REWIRE[family]
    only_a = [e[:2] for e in a if e[:2] not in [x[:2] for x in b]]
    target = b if G.has_edge(*only_a[0]) else a
    for (u, v) in list(G.edges()):
        if (u, v) not in [e[:2] for e in target]:
            G.remove_edge(u, v)
    for (u, v, f) in target:
        if not G.has_edge(u, v):
            G.add_edge(u, v, length=1)
        G[u][v]["flow"] = f * scale


def apply_edits(G, family, steps):
    """replays the caller's in-place edits of the steps given (rewire before rescale within a step)"""
    scale = 1
    for st in steps:
        if st.get("rewire"):
            rewire(G, family, scale)
        if st.get("rescale"):
            rescale(G, st["rescale"]); scale *= st["rescale"]


def explains_flow(G, sol):
    """do the returned routes and weights add up to the flow values the graph has NOW (edge-weighted input)?"""
    key = "paths" if "paths" in sol else "walks"
    got = {}
    for r, w in zip(sol[key], sol["weights"]):
        for e in zip(r[:-1], r[1:]):
            got[e] = got.get(e, 0) + w
    return all(abs(got.get((u, v), 0) - d["flow"]) <= 1e-6 for u, v, d in G.edges(data=True) if "flow" in d)


def run_step(fp, step, pool):
    try:
        kw = step_kwargs(fp, step, pool)
        m = K.build(fp, step["cls"], kw)
        m.solve()
        out = K.result_summary(step["cls"], m)
        if step["cls"] in K.FLOW_DECOMP and out.get("solved") is True and not kw.get("elements_to_ignore") \
                and kw.get("flow_attr_origin", "edge") == "edge":
            sol = m.get_solution()
            if isinstance(sol, dict) and "weights" in sol:
                out["explains_current_flow"] = explains_flow(kw["G"], sol)
        return out
    except Exception as e:
        return {"error": type(e).__name__}


def random_history(rng, family):
    classes = K.CYC if family == "cyc" else K.DAG
    steps = []
    for _ in range(rng.randint(2, 4)):
        cls = rng.choice(classes)
        feats = [f for f in ("options", "solver", "constraints", "ignore") if rng.random() < 0.6]
        if rng.random() < 0.35:
            feats.append("given_weights")
        st = {"cls": cls, "features": feats, "dk": rng.choice([0, 0, 1, 2])}
        if steps and rng.random() < 0.3:
            st["rescale"] = rng.choice([2, 3])          # the shared graph object is edited in place before this step
        if rng.random() < 0.25:
            st["rewire"] = True                         # ... or rewired in place (same size, another shape)
        steps.append(st)
    return steps


def history_case(ctx, family, steps, suite="C18.history"):
    fp = ctx.fp
    shared = pristine(family)
    got, want = [], []
    scale = 1
    for st in steps:
        if st.get("rewire"):
            rewire(shared["G"], family, scale)
        if st.get("rescale"):
            rescale(shared["G"], st["rescale"]); scale *= st["rescale"]
        got.append(run_step(fp, st, shared))
    for i, st in enumerate(steps):
        fresh = pristine(family)
        apply_edits(fresh["G"], family, steps[:i + 1])   # a fresh graph object with the shape and values the shared one has at this step
        want.append(run_step(fp, st, fresh))
    inp = {"family": family, "history": steps}
    diff = [i for i, (a, b) in enumerate(zip(got, want)) if a != b]
    ctx.rep.count(suite, inp, nontrivial=True, hist=[family, f"len={len(steps)}"] + (["differs"] if diff else []))
    ctx.rep.cov["oracle_evaluations"] += 1
    may = None
    if ctx.driver is not None:
        hist = [{"cls": st["cls"], "args": step_bindings(fp, st)} for st in steps]
        may = ctx.driver.call({"op": "k4.mayWrite", "history": hist, "refs": len(REFS)})
        ctx.rep.cov["traces_validated_against_impl"] += 1
    if diff:
        i = diff[0]
        report(ctx, f"history {[s['cls'] + str(s['features']) for s in steps]}: step {i} ({steps[i]['cls']}) gives {got[i]} after the "
                      f"earlier steps on shared argument objects but {want[i]} on fresh copies of the same arguments", inp, site="history")
        if may is not None and not may:
            ctx.disagree("K4.aliasing.history", inp, {"step": i, "shared": got[i], "fresh": want[i]}, {"mayWrite": may},
                         note="the table says no shared object can change, yet the results depend on the history")
    # the shared objects themselves against the table's may-write set
    if may is not None:
        fresh = pristine(family)
        apply_edits(fresh["G"], family, steps)
        changed = [j for j, r in enumerate(REFS) if K.differs(shared[r], K.snapshot(fresh[r]))]
        if not set(changed) <= set(may):
            ctx.disagree("K4.aliasing.history", inp, {"changed_refs": [REFS[j] for j in changed]},
                         {"mayWrite": [REFS[j] for j in may]}, note="a shared object changed that the store model says cannot change")
    return diff


THREADS_SNIPPET = r"""
import sys, json, warnings, logging
sys.path.insert(0, sys.argv[1]); warnings.filterwarnings("ignore"); logging.disable(logging.CRITICAL)
import networkx as nx, flowpaths as fp
def g():
    G = nx.DiGraph()
    for u, v, f in [("s","a",5),("s","b",3),("a","b",2),("a","t",3),("b","t",5)]: G.add_edge(u, v, flow=f)
    return G
def model(threads):
    m = fp.kFlowDecomp(g(), "flow", k=3, weight_type=int, optimization_options={"optimize_with_greedy": False},
                       solver_options={"threads": threads})
    m.solve(); return m.is_solved()
first = [int(x) for x in sys.argv[2].split(",")]
print(json.dumps([model(t) for t in first]))
"""


def threads_history_case(ctx, suite="C18.history"):
    """each model gets its own solver_options dict; only the *values* differ. Run in fresh interpreters because the state
    involved (the HiGHS task scheduler) is process-wide."""
    import subprocess, sys, json as _json
    def run(seq):
        p = subprocess.run([sys.executable, "-c", THREADS_SNIPPET, str(common.REPO), ",".join(map(str, seq))],
                           capture_output=True, text=True, timeout=300)
        try:
            return _json.loads(p.stdout.strip().splitlines()[-1])
        except Exception:
            return {"error": (p.stderr or p.stdout)[-300:]}
    alone = run([2])
    after = run([4, 2])
    inp = {"history": [{"cls": "kFlowDecomp", "solver_options": {"threads": 4}}, {"cls": "kFlowDecomp", "solver_options": {"threads": 2}}],
           "family": "threads"}
    ctx.rep.count(suite, inp, nontrivial=True, hist=["threads"])
    ctx.rep.cov["oracle_evaluations"] += 1
    if isinstance(alone, list) and isinstance(after, list) and alone[-1] != after[-1]:
        report(ctx, f"kFlowDecomp(solver_options={{'threads': 2}}) is solved={alone[-1]} when it is the first model of the process but "
                      f"solved={after[-1]} after another model was solved with threads=4 (separate, fresh argument objects)", inp,
                      site="history:threads")


PROCESS_SNIPPET = r"""
import sys, json, warnings, logging
sys.path.insert(0, sys.argv[1]); sys.path.insert(0, sys.argv[2]); warnings.filterwarnings("ignore"); logging.disable(logging.CRITICAL)
import flowpaths as fp
from fpv import k4inputs as K
out = []
for st in json.loads(sys.argv[3]):
    try:
        kw = K.base_kwargs(fp, st["cls"], node_mode=bool(st.get("node")))   # fresh argument objects for every step
        if st.get("ignore") is not None and "elements_to_ignore" in K.signature(fp, st["cls"]):
            kw["elements_to_ignore"] = list(st["ignore"])
        if st.get("drop_node_flow"):
            kw["G"].nodes[st["drop_node_flow"]].pop("flow", None)
        sig = K.signature(fp, st["cls"])
        if "optimization_options" in sig:
            kw["optimization_options"] = dict(st["opts"])
        if st.get("constraints") and K.constraint_key(st["cls"]) in sig:
            kw[K.constraint_key(st["cls"])] = [[tuple(e) for e in c] for c in st["constraints"]]
        if "k" in kw:
            kw["k"] += st.get("dk", 0)
        m = K.build(fp, st["cls"], kw)
        m.solve()
        out.append(K.result_summary(st["cls"], m))
    except Exception as e:
        out.append({"error": type(e).__name__ + ": " + str(e)[:80]})
print(json.dumps(out, default=str))
"""

PROCESS_OPTS = [{"optimize_with_greedy": False},
                {"optimize_with_greedy": False, "optimize_with_safety_as_subpath_constraints": True},
                {"optimize_with_greedy": False, "optimize_with_flow_safe_paths": False, "optimize_with_safe_paths": True,
                 "optimize_with_safety_as_subpath_constraints": True},
                {}]


def process_state_case(ctx, rng, suite="C18.process_state", node_variant=None):
    """every step gets fresh argument objects, so only state kept in the process (module-level caches, class attributes, solver
    globals) can connect the steps: the last step run alone in a fresh interpreter must give what it gives after the others"""
    import subprocess, sys, json as _json
    fam = rng.choice(["dag", "dag", "cyc"]) if node_variant in (None, True) else "dag"
    classes = [c for c in (K.CYC if fam == "cyc" else K.DAG)]
    steps = []
    for _ in range(rng.randint(2, 3)):
        cls = rng.choice(classes)
        st = {"cls": cls, "opts": dict(rng.choice(PROCESS_OPTS)), "dk": rng.choice([0, 0, 1])}
        if rng.random() < 0.5:
            st["constraints"] = [[["a", "b"]]] if fam == "cyc" else [[["s", "a"], ["a", "b"]]]
        steps.append(st)
    if fam == "dag" and (rng.random() < 0.6 or node_variant == "cache"):   # the flow-decomposition pair that shares the most machinery
        steps[0]["cls"] = "kFlowDecomp"; steps[-1]["cls"] = rng.choice(["kFlowDecomp", "MinFlowDecomp"])
        steps[0]["constraints"] = [[["s", "a"], ["a", "b"]]]
        steps[-1]["opts"] = dict(PROCESS_OPTS[1]); steps[-1].pop("constraints", None)
        if node_variant == "cache":              # directed: two steps, the k of the base input, the safety lists as constraints twice
            steps = [dict(steps[0], dk=0, opts=dict(PROCESS_OPTS[1])), dict(steps[-1], dk=0, cls="kFlowDecomp")]

    def run(seq):
        p = subprocess.run([sys.executable, "-c", PROCESS_SNIPPET, str(common.REPO), str(common.VERIF / "harness"), _json.dumps(seq)],
                           capture_output=True, text=True, timeout=600)
        try:
            return _json.loads(p.stdout.strip().splitlines()[-1])
        except Exception:
            return None
    if (rng.random() < 0.35) if node_variant is None else (node_variant != "cache" and node_variant):
        # node-weighted steps: an earlier model ignores a node / meets a node without value, the last one needs that node
        ncls = [c for c in classes if c not in K.COVER] or classes
        v = "b" if fam == "cyc" else "a"
        first = {"cls": rng.choice(ncls), "opts": {}, "dk": 0, "node": True}
        if rng.random() < 0.5 and first["cls"] not in K.FLOW_DECOMP:
            first["ignore"] = [v]
        else:
            first["drop_node_flow"] = v
        steps = [first, {"cls": rng.choice(ncls), "opts": {}, "dk": 0, "node": True}]
        if node_variant == "flow" and fam == "dag":      # directed: the pairs that share the node expansion most directly
            steps = [{"cls": "MinFlowDecomp", "opts": {}, "dk": 0, "node": True, "drop_node_flow": v},
                     {"cls": "MinFlowDecomp", "opts": {}, "dk": 0, "node": True}]
        elif node_variant == "ignore" and fam == "dag":
            steps = [{"cls": "kLeastAbsErrors", "opts": {}, "dk": 0, "node": True, "ignore": [v]},
                     {"cls": "kLeastAbsErrors", "opts": {}, "dk": 0, "node": True}]
    after, alone = run(steps), run(steps[-1:])
    inp = {"family": "process", "history": steps}
    ctx.rep.count(suite, inp, nontrivial=True, hist=[fam, f"len={len(steps)}"])
    ctx.rep.cov["oracle_evaluations"] += 1
    if after is None or alone is None:
        raise common.Infra("process-state history: the helper interpreter produced no result")
    if after[-1] != alone[-1]:
        report(ctx, f"{steps[-1]['cls']}(optimization_options={steps[-1]['opts']}) gives {alone[-1]} as the first model of a process but "
                    f"{after[-1]} after {[s['cls'] for s in steps[:-1]]} were built and solved with their own, fresh argument objects", inp,
               site="history:process_state")


# ----------------------------------------------------------------------------------------- entry points

CLASSES = K.ALL_MODELS + ["NodeExpandedDiGraph", "stDAG", "stDiGraph", "AbstractPathModelDAG", "AbstractWalkModelDiGraph"]


def observe_all(ctx, with_idempotence=True):
    fp = ctx.fp
    for cls in CLASSES:
        obs = ClassObs()
        cfgs = configs(fp, cls)
        for name, b in cfgs:
            observe_config(ctx, cls, name, b, obs)
        if with_idempotence and cls in K.ALL_MODELS:
            for name, b in cfgs:
                if name.split(":")[0] in ("plain", "given_weights", "node", "defaults", "finite_time_limit"):
                    idempotence(ctx, cls, name, b, obs)
            getter_tie(ctx, cls, obs)
        class_tie(ctx, cls, obs, [n for n, _ in cfgs])


def run(ctx):
    observe_all(ctx)
    rng = ctx.rng
    # the history of the property's own example: one options dict through a given-weights model, then a plain k-model
    for fam, a, b in (("dag", "kLeastAbsErrors", "kLeastAbsErrors"), ("dag", "kMinPathError", "kLeastAbsErrors")):
        history_case(ctx, fam, [{"cls": a, "features": ["options", "given_weights"], "dk": 0},
                                {"cls": b, "features": ["options"], "dk": 1}])
    # the caller re-uses its graph object with new flow values (default options, i.e. the greedy route is active)
    for a, b in (("kFlowDecomp", "kFlowDecomp"), ("MinFlowDecomp", "kFlowDecomp"), ("kFlowDecomp", "MinFlowDecomp")):
        history_case(ctx, "dag", [{"cls": a, "features": [], "dk": 0}, {"cls": b, "features": [], "dk": 0, "rescale": 3}])
    history_case(ctx, "cyc", [{"cls": "kFlowDecompCycles", "features": [], "dk": 0},
                              {"cls": "MinFlowDecompCycles", "features": [], "dk": 0, "rescale": 2}])
    # the caller rewires its graph object in place (same size, smaller width afterwards): the minimum searches start from the width
    for a, b in (("MinFlowDecompCycles", "MinFlowDecompCycles"), ("kPathCoverCycles", "MinPathCoverCycles"),
                 ("kFlowDecompCycles", "MinFlowDecompCycles")):
        history_case(ctx, "cyc", [{"cls": a, "features": [], "dk": 0, "rewire": True}, {"cls": b, "features": [], "dk": 0, "rewire": True}])
    for a, b in (("MinFlowDecomp", "MinFlowDecomp"), ("kPathCover", "MinPathCover")):
        history_case(ctx, "dag", [{"cls": a, "features": [], "dk": 0}, {"cls": b, "features": [], "dk": 0, "rewire": True}])
    for it in range(ctx.n(40, 600)):
        fam = "cyc" if it % 2 else "dag"
        history_case(ctx, fam, random_history(rng, fam))
    threads_history_case(ctx)
    for it in range(ctx.n(6, 40)):
        process_state_case(ctx, rng, node_variant=("flow" if it == 0 else "ignore" if it == 1 else "cache" if it == 2 else None))
    ctx.rep.sample({"suite": "C18.mutation", "cls": "kLeastAbsErrors", "config": "plain",
                    "arguments": {"optimization_options": dict(NONEMPTY_OPTS), "solver_options": dict(SOLVER_OPTS)}})
    ctx.rep.sample({"suite": "C18.history", "history": [{"cls": "kLeastAbsErrors", "features": ["options", "given_weights"], "dk": 0},
                                                        {"cls": "kLeastAbsErrors", "features": ["options"], "dk": 1}]})


def finding_case(ctx, inp):
    if inp.get("family") == "threads":
        threads_history_case(ctx, suite="known-findings")
        return
    if "history" in inp:
        history_case(ctx, inp["family"], inp["history"], suite="known-findings")
        return
    cls = inp["cls"]
    for name, b in configs(ctx.fp, cls):
        if name == inp.get("config"):
            obs = ClassObs()
            observe_config(ctx, cls, name, b, obs, suite="known-findings")
            if inp.get("getter"):
                idempotence(ctx, cls, name, b, obs)


def search(ctx):
    """a proof obligation broke (a new write through an alias, a new written default): find the concrete mutation"""
    if ctx.broken_obligations:
        extract.explain_broken(ctx, "FP/Props/C18.lean")
    observe_all(ctx, with_idempotence=True)
    rng = random.Random(1818)
    for it in range(60):
        fam = "cyc" if it % 2 else "dag"
        history_case(ctx, fam, random_history(rng, fam), suite="search.history")


def replay(ctx, payload):
    inp = payload.get("input") or {}
    if "history" in inp:
        print(history_case(ctx, inp["family"], inp["history"], suite="replay"))
    elif "cls" in inp:
        finding_case(ctx, dict(inp, getter=True))
        for v in ctx.violations:
            print(v["site"], v["what"][:200])
