"""C16 — MinErrorFlow returns a closest non-negative flow on the same graph.

Proof: FP/Props/C16.lean — every satisfying assignment of the first-stage LP is a bounded non-negative flow on the
model graph with err >= |f - x| (mef_sound), read back on the user's graph for acyclic (s-t augmented) and cyclic input
(mef_user_acyclic, mef_user_cyclic); every bounded flow extends to a satisfying assignment with objective
sum scale*|f - x| (+ lambda * source outflow) (mef_complete); hence an LP optimum is a cost-minimal bounded flow
(mef_opt_transfer); the second-stage LP keeps the flow rows and literally contains the (1+eps)*opt row (mef_eps) and
forces at most nvals distinct values on the input's edges (mef_eps_values); the a-priori bound ub = w_max*|E| loses no
optimum (ub_adequate, by lowering the flow along heavy closed walks / paths between free nodes), so the LP optimum is
optimal among all flows (mef_opt_all_flows), and, read on the user's graph, at least as close as every admissible edge
function of the input (mef_closest_user_acyclic / mef_closest_user_cyclic, lambda = 0). The reference LP of the oracle has
no upper bounds.
Tie: K2 LP-dump equality of the real first- and second-stage LPs against the Lean generators (edge mode: adapter
enc/mef.py; node mode: the real node-mode LP against the Lean generator on the documented node expansion).
K5: independent oracles written against the property text on get_solution()/get_corrected_graph().
"""
import itertools, json, math, random
from fractions import Fraction
import networkx as nx
from fpv import k2, lpdump
from fpv.common import frac, qstr, Infra

THEOREMS = ["FP.Props.C16.mef_sound", "FP.Props.C16.mef_user_acyclic", "FP.Props.C16.mef_user_cyclic",
            "FP.Props.C16.mef_complete", "FP.Props.C16.mef_opt_transfer", "FP.Props.C16.ub_adequate", "FP.Props.C16.mef_opt_all_flows",
            "FP.Props.C16.mef_closest_user_acyclic", "FP.Props.C16.mef_closest_user_cyclic",
            "FP.Props.C16.mef_eps", "FP.Props.C16.mef_eps_values", "FP.Props.C16.mef_stage2_complete",
            "FP.Props.C16.exInp_optimum"]
IMPORTS = ["FP.Props.C16"]
K2_ADAPTERS = ["mef"]
RULE = ("K2: random MinErrorFlow configurations of enc/mef.py (DAGs and digraphs with cycles/self loops, ignore lists with and "
        "without the attribute, scalings incl. 0, additional starts/ends, lambda, epsilon; stage 1 and stage 2 LPs) plus node-mode "
        "LPs against the documented node expansion. K5: random digraphs with 2-7 edges (DAGs; digraphs with cycles and self "
        "loops), integer and dyadic float weights incl. zeros, edge and node mode, elements_to_ignore, error_scaling in "
        "{0,1/4,1/2,1}, additional starts/ends on acyclic and cyclic input, sparsity_lambda in {0,1/2,1}, epsilon in "
        "{None,0.1,0.25,0.5}. Non-trivial: solved instance whose observation is not already a flow (optimum > 0).")
MODEL_SCOPE = ("modelled and proven: both LPs of MinErrorFlow in edge mode on the model graph (s-t augmentation for acyclic input, "
               "the input itself otherwise); node mode is the same encoder on the node-expanded graph (tied by K2.mef_node, the "
               "expansion itself is an oracle-side re-implementation of the documented construction); the adequacy of "
               "ub = w_max*|E| is proven (and tested against a ub-free reference on every case); solver behaviour trusted")
TRUSTED = ["HiGHS returns an optimal assignment of the LP/MILP within its tolerances when it reports kOptimal",
           "the reference optimum is computed by highspy on an independently written LP (same solver library, different model)"]
ASSUMPTIONS = ["weights are non-negative; with weight_type=int the observed weights are integers",
               "an additional start may emit flow (out >= in), an additional end may absorb flow (in >= out), as documented; "
               "the check demands equality only at nodes that are neither",
               "float weights: comparisons at 1e-6 (absolute, relative to the magnitude of the data)",
               "few_flow_values_epsilon: only the (1+eps) bound and flow-ness are part of the property; the minimality of the "
               "number of distinct values is checked as documented intent on tiny integer instances"]

TOL = 1e-6
SCALES = ["0", "1/4", "1/2", "1"]


# ----------------------------------------------------------------------------------------- instances

def is_node(inst):
    return inst.get("origin", "edge") == "node"


def wint(inst):
    return inst["weight_type"] == "int"


def pynum(q, as_int):
    f = frac(q)
    return int(f) if (as_int and f.denominator == 1) else float(f)


def graph_of(inst):
    """the user's graph; integer observations are python ints when weight_type is int (floats otherwise, except
    that `ints_as_int` instances hand ints to a float-typed model)"""
    as_int = wint(inst) or inst.get("ints_as_int", False)
    G = nx.DiGraph()
    G.add_nodes_from(inst["nodes"])
    for u, v in inst["edges"]:
        G.add_edge(u, v)
    for u, v, q in inst.get("flow", []) or []:
        G[u][v]["flow"] = pynum(q, as_int)
    for v, q in inst.get("node_flow", []) or []:
        G.nodes[v]["flow"] = pynum(q, as_int)
    if inst.get("numpy_numbers"):
        # the observations as numpy scalars (what a graph built from an array or a data frame carries): int64 / float64
        import numpy as np
        conv = lambda x: np.int64(x) if isinstance(x, int) else np.float64(x)
        for u, v, d in G.edges(data=True):
            if "flow" in d:
                d["flow"] = conv(d["flow"])
        for v, d in G.nodes(data=True):
            if "flow" in d:
                d["flow"] = conv(d["flow"])
    return G


def build(fp, inst, G=None):
    G = graph_of(inst) if G is None else G
    node = is_node(inst)
    lam = frac(inst.get("lambda", "0"))
    kw = dict(G=G, flow_attr="flow", flow_attr_origin=inst.get("origin", "edge"),
              weight_type=int if wint(inst) else float,
              sparsity_lambda=int(lam) if lam.denominator == 1 else float(lam),
              elements_to_ignore=[x if node else tuple(x) for x in inst.get("ignore", [])],
              error_scaling=({x[0]: float(frac(x[1])) for x in inst.get("scaling", [])} if node else
                             {(x[0], x[1]): float(frac(x[2])) for x in inst.get("scaling", [])}),
              additional_starts=list(inst.get("starts", [])), additional_ends=list(inst.get("ends", [])))
    if inst.get("epsilon") is not None:
        kw["few_flow_values_epsilon"] = float(frac(inst["epsilon"]))
    return fp.MinErrorFlow(**kw)


def rand_graph(rng, cyclic, max_edges=7):
    """random digraph with 2..max_edges edges; `cyclic` forces at least one cycle (possibly a self loop)"""
    for _ in range(500):
        n = rng.randint(2, 6)
        names = rng.sample(["a", "b", "c", "d", "e", "f", "g", "h", "n1", "t", "s", "x.0", "7"], n)
        m = rng.randint(2, max_edges)
        pairs = [(i, j) for i in range(n) for j in range(n)]
        if not cyclic:
            pairs = [(i, j) for i, j in pairs if i < j]
        if len(pairs) < m:
            continue
        es = rng.sample(pairs, m)
        edges = [(names[i], names[j]) for i, j in es]
        G = nx.DiGraph(); G.add_nodes_from(names); G.add_edges_from(edges)
        if cyclic == nx.is_directed_acyclic_graph(G):
            continue
        nodes = list(names)
        if rng.random() < 0.85:
            touched = {x for e in edges for x in e}
            nodes = [v for v in nodes if v in touched]
        rng.shuffle(nodes)
        return nodes, edges
    return (["a", "b"], [("a", "b"), ("b", "a")]) if cyclic else (["a", "b", "c"], [("a", "b"), ("b", "c")])


def rand_values(rng, keys, integer, near_flow=None):
    vals = [0, 0, 1, 1, 2, 3, 4, 5, 7] if integer else [0, 0.5, 1, 1.5, 2.25, 3, 4, 0.75, 6.5]
    return {k: Fraction(rng.choice(vals)) for k in keys}


def conserving_edge_values(rng, nodes, edges, integer):
    """a non-negative circulation-plus-paths flow: superposition of random closed/maximal walks (conserved at every
    node with in- and out-edges), then perturbed on a few edges"""
    succ = {v: [] for v in nodes}
    for u, v in edges:
        succ[u].append(v)
    indeg = {v: 0 for v in nodes}
    for u, v in edges:
        indeg[v] += 1
    f = {e: Fraction(0) for e in edges}
    ws = [1, 2, 3] if integer else [Fraction(1, 2), 1, Fraction(3, 2)]
    for _ in range(rng.randint(1, 4)):
        starts = [v for v in nodes if indeg[v] == 0 and succ[v]] or [v for v in nodes if succ[v]]
        if not starts:
            break
        v0 = v = rng.choice(starts); w = Fraction(rng.choice(ws)); walk = []
        for _ in range(12):
            if not succ[v]:
                break
            x = rng.choice(succ[v]); walk.append((v, x)); v = x
            if indeg[v0] > 0 and v == v0:
                break
        ok = (not succ[v]) or (v == v0)
        if ok and (indeg[v0] == 0 or v == v0):
            for e in walk:
                f[e] += w
    for e in edges:
        if rng.random() < 0.3:
            f[e] = max(Fraction(0), f[e] + rng.choice([-1, 1, 2]) * (1 if integer else Fraction(1, 2)))
    return f


def gen_instance(rng, origin=None, cyclic=None, eps=None, small=False):
    origin = origin or ("node" if rng.random() < 0.3 else "edge")
    cyclic = (rng.random() < 0.45) if cyclic is None else cyclic
    nodes, edges = rand_graph(rng, cyclic, max_edges=5 if small else 7)
    integer = rng.random() < 0.55
    inst = {"nodes": nodes, "edges": [list(e) for e in edges], "origin": origin,
            "weight_type": "int" if integer else "float", "ignore": [], "scaling": [], "starts": [], "ends": [],
            "lambda": "0", "epsilon": eps, "acyclic": not cyclic}
    if not integer and rng.random() < 0.3:
        inst["ints_as_int"] = True          # python ints handed to a float-typed model
    if origin == "edge":
        if rng.random() < 0.5:
            f = conserving_edge_values(rng, nodes, edges, integer or inst.get("ints_as_int", False))
        else:
            f = rand_values(rng, edges, integer or inst.get("ints_as_int", False))
        if rng.random() < 0.08:
            f = {e: Fraction(0) for e in edges}
        keys = [tuple(e) for e in edges]
        if rng.random() < 0.35:
            inst["ignore"] = [list(e) for e in keys if rng.random() < 0.3]
        if rng.random() < 0.4:
            inst["scaling"] = [[e[0], e[1], rng.choice(SCALES)] for e in keys if rng.random() < 0.5]
        missing = {tuple(e) for e in inst["ignore"] if rng.random() < 0.35}
        inst["flow"] = [[u, v, qstr(f[(u, v)])] for (u, v) in keys if (u, v) not in missing]
    else:
        f = rand_values(rng, nodes, integer or inst.get("ints_as_int", False))
        if rng.random() < 0.08:
            f = {v: Fraction(0) for v in nodes}
        if rng.random() < 0.35:
            inst["ignore"] = [v for v in nodes if rng.random() < 0.3]
        if rng.random() < 0.4:
            inst["scaling"] = [[v, rng.choice(SCALES)] for v in nodes if rng.random() < 0.5]
        missing = {v for v in inst["ignore"] if rng.random() < 0.35}
        if rng.random() < 0.15:                       # a node without the attribute is ignored by construction
            missing |= {v for v in nodes if rng.random() < 0.3}
        inst["node_flow"] = [[v, qstr(f[v])] for v in nodes if v not in missing]
    if rng.random() < 0.4:
        inst["starts"] = [v for v in nodes if rng.random() < 0.3]
        inst["ends"] = [v for v in nodes if rng.random() < 0.3]
    if not cyclic and rng.random() < 0.35:
        inst["lambda"] = rng.choice(["1/2", "1"])
    if rng.random() < 0.06:
        inst["numpy_numbers"] = True
    return inst


# ----------------------------------------------------------------------------------------- the property, re-stated

def in_out(inst):
    ins = {v: [] for v in inst["nodes"]}; outs = {v: [] for v in inst["nodes"]}
    for u, v in inst["edges"]:
        outs[u].append((u, v)); ins[v].append((u, v))
    return ins, outs


def observed(inst):
    """key -> observed weight (Fraction) for the elements that carry the attribute"""
    if is_node(inst):
        return {v: frac(q) for v, q in inst["node_flow"]}
    return {(u, v): frac(q) for u, v, q in inst["flow"]}


def elements(inst):
    return list(inst["nodes"]) if is_node(inst) else [tuple(e) for e in inst["edges"]]


def scale_of(inst):
    if is_node(inst):
        return {x[0]: frac(x[1]) for x in inst.get("scaling", [])}
    return {(x[0], x[1]): frac(x[2]) for x in inst.get("scaling", [])}


def counted(inst):
    """the elements whose change counts: carrying the attribute, not in the ignore list, scale factor not 0"""
    ign = set(inst.get("ignore", [])) if is_node(inst) else {tuple(e) for e in inst.get("ignore", [])}
    sc = scale_of(inst)
    obs = observed(inst)
    return [k for k in elements(inst) if k in obs and k not in ign and sc.get(k, Fraction(1)) != 0]


class RefLP:
    """a plain LP/MILP handed to highspy directly (independent of flowpaths' SolverWrapper)"""

    def __init__(self):
        import highspy
        self.hs = highspy
        self.h = highspy.Highs()
        self.h.setOptionValue("output_flag", False)
        self.n = 0
        self.cost = []

    def add_cost(self, j, c):
        self.cost[j] += float(c)

    def var(self, lb=0.0, ub=None, cost=0.0, integer=False):
        self.h.addVar(float(lb), self.hs.kHighsInf if ub is None else float(ub))
        j = self.n; self.n += 1
        self.cost.append(float(cost))
        if integer:
            self.h.changeColIntegrality(j, self.hs.HighsVarType.kInteger)
        return j

    def row(self, lo, hi, terms):
        acc = {}
        for j, c in terms:
            acc[j] = acc.get(j, 0.0) + float(c)
        idx = sorted(j for j in acc if acc[j] != 0.0)
        import numpy as np
        self.h.addRow(-self.hs.kHighsInf if lo is None else float(lo), self.hs.kHighsInf if hi is None else float(hi),
                      len(idx), np.array(idx, dtype=np.int32), np.array([acc[j] for j in idx], dtype=np.float64))

    def solve(self):
        for j, c in enumerate(self.cost):
            if c:
                self.h.changeColCost(j, c)
        self.h.run()
        st = self.h.modelStatusToString(self.h.getModelStatus())
        if st != "Optimal":
            return st, None, None
        return st, self.h.getInfo().objective_function_value, list(self.h.getSolution().col_value)


def reference(inst, budget=None, fixed=None, exempt_declared=True):
    """The L1-closest-flow problem as the property text states it, written from scratch:
    edge mode: x_e >= 0, d_e >= |f_e - x_e| on counted edges, conservation in(v) = out(v) at every node with both incoming
    and outgoing edges, except that a declared additional start may have out >= in and a declared additional end in >= out
    (`exempt_declared=False`: declarations ignored); node mode: node values x_v >= 0 carried by edge flows y_e >= 0 with
    in(v) = x_v at nodes with incoming edges (<= at declared starts) and out(v) = x_v at nodes with outgoing edges (<= at
    declared ends); minimise sum scale*d (+ lambda * flow entering at sources/starts).
    `fixed`: known element values (feasibility of a returned solution; unknown elements stay free), `budget`: unused.
    Returns (status, objective, values)."""
    lp = RefLP()
    integer = wint(inst) and fixed is None
    ins, outs = in_out(inst)
    starts = set(inst.get("starts", [])) if exempt_declared else set()
    ends = set(inst.get("ends", [])) if exempt_declared else set()
    lam = frac(inst.get("lambda", "0"))
    lam = lam if lam > 0 else Fraction(0)
    obs, sc = observed(inst), scale_of(inst)
    tol = TOL if fixed is not None else 0.0

    def xvar(k):
        if fixed is not None and k in fixed:
            v = float(fixed[k])
            return lp.var(lb=v, ub=v)
        return lp.var(integer=integer)
    if is_node(inst):
        x = {v: xvar(v) for v in inst["nodes"]}
        y = {tuple(e): lp.var() for e in inst["edges"]}
        for v in inst["nodes"]:
            if ins[v]:
                terms = [(y[e], 1) for e in ins[v]] + [(x[v], -1)]
                lp.row(None if v in starts else -tol, tol, terms)            # in(v) = x_v   (<= at a start)
            if outs[v]:
                terms = [(y[e], 1) for e in outs[v]] + [(x[v], -1)]
                lp.row(None if v in ends else -tol, tol, terms)              # out(v) = x_v  (<= at an end)
            if lam and (not ins[v] or v in starts):
                # flow entering at v: x_v - in(v)
                lp.add_cost(x[v], lam)
                for e in ins[v]:
                    lp.add_cost(y[e], -lam)
    else:
        x = {tuple(e): xvar(tuple(e)) for e in inst["edges"]}
        for v in inst["nodes"]:
            if lam and (not ins[v] or v in starts):
                s = lp.var(cost=lam)                                          # s >= out - in, s >= 0
                lp.row(0, None, [(s, 1)] + [(x[e], -1) for e in outs[v]] + [(x[e], 1) for e in ins[v]])
            if not ins[v] or not outs[v]:
                continue
            terms = [(x[e], 1) for e in ins[v]] + [(x[e], -1) for e in outs[v]]
            lo, hi = -tol, tol
            if v in starts:
                lo = None            # in <= out
            if v in ends:
                hi = None            # in >= out
            if lo is None and hi is None:
                continue
            lp.row(lo, hi, terms)
    for k in counted(inst):
        d = lp.var(cost=sc.get(k, Fraction(1)))
        f = float(obs[k])
        lp.row(f, None, [(d, 1), (x[k], 1)])        # d >= f - x
        lp.row(-f, None, [(d, 1), (x[k], -1)])      # d >= x - f
    st, obj, cols = lp.solve()
    vals = None if cols is None else {k: cols[j] for k, j in x.items()}
    return st, obj, vals


def brute_force(inst, eps=None):
    """tiny integer edge-mode instances: enumerate all integer edge functions with values in [0, B], B = 1 + (largest observed
    weight) * (number of edges); returns (optimum cost, minimum number of distinct values among flows of cost <= (1+eps)*opt)"""
    edges = [tuple(e) for e in inst["edges"]]
    obs, sc = observed(inst), scale_of(inst)
    cnt = counted(inst)
    ins, outs = in_out(inst)
    starts, ends = set(inst.get("starts", [])), set(inst.get("ends", []))
    lam = frac(inst.get("lambda", "0")); lam = lam if lam > 0 else Fraction(0)
    B = int(max([0] + [v for v in obs.values()])) * len(edges) + 1
    idx = {e: i for i, e in enumerate(edges)}
    best = None; per_cost = []
    for xs in itertools.product(range(B + 1), repeat=len(edges)):
        ok = True
        for v in inst["nodes"]:
            if not ins[v] or not outs[v]:
                continue
            a = sum(xs[idx[e]] for e in ins[v]); b = sum(xs[idx[e]] for e in outs[v])
            if (a < b and v not in starts) or (a > b and v not in ends):
                ok = False; break
        if not ok:
            continue
        c = sum(sc.get(k, Fraction(1)) * abs(obs[k] - xs[idx[k]]) for k in cnt)
        if lam:
            for v in inst["nodes"]:
                if not ins[v] or v in starts:
                    c += lam * max(0, sum(xs[idx[e]] for e in outs[v]) - sum(xs[idx[e]] for e in ins[v]))
        per_cost.append((c, len(set(xs))))
        if best is None or c < best:
            best = c
    kmin = None
    if eps is not None:
        bound = (1 + Fraction(eps)) * best
        kmin = min(k for c, k in per_cost if c <= bound)
    return best, kmin


def expected_cost(inst, values):
    """recomputed (error, scaled error, sparsity term or None when it cannot be recomputed from the output)"""
    obs, sc = observed(inst), scale_of(inst)
    cnt = counted(inst)
    err = sum(abs(float(obs[k]) - float(values[k])) for k in cnt)
    serr = sum(float(sc.get(k, Fraction(1))) * abs(float(obs[k]) - float(values[k])) for k in cnt)
    lam = frac(inst.get("lambda", "0"))
    if lam <= 0:
        return err, serr, 0.0
    if is_node(inst) or any(tuple(e) not in values for e in inst["edges"]):
        return err, serr, None
    ins, outs = in_out(inst)
    starts = set(inst.get("starts", []))
    sp = 0.0
    for v in inst["nodes"]:
        if not ins[v] or v in starts:
            sp += max(0.0, sum(values[e] for e in outs[v]) - sum(values[e] for e in ins[v]))
    return err, serr, float(lam) * sp


def magnitude(inst):
    obs = observed(inst)
    return max([1.0] + [float(v) for v in obs.values()]) * max(1, len(inst["edges"]))


def solution_problems(inst, G_in, sol_graph):
    """list of (site, text) for everything the property demands of the corrected graph; also returns the element values"""
    probs = []
    node = is_node(inst)
    if set(sol_graph.nodes()) != set(inst["nodes"]) or sol_graph.number_of_nodes() != len(inst["nodes"]):
        probs.append(("graph", f"corrected graph has nodes {sorted(sol_graph.nodes())}, input has {sorted(inst['nodes'])}"))
    if set(sol_graph.edges()) != {tuple(e) for e in inst["edges"]} or sol_graph.number_of_edges() != len(inst["edges"]):
        probs.append(("graph", f"corrected graph has edges {sorted(sol_graph.edges())}, input has {sorted(map(tuple, inst['edges']))}"))
    if not isinstance(sol_graph, nx.DiGraph):
        probs.append(("graph", f"corrected graph is a {type(sol_graph).__name__}"))
    if probs:
        return probs, {}
    obs = observed(inst)
    values = {}
    want = int if wint(inst) else float
    for k in elements(inst):
        data = sol_graph.nodes[k] if node else sol_graph[k[0]][k[1]]
        if "flow" not in data:
            if k in obs:
                probs.append(("values", f"{k!r} lost its flow attribute"))
            continue
        x = data["flow"]
        if k not in obs:
            probs.append(("values", f"{k!r} has no flow attribute in the input but {x!r} in the corrected graph"))
        if type(x) is not want:
            probs.append(("type", f"value {x!r} of {k!r} is a {type(x).__name__}, weight_type is {want.__name__}"))
        if not (x >= -1e-9):
            probs.append(("nonneg", f"value {x!r} of {k!r} is negative"))
        values[k] = x
    tol = TOL * magnitude(inst)
    ins, outs = in_out(inst)
    starts, ends = set(inst.get("starts", [])), set(inst.get("ends", []))
    if not node and all(tuple(e) in values for e in inst["edges"]):
        for v in inst["nodes"]:
            if not ins[v] or not outs[v]:
                continue
            a = sum(values[e] for e in ins[v]); b = sum(values[e] for e in outs[v])
            if v not in starts and v not in ends and abs(a - b) > tol:
                probs.append(("conservation", f"node {v!r} has incoming and outgoing edges, is no additional start/end, inflow {a} != outflow {b}"))
            elif v in starts and v not in ends and a > b + tol:
                probs.append(("conservation-start", f"additional start {v!r}: inflow {a} exceeds outflow {b}"))
            elif v in ends and v not in starts and b > a + tol:
                probs.append(("conservation-end", f"additional end {v!r}: outflow {b} exceeds inflow {a}"))
    else:
        # node mode (edge flows are not part of the output) or edges without a value: the corrected values must be
        # completable to a flow
        st, _, _ = reference(dict(inst, **{"lambda": "0"}), fixed=values)
        if st != "Optimal":
            probs.append(("conservation", f"the corrected values {values} cannot be completed to a flow ({st})"))
    return probs, values


# ----------------------------------------------------------------------------------------- one case

_KNOWN_SEEN = {}


def report(ctx, what, inp, site):
    """ctx.violation, except that at most 3 records are kept per listed finding (the engine keeps 50 records in all and
    unlisted violations must not be crowded out); every occurrence is counted in the suite histogram"""
    from fpv import engine
    from fpv.common import load_known
    v = {"what": what, "input": inp, "site": site}
    f = engine.matches_known(ctx.pid, v, load_known())
    h = ctx.rep.suite("violations")["histogram"]
    key = (f["id"] if f else "UNLISTED " + site)
    h[key] = h.get(key, 0) + 1
    if f:
        _KNOWN_SEEN[f["id"]] = _KNOWN_SEEN.get(f["id"], 0) + 1
        if _KNOWN_SEEN[f["id"]] > 3:
            return
    ctx.violation(what, inp, site=site)


def features(inst):
    h = ["node mode" if is_node(inst) else "edge mode", "acyclic" if inst["acyclic"] else "cyclic", inst["weight_type"]]
    if any(u == v for u, v in inst["edges"]):
        h.append("self loop")
    if inst.get("ignore"):
        h.append("ignore")
    if len(observed(inst)) < len(elements(inst)):
        h.append("element without attribute")
    if inst.get("scaling"):
        h.append("scaling")
    if inst.get("starts") or inst.get("ends"):
        h.append("starts/ends " + ("acyclic" if inst["acyclic"] else "cyclic"))
    if frac(inst.get("lambda", "0")) > 0:
        h.append("lambda>0")
    if inst.get("epsilon") is not None:
        h.append("epsilon")
    if inst.get("ints_as_int"):
        h.append("int data, float type")
    return h


def jvals(values):
    return [[list(k) if isinstance(k, tuple) else k, v] for k, v in values.items()]


def edit_in_place(G, inst):
    """the caller gives its graph object the observations of `inst` (same nodes and edges): attributes set / removed in place"""
    for u, v in G.edges():
        G[u][v].pop("flow", None)
    for v in G.nodes():
        G.nodes[v].pop("flow", None)
    H = graph_of(inst)
    for u, v, d in H.edges(data=True):
        G[u][v].update(d)
    for v, d in H.nodes(data=True):
        G.nodes[v].update(d)


def funnel_instance(rng):
    """m >= 3 branches s_i -> a_i -> v, each of weight w, merging into ONE edge v -> t that is under-weighted (w): the
    closest flow RAISES v -> t by (m-1)*w, more than the largest weight of the input"""
    m = rng.randint(3, 4)
    integer = rng.random() < 0.6
    w = rng.choice([1, 2, 3]) if integer else rng.choice([Fraction(1, 2), Fraction(3, 2), Fraction(2)])
    edges, f = [], {}
    for i in range(m):
        for e in ((f"s{i}", f"a{i}"), (f"a{i}", "v")):
            edges.append(e); f[e] = Fraction(w)
        if rng.random() < 0.3:
            e = (f"r{i}", f"s{i}"); edges.append(e); f[e] = Fraction(w)
    edges.append(("v", "t")); f[("v", "t")] = Fraction(w)
    rng.shuffle(edges)
    nodes = sorted({x for e in edges for x in e}); rng.shuffle(nodes)
    return {"nodes": nodes, "edges": [list(e) for e in edges], "origin": "edge", "weight_type": "int" if integer else "float",
            "ignore": [], "scaling": [], "starts": [], "ends": [], "lambda": "0", "epsilon": None, "acyclic": True,
            "flow": [[u, v, qstr(f[(u, v)])] for (u, v) in edges]}


def reused_graph_cases(ctx, n, suite="K5.reused_graph_object"):
    """two or three models in a row on ONE graph object whose observations (and the models' ignore lists, scalings, starts
    and ends) change in between: every model has to answer for the graph as it is when the model is built"""
    rng = ctx.rng
    for _ in range(n):
        origin = rng.choice(["node", "node", "edge"])
        first = gen_instance(rng, origin=origin, eps=None)
        G = graph_of(first)
        run_case(ctx, first, suite=suite, G_in=G)
        for _ in range(rng.randint(1, 2)):
            # fresh observations and a fresh ignore list on the nodes / edges of the first instance
            inst = dict(first)
            integer = wint(first) or first.get("ints_as_int", False)
            if origin == "node":
                f = rand_values(rng, first["nodes"], integer)
                inst["node_flow"] = [[v, qstr(f[v])] for v in first["nodes"]]
                inst["ignore"] = [v for v in first["nodes"] if rng.random() < 0.2]
                inst["scaling"] = []
            else:
                keys = [tuple(e) for e in first["edges"]]
                f = rand_values(rng, keys, integer)
                inst["flow"] = [[u, v, qstr(f[(u, v)])] for (u, v) in keys]
                inst["ignore"] = [list(e) for e in keys if rng.random() < 0.2]
                inst["scaling"] = []
            edit_in_place(G, inst)
            run_case(ctx, inst, suite=suite, G_in=G)


def run_case(ctx, inst, suite="K5.closest_flow", brute=False, G_in=None):
    fp = ctx.fp
    hist = features(inst)
    eps = inst.get("epsilon")
    try:
        G_in = graph_of(inst) if G_in is None else G_in
        m = build(fp, inst, G_in)
    except ValueError as e:
        ctx.rep.count(suite, inst, nontrivial=False, hist=hist + ["ctor ValueError"])
        if inst["acyclic"] or (frac(inst.get("lambda", "0")) == 0 and not inst.get("starts") and not inst.get("ends")):
            report(ctx, f"MinErrorFlow(...) refuses a valid instance: ValueError {e}", inst, "MinErrorFlow.__init__")
        return None
    ctx.rep.cov["oracle_evaluations"] += 1
    try:
        solved = bool(m.solve())
    except Infra:
        raise
    except Exception as e:
        ctx.rep.count(suite, inst, nontrivial=True, hist=hist + ["solve raised"])
        report(ctx, f"MinErrorFlow.solve() raised {type(e).__name__}: {e}", inst, "MinErrorFlow.solve:exception")
        return None
    if not solved or not m.is_solved():
        ctx.rep.count(suite, inst, nontrivial=True, hist=hist + ["unsolved"])
        report(ctx, f"MinErrorFlow.solve() returned {solved} (status {m.solve_statistics.get('milp_solver_status')}) "
                      f"although every weighted digraph has a closest flow", inst, "MinErrorFlow.solve")
        return None
    sol = m.get_solution()
    cg = m.get_corrected_graph()
    if cg is not sol["graph"] and (set(cg.edges()) != set(sol["graph"].edges())):
        report(ctx, "get_corrected_graph() and get_solution()['graph'] differ", inst, "MinErrorFlow.get_corrected_graph")
    probs, values = solution_problems(inst, G_in, sol["graph"])
    out = {"values": jvals(values), "error": sol.get("error"), "objective_value": sol.get("objective_value")}
    for site, text in probs:
        report(ctx, f"MinErrorFlow corrected graph: {text}", dict(inst, solution=out), "MinErrorFlow.get_solution:" + site)
        break
    if probs:
        ctx.rep.count(suite, inst, nontrivial=True, hist=hist + ["broken output"])
        return sol
    # the input graph must not have been modified
    if any(G_in[u][v].get("flow") != pynum(q, wint(inst) or inst.get("ints_as_int", False)) for u, v, q in inst.get("flow", []) or []):
        report(ctx, "the input graph's weights were modified", inst, "MinErrorFlow.get_solution:input-mutated")
    tol = TOL * magnitude(inst)
    err, serr, sp = expected_cost(inst, values)
    if abs(sol["error"] - err) > tol:
        report(ctx, f"reported error {sol['error']} but the corrected graph differs from the input by {err} on the counted elements",
                      dict(inst, solution=out), "MinErrorFlow.get_solution:error")
    if abs(m.get_objective_value() - sol["error"]) > tol:
        report(ctx, f"get_objective_value() = {m.get_objective_value()} differs from the reported error {sol['error']}",
                      dict(inst, solution=out), "MinErrorFlow.get_objective_value")
    # with eps the flow entering at a node that is both start and end (or isolated) need not be minimal: the reported
    # objective may exceed the recomputed one, but not the (1+eps) budget (checked below)
    if sp is not None and (abs(sol["objective_value"] - (serr + sp)) > tol if eps is None else sol["objective_value"] < serr + sp - tol):
        report(ctx, f"reported objective_value {sol['objective_value']} but scaled change {serr} + sparsity term {sp} = {serr + sp}",
                      dict(inst, solution=out), "MinErrorFlow.get_solution:objective_value")
    if sp is None and sol["objective_value"] < serr - tol:
        report(ctx, f"reported objective_value {sol['objective_value']} is below the scaled change {serr}",
                      dict(inst, solution=out), "MinErrorFlow.get_solution:objective_value")
    # optimality against the independent reference
    st, opt, _ = reference(inst)
    if st != "Optimal":
        raise Infra(f"reference LP not solved ({st}) on {json.dumps(inst)[:300]}")
    achieved = sol["objective_value"] if (sp is None or eps is not None) else serr + sp
    bound = opt if eps is None else (1 + float(frac(eps))) * opt
    nontrivial = opt > tol
    hist = hist + (["optimum>0"] if nontrivial else ["already a flow"])
    if achieved > bound + tol:
        what = (f"corrected flow costs {achieved} but a flow of cost {opt} exists" if eps is None else
                f"corrected flow costs {achieved} > (1+{eps})*optimum = {bound}")
        extra = {}
        if inst.get("starts") or inst.get("ends"):
            # is the result what one gets when the declarations are not honoured at all?
            _, opt_nd, _ = reference(inst, exempt_declared=False)
            extra = {"optimum_without_declarations": opt_nd,
                     "consistent_with_declarations_ignored":
                         opt_nd is not None and achieved <= (opt_nd if eps is None else (1 + float(frac(eps))) * opt_nd) + tol}
        report(ctx, "MinErrorFlow is not optimal: " + what, dict(inst, solution=out, reference_optimum=opt, **extra),
               site="MinErrorFlow:optimality")
    elif achieved < opt - tol:
        report(ctx, f"MinErrorFlow corrected flow costs {achieved}, less than the optimum {opt} of the closest-flow problem "
                      f"(so it is not a flow, or the reported values are inconsistent)",
                      dict(inst, solution=out, reference_optimum=opt), "MinErrorFlow:optimality-below")
    if inst.get("starts") or inst.get("ends"):
        st2, opt2, _ = reference(inst, exempt_declared=False)
        hist.append("declaration changes the optimum" if st2 == "Optimal" and opt2 > opt + tol else "declaration immaterial")
    if brute:
        bopt, kmin = brute_force(inst, eps)
        hist.append("brute force")
        if abs(float(bopt) - opt) > tol:
            raise Infra(f"reference LP optimum {opt} != brute-force optimum {bopt} on {json.dumps(inst)}")
        if eps is not None:
            k = len(set(values.values()))
            if k > kmin:
                report(ctx, f"few_flow_values_epsilon={eps}: the corrected flow uses {k} distinct values although {kmin} suffice "
                              f"within (1+eps)*optimum = {bound} (documented intent: fewest distinct values)",
                              dict(inst, solution=out, reference_optimum=opt, min_distinct=kmin),
                              site="MinErrorFlow.solve:few_flow_values_epsilon")
    ctx.rep.count(suite, inst, nontrivial=nontrivial, hist=hist)
    return sol


# ----------------------------------------------------------------------------------------- K2 for node mode

def node_expansion_request(inst):
    """the documented node expansion (v -> edge (v.0, v.1) carrying the node's weight; edge (u, v) -> ignored edge
    (u.1, v.0)), as a request for the Lean generator of the edge-mode LP"""
    nodes = [v + s for v in inst["nodes"] for s in (".0", ".1")]
    nedge = [[v + ".0", v + ".1"] for v in inst["nodes"]]
    oedge = [[u + ".1", v + ".0"] for u, v in inst["edges"]]
    obs = observed(inst)
    ignore = oedge + [[v + ".0", v + ".1"] for v in inst["nodes"] if v not in obs or v in inst.get("ignore", [])]
    return {"op": "lp.mef", "nodes": nodes, "edges": nedge + oedge,
            "flow": [[v + ".0", v + ".1", qstr(q)] for v, q in obs.items()],
            "ignore": ignore, "scaling": [[x[0] + ".0", x[0] + ".1", x[1]] for x in inst.get("scaling", [])],
            "starts": [v + ".0" for v in inst.get("starts", [])], "ends": [v + ".1" for v in inst.get("ends", [])],
            "weight_type": inst["weight_type"], "lambda": inst.get("lambda", "0"), "stage": 1}


def k2_node_case(ctx, inst, suite="K2.mef_node"):
    try:
        m = build(ctx.fp, inst)
    except ValueError:
        return
    m.solver._apply_pending_bound_updates()
    a = lpdump.from_highs(m.solver.solver)
    b = lpdump.from_driver(ctx.driver.call(node_expansion_request(inst)))
    ctx.rep.count(suite, inst, nontrivial=len(a) > 8, hist=features(inst))
    ctx.rep.cov["traces_validated_against_impl"] += 1
    if a != b:
        ctx.disagree(suite, inst, lpdump.diff(a, b), None, note="node-mode LP differs from the Lean generator on the documented node expansion")


# ----------------------------------------------------------------------------------------- driver

EPS = ["1/10", "1/4", "1/2"]


def finding_case(ctx, inst):
    run_case(ctx, inst, suite="known-finding replay", brute=bool(inst.get("brute")))


def run(ctx):
    rng = ctx.rng
    before = ctx.rep.cov["evaluations"]
    k2.run_k2(ctx, K2_ADAPTERS, ctx.n(600, 6000))
    ctx.rep.cov["traces_validated_against_impl"] += ctx.rep.cov["evaluations"] - before
    for _ in range(ctx.n(150, 1500)):
        k2_node_case(ctx, gen_instance(rng, origin="node", eps=None))
    first = True
    for it in range(ctx.n(800, 8000)):
        inst = gen_instance(rng)
        sol = run_case(ctx, inst)
        if first and sol:
            g = sol["graph"]
            ctx.rep.sample({"instance": inst, "error": sol["error"], "objective_value": sol["objective_value"]}); first = False
    for it in range(ctx.n(300, 3000)):
        inst = gen_instance(rng, eps=rng.choice(EPS))
        run_case(ctx, inst, suite="K5.few_values")
    # additional starts/ends on input with cycles, always declared
    for it in range(ctx.n(100, 1000)):
        inst = gen_instance(rng, cyclic=True)
        if not (inst["starts"] or inst["ends"]):
            inst["starts"] = rng.sample(inst["nodes"], 1)
            inst["ends"] = rng.sample(inst["nodes"], 1)
        run_case(ctx, inst, suite="K5.cyclic_starts_ends")
    reused_graph_cases(ctx, ctx.n(60, 600))
    for it in range(ctx.n(12, 100)):
        run_case(ctx, dict(gen_instance(rng, eps=None), numpy_numbers=True), suite="K5.numpy_numbers")
    for it in range(ctx.n(6, 40)):
        run_case(ctx, funnel_instance(rng), suite="K5.funnel")
    # ignored edges that do not carry the attribute, with and without epsilon
    for it in range(ctx.n(150, 1500)):
        inst = gen_instance(rng, origin="edge", eps=rng.choice([None, "1/10", "1/4", "1/2"]))
        es = [tuple(e) for e in inst["edges"]]
        ig = [e for e in es if rng.random() < 0.35] or [rng.choice(es)]
        if len(ig) == len(es):
            ig = ig[:-1]
        inst["ignore"] = [list(e) for e in ig]
        inst["flow"] = [x for x in inst["flow"] if (x[0], x[1]) not in ig]
        if len(inst["flow"]) + len(ig) < len(es):
            continue                      # an edge lost its attribute in gen_instance without being ignored any more
        run_case(ctx, inst, suite="K5.ignored_without_attribute")
    # tiny integer edge-mode instances: brute force (optimum, fewest distinct values)
    done = 0
    while done < ctx.n(60, 400):
        inst = gen_instance(rng, origin="edge", small=True, eps=rng.choice([None, "1/4", "1/2", "1/10"]))
        obs = observed(inst)
        if not wint(inst) or len(inst["edges"]) > 4 or max([0] + [int(v) for v in obs.values()]) > 3:
            continue
        if len(obs) < len(inst["edges"]):
            continue
        if reference(inst)[1] < 1e-9 and rng.random() < 0.7:
            continue                      # mostly observations that are not flows already
        done += 1
        run_case(ctx, dict(inst, brute=True), suite="K5.brute_force", brute=True)


def search(ctx):
    rng = random.Random(1616)
    for it in range(20):
        run_case(ctx, funnel_instance(rng), suite="search.funnel")
    for d in ctx.disagreements[:10]:
        inp = d.get("input") or {}
        if isinstance(inp, dict) and "origin" in inp and "acyclic" in inp:
            run_case(ctx, inp, suite="search")
    for it in range(300):
        run_case(ctx, gen_instance(rng, small=True, eps=rng.choice([None, None, "1/4"])), suite="search")
    ctx.violations.sort(key=lambda v: len(json.dumps(v["input"], default=str)))


def replay(ctx, payload):
    inp = payload.get("input") or {}
    inp = {k: v for k, v in inp.items() if k not in ("solution", "reference_optimum", "min_distinct",
                                                     "optimum_without_declarations", "consistent_with_declarations_ignored")}
    if "origin" in inp:
        print(run_case(ctx, inp, suite="replay", brute=bool(inp.get("brute"))))
        for v in ctx.violations:
            print(v["site"], v["what"])
