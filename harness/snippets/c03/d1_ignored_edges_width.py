# C03 regression snippet (defect fixed in /repo) - former defect 1b: get_lowerbound_k takes the width with the user's ignore list only; the synthetic source edge of a
# node all of whose edges are ignored still carries demand 1 -> bound 2, although one path explains the non-ignored part.
import sys; sys.path.insert(0, __import__("os").environ.get("FLOWPATHS_REPO", "/repo"))
import networkx as nx, flowpaths as fp
G = nx.DiGraph(); G.add_edge("s", "a", flow=3); G.add_edge("b", "a", flow=5); G.add_edge("a", "t", flow=5)
m = fp.MinFlowDecomp(G, flow_attr="flow", weight_type=int, elements_to_ignore=[("s", "a")])
print("lower bound:", m.get_lowerbound_k(), "(minimum is 1: b-a-t with weight 5)")
print("solve():", m.solve(), m.get_solution())
assert m.get_lowerbound_k() == 1 and len(m.get_solution()["paths"]) == 1   # regression: fixed by 264fceb
