# C03 regression snippet (defect fixed in /repo) - former defect 1a: an isolated node inflates MinFlowDecomp.get_lowerbound_k (the width is taken with demand 1 on the
# synthetic edges source->z, z->sink); on a single edge the search range range(2, |E|+1) is then empty.
import sys; sys.path.insert(0, __import__("os").environ.get("FLOWPATHS_REPO", "/repo"))
import networkx as nx, flowpaths as fp
G = nx.DiGraph(); G.add_edge("a", "b", flow=5); G.add_node("z")
m = fp.MinFlowDecomp(G, flow_attr="flow", weight_type=int)
print("lower bound:", m.get_lowerbound_k(), "(a decomposition with 1 path exists: a-b with weight 5)")
print("solve():", m.solve())
assert m.get_lowerbound_k() == 1 and m.is_solved() is True   # regression: fixed by 264fceb
G2 = nx.DiGraph(); G2.add_edge("a", "b", flow=5); G2.add_edge("a", "c", flow=1); G2.add_node("z")
m2 = fp.MinFlowDecomp(G2, flow_attr="flow", weight_type=int, optimization_options={"optimize_with_greedy": False})
print("two edges + isolated node: lower bound", m2.get_lowerbound_k(), "minimum 2; solve()", m2.solve(),
      "paths", m2.get_solution()["paths"] if m2.is_solved() else None)
