# C03 regression snippet (defect fixed in /repo) - former defect 2: the log2 term (and the MinGenSet input) of get_lowerbound_k counts the flow values of ignored edges.
import sys; sys.path.insert(0, __import__("os").environ.get("FLOWPATHS_REPO", "/repo"))
import networkx as nx, flowpaths as fp
G = nx.DiGraph()
for u, v, f in [("s", "a", 5), ("a", "t", 5), ("s", "t", 9), ("s", "m", 2), ("m", "t", 3)]:
    G.add_edge(u, v, flow=f)
ign = [("s", "t"), ("s", "m"), ("m", "t")]
m = fp.MinFlowDecomp(G, flow_attr="flow", weight_type=int, elements_to_ignore=ign)
print("lower bound:", m.get_lowerbound_k(), "(width 1, 4 distinct values incl. ignored ones -> ceil(log2 4) = 2; minimum is 1: s-a-t weight 5)")
print("solve():", m.solve(), m.get_solution())
assert m.get_lowerbound_k() == 1 and len(m.get_solution()["paths"]) == 1   # regression: fixed by 01f9777
