# C03 regression snippet (defect fixed in /repo) - former defect 4: with subpath constraints the minimum number of paths can exceed |E|, but MinFlowDecomp.solve only
# searches range(lb, |E|+1). Complete DAG on 6 nodes without (v0,v5),(v0,v4),(v1,v5): 12 edges, 13 source-to-sink paths;
# flow = one unit per path, every path is a subpath constraint. kFlowDecomp(k=13) is feasible, MinFlowDecomp gives up.
import sys; sys.path.insert(0, __import__("os").environ.get("FLOWPATHS_REPO", "/repo"))
import networkx as nx, flowpaths as fp
nodes = [f"v{i}" for i in range(6)]
drop = {(0, 5), (0, 4), (1, 5)}
edges = [(nodes[i], nodes[j]) for i in range(6) for j in range(i + 1, 6) if (i, j) not in drop]
G = nx.DiGraph(); G.add_edges_from(edges)
paths = list(nx.all_simple_paths(G, "v0", "v5"))
for e in edges:
    G[e[0]][e[1]]["flow"] = sum(1 for p in paths if e in zip(p[:-1], p[1:]))
cons = [list(zip(p[:-1], p[1:])) for p in paths]
print(len(edges), "edges,", len(paths), "paths / constraints")
k = fp.kFlowDecomp(G, flow_attr="flow", k=len(paths), weight_type=int, subpath_constraints=cons)
print("kFlowDecomp(k=13).solve():", k.solve())
m = fp.MinFlowDecomp(G, flow_attr="flow", weight_type=int, subpath_constraints=cons,
                     optimization_options={"lowerbound_k": 12})      # 12 is a valid lower bound (the minimum is 13)
print("MinFlowDecomp.solve():", m.solve(), "(before e0ac661: range(12, 13) only tried k = 12)")
assert k.is_solved() and m.is_solved() and len(m.get_solution()["paths"]) == 13   # regression: fixed by e0ac661
